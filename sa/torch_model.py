"""Explicit, versioned tables of torch API names used by the alias/effect (E1) and gradient-taint (E8) analyses.

Classification by *attribute name* (the receiver's tensor-ness is decided separately):
  VIEW_*      may return (a view of / the very) receiver or first argument
  INPLACE_*   mutate the receiver's data
  META_*      change only metadata of the receiver (shape/strides/grad flag), not its data
  FRESH_*     always return newly allocated memory
  NONTENSOR_* return python scalars / shapes / booleans
"""

VIEW_ATTRS = {"T", "mT", "H", "mH", "data", "real", "imag"}
NONTENSOR_ATTRS = {"shape", "ndim", "dtype", "device", "requires_grad", "is_cuda", "is_leaf", "layout", "names", "grad_fn"}

VIEW_METHODS = {
    # shape views
    "view", "view_as", "reshape", "reshape_as", "flatten", "unflatten", "ravel", "squeeze", "unsqueeze", "expand", "expand_as",
    "broadcast_to", "narrow", "transpose", "permute", "t", "swapaxes", "swapdims", "movedim", "moveaxis", "chunk", "split",
    "tensor_split", "unbind", "select", "diagonal", "unfold", "as_strided", "__getitem__", "index", "adjoint",
    # no-op conversions (return self when nothing changes)
    "to", "type", "type_as", "float", "double", "half", "bfloat16", "int", "long", "short", "bool", "byte", "char", "cpu", "cuda",
    "contiguous", "detach", "as_subclass", "requires_grad_", "tensor", "data", "positive", "conj", "resolve_conj", "resolve_neg",
    "pin_memory", "align_as", "rename", "refine_names", "values", "indices",
    # deepali object accessors returning stored tensors
    "center", "origin", "spacing", "direction", "size_tensor", "grid", "grids", "batch",
}

INPLACE_METHODS = {
    "add_", "sub_", "mul_", "div_", "true_divide_", "floor_divide_", "pow_", "neg_", "abs_", "absolute_", "square_", "sqrt_", "rsqrt_",
    "exp_", "expm1_", "log_", "log2_", "log10_", "log1p_", "sin_", "cos_", "tan_", "tanh_", "atanh_", "sigmoid_", "relu_",
    "clamp_", "clamp_min_", "clamp_max_", "clip_", "round_", "floor_", "ceil_", "trunc_", "frac_", "sign_", "reciprocal_",
    "fill_", "zero_", "copy_", "set_", "index_fill_", "index_add_", "index_copy_", "index_put_", "scatter_", "scatter_add_",
    "masked_fill_", "masked_scatter_", "normal_", "uniform_", "random_", "bernoulli_", "exponential_", "cauchy_", "geometric_",
    "lerp_", "addcmul_", "addcdiv_", "addmm_", "addmv_", "addbmm_", "baddbmm_", "fmod_", "remainder_", "lt_", "le_", "gt_", "ge_",
    "eq_", "ne_", "logical_and_", "logical_or_", "logical_not_", "logical_xor_", "bitwise_and_", "bitwise_or_", "bitwise_not_",
    "cumsum_", "cumprod_", "renorm_", "sub_", "mul_", "nan_to_num_", "triu_", "tril_", "fill_diagonal_", "resize_", "resize_as_",
    "detach_", "squeeze_copy_", "apply_", "map_", "erfinv_", "erf_", "hardtanh_", "leaky_relu_", "elu_", "softmax_", "hypot_",
    "atan2_", "arctan2_", "mvlgamma_", "put_", "swapaxes_copy_", "__setitem__", "__iadd__", "__isub__", "__imul__", "__itruediv__",
}

# change only the receiver's metadata (no data is overwritten); in-place on a *fresh* view of an argument is harmless
META_INPLACE_METHODS = {"squeeze_", "unsqueeze_", "transpose_", "t_", "swapaxes_", "swapdims_", "retain_grad", "rename_", "as_strided_"}

FRESH_METHODS = {
    "clone", "add", "sub", "mul", "div", "true_divide", "floor_divide", "pow", "neg", "abs", "absolute", "square", "sqrt", "rsqrt",
    "exp", "expm1", "log", "log2", "log10", "log1p", "sin", "cos", "tan", "tanh", "atanh", "acos", "asin", "atan", "sigmoid",
    "softmax", "log_softmax", "relu", "clamp", "clamp_min", "clamp_max", "clip", "round", "floor", "ceil", "trunc", "sign",
    "reciprocal", "sum", "mean", "prod", "std", "var", "norm", "max", "min", "amax", "amin", "argmax", "argmin", "median", "mode",
    "cumsum", "cumprod", "matmul", "mm", "bmm", "mv", "dot", "cross", "det", "inverse", "pinverse", "flip", "roll", "repeat",
    "repeat_interleave", "tile", "index_select", "masked_select", "gather", "take", "take_along_dim", "where", "masked_fill",
    "scatter", "scatter_add", "index_fill", "index_add", "lt", "le", "gt", "ge", "eq", "ne", "isnan", "isinf", "isfinite",
    "logical_and", "logical_or", "logical_not", "logical_xor", "all", "any", "nonzero", "sort", "argsort", "topk", "unique",
    "new_zeros", "new_ones", "new_empty", "new_full", "new_tensor", "zeros_like", "ones_like", "lerp", "addcmul", "addcdiv",
    "fmod", "remainder", "nan_to_num", "triu", "tril", "diag", "diag_embed", "trace", "outer", "ger", "kron", "erf", "erfinv",
    "sinh", "cosh", "hypot", "atan2", "arctan2", "numpy", "bincount", "histc", "count_nonzero", "float_power", "logsumexp",
    "dist", "renorm", "addmm", "baddbmm", "conj_physical", "sgn", "heaviside", "angle", "bernoulli", "multinomial", "normal",
}

NONTENSOR_METHODS = {
    "item", "tolist", "size", "dim", "numel", "nelement", "is_floating_point", "is_contiguous", "is_complex", "element_size",
    "stride", "storage_offset", "data_ptr", "get_device", "is_pinned", "is_set_to", "is_shared", "is_signed", "ndimension",
    "align_corners", "axes", "keys", "items", "lower", "upper", "strip", "split_", "startswith", "endswith", "format", "join",
    "replace", "count", "index", "copy", "get", "nchannels", "sdim", "has_parameters",
}

# torch.<name>(x, ...) / F.<name>(x, ...) that may return (a view of) x
VIEW_FUNCS = {
    "as_tensor", "atleast_1d", "atleast_2d", "atleast_3d", "squeeze", "unsqueeze", "reshape", "flatten", "ravel", "transpose",
    "permute", "movedim", "moveaxis", "swapaxes", "swapdims", "narrow", "select", "chunk", "split", "tensor_split", "unbind",
    "diagonal", "broadcast_to", "broadcast_tensors", "expand_copy_not", "view_as_real", "view_as_complex", "detach", "t", "real",
    "adjoint", "unflatten", "from_numpy", "as_strided", "meshgrid", "index",
}

# subset of the view family that hands back the *very object* it was given when nothing needs converting (torch.as_tensor(t), t.to(t.dtype),
# t.float() of a float tensor, t.contiguous() of a packed tensor, atleast_1d of a tensor with ndim >= 1): a metadata-only in-place
# method (unsqueeze_, squeeze_, transpose_, ...) applied to such a result reshapes the caller's own tensor
SAME_OBJECT_FUNCS = {"as_tensor", "atleast_1d", "atleast_2d", "atleast_3d"}
SAME_OBJECT_METHODS = {"to", "type", "type_as", "float", "double", "half", "bfloat16", "int", "long", "short", "bool", "byte", "char", "cpu",
                       "cuda", "contiguous", "requires_grad_", "pin_memory"}

FRESH_FUNCS = set()  # everything else in torch.* / F.* is treated as fresh unless it ends with "_", takes out= or inplace=True

NONTENSOR_FUNCS = {"is_tensor", "is_floating_point", "is_complex", "numel", "is_grad_enabled", "device", "Size", "finfo", "iinfo",
                   "get_default_dtype", "manual_seed", "broadcast_shapes", "result_type", "promote_types", "can_cast", "is_nonzero"}

# --- E8: gradient blockers -------------------------------------------------------------------------------------------
GRAD_BLOCKING_METHODS = {"detach", "detach_", "item", "tolist", "numpy", "round", "round_", "floor", "floor_", "ceil", "ceil_",
                         "trunc", "trunc_", "sign", "sign_", "argmax", "argmin", "long", "int", "short", "byte", "bool", "char",
                         "ge", "gt", "le", "lt", "eq", "ne", "floor_divide", "fmod_not"}
GRAD_BLOCKING_ATTRS = {"data"}
GRAD_BLOCKING_FUNCS = {"round", "floor", "ceil", "trunc", "sign", "argmax", "argmin", "tensor", "from_numpy", "floor_divide"}
