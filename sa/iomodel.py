"""Host models of the third-party I/O layers that deepali's image reader/writer code talks to (used by the C18 adaptor only).

Everything here is *specification*, written from the libraries' documentation, not deepali code:

* numpy: arrays are symbolic tensors (``STensor``) whose dtype is a named ``DType``; the handful of functions the I/O code uses.
* bytes / io.BytesIO / zlib: a file is a list of chunks — real ``bytes`` for header text, ``Blob`` for raw voxel data
  (``ndarray.tobytes()`` in C order with its dtype), ``Compressed`` for a zlib stream.
* SimpleITK: ``SitkImage`` (array in (z, y, x[, c]) order <-> size (x, y, z); origin/spacing/direction with defaults), Get/Set
  accessors, Cast, ReadImage/WriteImage/ImageFileReader through a virtual file system (ITK's own file IO is trusted to be lossless).
* nibabel: ``Nifti1Image(dataobj, affine)`` requires a 4x4 affine, dim = [ndim, *shape], pixdim = column norms of the affine,
  intent_code 0, no scaling; save/load through the virtual file system.
* deepali.core.storage.StorageObject / unlink_or_mkdir: local paths in the virtual file system.
"""
from __future__ import annotations

import copy as _copy
from fractions import Fraction
from typing import Any, Callable, Dict, List, Optional, Sequence, Tuple

from . import symt, tae
from .ring import Rat
from .symt import DType, InterpError, STensor, Size, Unsupported, to_rat
from .tae import HostObject

# ------------------------------------------------------------------------------------------------ dtypes
NP_TYPES: Dict[str, Tuple[DType, int]] = {}
for _n, _f, _sz in (("int8", False, 1), ("uint8", False, 1), ("int16", False, 2), ("uint16", False, 2), ("int32", False, 4),
                    ("uint32", False, 4), ("int64", False, 8), ("uint64", False, 8), ("float32", True, 4), ("float64", True, 8),
                    ("bool", False, 1)):
    NP_TYPES[_n] = (DType(_n, _f), _sz)


def dt(name: str) -> DType:
    return NP_TYPES[name][0]


def as_dtype(x) -> DType:
    if isinstance(x, DType):
        return NP_TYPES[x.name][0] if x.name in NP_TYPES else x
    if isinstance(x, NPDTypeObj):
        return x.dtype
    if x is float or x is tae._float:
        return dt("float64")
    if x is int or x is tae._int:
        return dt("int64")
    if isinstance(x, str) and x in NP_TYPES:
        return dt(x)
    raise Unsupported(f"numpy dtype {x!r}")


class NPDTypeObj(HostObject):
    def __init__(self, d: DType):
        self.dtype = d
        self.name = d.name
        self.itemsize = NP_TYPES[d.name][1]


# ------------------------------------------------------------------------------------------------ string tokens for symbolic numbers
TOKENS: Dict[str, Any] = {}


def number_to_str(x) -> str:
    """str() of an array element as it would be written into a text header: constants print as numbers, symbolic values as tokens."""
    if isinstance(x, STensor):
        x = x.item()
    x = symt.simplify(x)
    if isinstance(x, (int, Fraction)):
        return str(x)
    r = to_rat(x)
    if r.is_const():
        return str(r.const_value())
    tok = f"<{len(TOKENS)}>"
    for k, v in TOKENS.items():
        if to_rat(v).equals(r):
            return k
    TOKENS[tok] = r
    return tok


def number_to_str_spec(x, spec: str) -> str:
    """format(x, spec) of an array element written into a text header. A format with limited precision ('g', '.3f', 'e', ...)
    reproduces a number only if it has that few digits: exact for constants that survive the round trip, otherwise the written text
    denotes a *different* (rounded) number."""
    if isinstance(x, STensor):
        x = x.item()
    x = symt.simplify(x)
    if isinstance(x, (int, Fraction)) or to_rat(x).is_const():
        v = x if isinstance(x, (int, Fraction)) else to_rat(x).const_value()
        try:
            txt = format(v if isinstance(v, int) and not any(c in spec for c in "eEfFgG%") else float(v), spec)
            if Fraction(txt) == Fraction(v):
                return txt
        except (ValueError, TypeError, ZeroDivisionError):
            pass
    r = to_rat(x)
    key = f"<rounded:{spec}:{len(TOKENS)}>"
    for k, v in TOKENS.items():
        if k.startswith(f"<rounded:{spec}:") and getattr(v, "_src", None) is not None and v._src.equals(r):
            return k
    lossy = Rat.atom(f"rounded[{spec}]({r})")
    try:
        lossy._src = r
    except AttributeError:
        pass
    if symt.FACTS.sign(r) == 1:
        symt.FACTS.declare_positive(lossy)  # rounding keeps the sign of a generic positive number
    TOKENS[key] = lossy
    return key


def str_to_number(tok: str, integer: bool = False):
    if tok in TOKENS:
        return TOKENS[tok]
    try:
        f = Fraction(tok)
    except (ValueError, ZeroDivisionError):
        raise InterpError("ValueError", f"could not convert string to float: {tok!r}")
    if integer and f.denominator != 1:
        raise InterpError("ValueError", f"invalid literal for int(): {tok!r}")
    return f


# ------------------------------------------------------------------------------------------------ raw data containers
class Blob(HostObject):
    """ndarray.tobytes(): the elements in C order, tagged with the dtype whose binary layout they have."""

    def __init__(self, values: List[Any], dtype: DType):
        self.values = list(values)
        self.dtype = dtype
        self.nbytes = len(self.values) * NP_TYPES[dtype.name][1]

    def __len__(self):
        return self.nbytes


class Compressed(HostObject):
    def __init__(self, blob: Blob, level: int):
        self.blob = blob
        self.size = 11 + blob.nbytes // 2  # some length different from the raw size

    def __len__(self):
        return self.size


class FileBytes(HostObject):
    """Contents of a file: header chunks (bytes) followed by data chunks."""

    def __init__(self, chunks: List[Any]):
        self.chunks = list(chunks)


def chunk_len(c) -> int:
    return len(c)


class HBytesIO(HostObject):
    """io.BytesIO over chunked contents; supports the access pattern of a line-oriented header followed by binary data."""

    def __init__(self, initial=None):
        self.chunks: List[Any] = []
        if isinstance(initial, FileBytes):
            self.chunks = list(initial.chunks)
        elif isinstance(initial, (bytes, Blob, Compressed)):
            self.chunks = [initial]
        elif initial is not None:
            raise Unsupported(f"BytesIO({type(initial).__name__})")
        self.pos = 0

    # writing
    def write(self, b):
        if isinstance(b, FileBytes):
            self.chunks.extend(b.chunks)
            return sum(chunk_len(c) for c in b.chunks)
        if not isinstance(b, (bytes, Blob, Compressed)):
            raise InterpError("TypeError", f"a bytes-like object is required, not {type(b).__name__}")
        if len(b):
            self.chunks.append(b)
        return len(b)

    def writelines(self, lines):
        for ln in lines:
            self.write(ln)

    def getvalue(self):
        return FileBytes(self.chunks)

    def getbuffer(self):
        data = [c for c in self.chunks]
        if len(data) == 1 and isinstance(data[0], Blob):
            return data[0]
        if not data:
            return Blob([], dt("uint8"))
        if all(isinstance(c, Blob) for c in data) and len({c.dtype.name for c in data}) == 1:
            return Blob([v for c in data for v in c.values], data[0].dtype)
        raise Unsupported("getbuffer() of mixed contents")

    # reading
    def _total(self) -> int:
        return sum(chunk_len(c) for c in self.chunks)

    def seek(self, off, whence=0):
        off = int(symt.simplify(off))
        if whence == 0:
            self.pos = off
        elif whence == 1:
            self.pos += off
        else:
            self.pos = self._total() + off
        return self.pos

    def tell(self):
        return self.pos

    def _locate(self) -> Tuple[int, int]:
        p = 0
        for i, c in enumerate(self.chunks):
            n = chunk_len(c)
            if self.pos < p + n:
                return i, self.pos - p
            p += n
        return len(self.chunks), 0

    def __iter__(self):
        return self

    def __next__(self):
        i, off = self._locate()
        if i >= len(self.chunks):
            raise StopIteration
        c = self.chunks[i]
        if not isinstance(c, bytes):
            raise Unsupported("reading a text line from binary voxel data")
        rest = c[off:]
        k = rest.find(b"\n")
        line = rest if k < 0 else rest[:k + 1]
        self.pos += len(line)
        return line

    def readline(self):
        try:
            return self.__next__()
        except StopIteration:
            return b""

    def read(self, n=None):
        i, off = self._locate()
        if n is not None:
            n = int(symt.simplify(n))
            if n == 0:
                return b""
        if i >= len(self.chunks):
            return b""
        c = self.chunks[i]
        if isinstance(c, bytes):
            if n is None and all(isinstance(x, bytes) for x in self.chunks[i:]):
                out = c[off:] + b"".join(self.chunks[i + 1:])
                self.pos = self._total()
                return out
            if n is not None and off + n <= len(c):
                self.pos += n
                return c[off:off + n]
            raise Unsupported("read() across header/data boundary")
        if off != 0:
            if isinstance(c, Blob) and n is not None:
                isz = NP_TYPES[c.dtype.name][1]
                if off % isz == 0 and n % isz == 0 and off + n <= c.nbytes:
                    self.pos += n
                    return Blob(c.values[off // isz:(off + n) // isz], c.dtype)
            raise InterpError("ValueError", "read() starts inside the voxel data at a misaligned offset")
        if n is None or n == chunk_len(c):
            self.pos += chunk_len(c)
            return c
        if isinstance(c, Blob):
            isz = NP_TYPES[c.dtype.name][1]
            if n % isz == 0 and n < c.nbytes:
                self.pos += n
                return Blob(c.values[:n // isz], c.dtype)
            if n > c.nbytes and i + 1 >= len(self.chunks):
                self.pos += c.nbytes
                return c
        raise InterpError("ValueError", f"read({n}) does not match the stored data block of {chunk_len(c)} bytes")

    def close(self):
        pass


def zlib_compress(b, level=-1, **k):
    if not isinstance(b, Blob):
        raise Unsupported("zlib.compress of non-array data")
    return Compressed(b, k.get("level", level))


def zlib_decompress(b, *a, **k):
    if not isinstance(b, Compressed):
        raise InterpError("zlib.error", "Error -3 while decompressing data: incorrect header check")
    return b.blob


# ------------------------------------------------------------------------------------------------ numpy
def _arr(x, dtype=None) -> STensor:
    if isinstance(x, tae.STObj):
        x = x.plain()
    if isinstance(x, STensor):
        return x if dtype is None else x.astype(dtype)
    if isinstance(x, (list, tuple, Size, range)):
        vals = list(x)
        if vals and all(isinstance(v, str) for v in vals):
            d = as_dtype(dtype) if dtype is not None else None
            if d is None:
                raise Unsupported("numpy array of strings")
            nums = [str_to_number(v, integer=not d.is_floating_point) for v in vals]
            return STensor.from_flat(nums, [len(nums)], d)
        t = STensor.from_nested([v.tolist() if isinstance(v, STensor) else v for v in vals]) if vals else STensor.from_flat([], [0])
        if dtype is not None:
            return t.astype(dtype)
        allint = all(isinstance(symt.simplify(v), int) for v in t.flat())
        return STensor(list(t.flat()), list(range(t.numel())), list(t.shape), dt("int64") if allint and vals else dt("float64"))
    if isinstance(x, (int, Fraction, Rat)):
        return STensor.from_flat([x], [], as_dtype(dtype) if dtype is not None else (dt("int64") if isinstance(x, int) else dt("float64")))
    if hasattr(x, "__next__"):
        # np.array(<generator/iterator>) does not consume it: the result is a 0-d object array wrapping the iterator
        return STensor.from_flat([Rat.atom(f"object<{type(x).__name__}>")], [], dt("float64"))
    raise Unsupported(f"numpy array from {type(x).__name__}")


def np_array(x, dtype=None, copy=True, **k):
    a = _arr(x, dtype)
    return a.clone() if isinstance(x, STensor) and copy else a


def np_asarray(x, dtype=None, **k):
    return _arr(x, dtype)


def np_expand_dims(a, axis):
    return _arr(a).unsqueeze(axis)


def np_squeeze(a, axis=None):
    a = _arr(a)
    if axis is None:
        return a.squeeze()
    if a.shape[axis] != 1:
        raise InterpError("ValueError", "cannot select an axis to squeeze out which has size not equal to one")
    return a.squeeze(axis)


def np_swapaxes(a, i, j):
    return _arr(a).transpose(i, j)


def np_transpose(a, axes=None):
    a = _arr(a)
    if axes is None:
        return a.permute(list(reversed(range(a.ndim))))
    axes = [int(v) for v in axes]
    if sorted(x % a.ndim for x in axes) != list(range(a.ndim)):
        raise InterpError("ValueError", "axes don't match array")
    return a.permute(axes)


def _shape_arg(shape) -> List[int]:
    if isinstance(shape, STensor):
        if shape.dtype.is_floating_point:
            raise InterpError("TypeError", "'numpy.float64' object cannot be interpreted as an integer")
        shape = shape.tolist()
    if isinstance(shape, (int, Fraction)):
        shape = [shape]
    out = []
    for s in shape:
        if isinstance(s, STensor):
            s = s.item()
        s = symt.simplify(s)
        if isinstance(s, Fraction) and s.denominator == 1:
            s = int(s)
        if not isinstance(s, int):
            raise Unsupported(f"non-integer shape entry {s!r}")
        out.append(s)
    return out


def np_reshape(a, shape, *more):
    a = _arr(a)
    shp = _shape_arg([shape] + list(more) if more else shape)
    n = a.numel()
    known = 1
    for s in shp:
        if s != -1:
            known *= s
    if shp.count(-1) == 1 and known and n % known == 0:
        shp = [n // known if s == -1 else s for s in shp]
    tot = 1
    for s in shp:
        tot *= s
    if tot != n:
        raise InterpError("ValueError", f"cannot reshape array of size {n} into shape {tuple(shp)}")
    return a.reshape(shp)


def np_ravel(a):
    return _arr(a).reshape([-1])


def np_ones(shape, dtype=None):
    return symt.ones(*_shape_arg(shape), dtype=as_dtype(dtype) if dtype is not None else dt("float64"))


def np_zeros(shape, dtype=None):
    return symt.zeros(*_shape_arg(shape), dtype=as_dtype(dtype) if dtype is not None else dt("float64"))


def np_eye(n, m=None, dtype=None, **k):
    n = int(n)
    t = symt.eye(n) if m is None else STensor.from_nested([[1 if i == j else 0 for j in range(int(m))] for i in range(n)])
    return STensor(list(t.flat()), list(range(t.numel())), list(t.shape), as_dtype(dtype) if dtype is not None else dt("float64"))


# ---- linear algebra / lattice helpers used by utils/simpleitk/grid.py
def np_diag(v, k=0):
    return symt.diag(_arr(v))


def np_matmul(a, b):
    a, b = _arr(a), _arr(b)
    if b.ndim == 0 or a.ndim == 0:
        raise InterpError("ValueError: matmul: Input operand does not have enough dimensions")
    return symt.matmul(a, b)


def np_copy(a, **k):
    return _arr(a).clone()


def np_round(a, decimals=0, **k):
    """np.round / np.around. decimals >= 9 is value-preserving for the purposes of the coordinate maps (documented tolerance)."""
    a = _arr(a)
    if int(decimals) >= 9:
        return a.clone()
    if int(decimals) == 0:
        vals = []
        for v in a.flat():
            v = to_rat(v)
            if symt.FACTS.is_integral(v):
                vals.append(v)
            elif v.is_const():
                vals.append(Rat.of(round(v.const_value())))
            else:
                vals.append(symt.sfunc("rint", v))
        return STensor.from_flat(vals, list(a.shape), a.dtype)
    raise Unsupported(f"np.round(decimals={decimals})")


def np_arange(*a, dtype=None, **k):
    out = symt.arange(*a)
    return out.astype(dtype) if dtype is not None else STensor(list(out.flat()), list(range(out.numel())), list(out.shape), dt("int64") if all(isinstance(symt.simplify(v), int) for v in out.flat()) else dt("float64"))


def np_meshgrid(*xi, indexing="xy", **k):
    xs = [_arr(x) for x in xi]
    if indexing == "ij":
        return list(symt.meshgrid(*xs, indexing="ij"))
    if len(xs) < 2:
        return list(symt.meshgrid(*xs, indexing="ij"))
    out = symt.meshgrid(*([xs[1], xs[0]] + xs[2:]), indexing="ij")
    return [t.transpose(0, 1) for t in [out[1], out[0]] + list(out[2:])]


def np_stack(arrays, axis=0, **k):
    return symt.stack([_arr(a) for a in arrays], int(axis))


def np_concatenate(arrays, axis=0, **k):
    return symt.cat([_arr(a) for a in arrays], int(axis))


def np_flip(a, axis=None):
    a = _arr(a)
    if axis is None:
        dims = list(range(a.ndim))
    elif isinstance(axis, int):
        dims = [axis]
    else:
        dims = [int(v) for v in axis]
    return a.flip(dims)


def np_prod(a, dtype=None, **k):
    acc = 1
    for v in (_arr(a).flat() if not isinstance(a, (list, tuple, Size)) else a):
        acc = acc * symt.simplify(v)
    return symt.simplify(acc)


def np_ndim(a):
    return _arr(a).ndim


def np_divide(a, b):
    return _arr(a).div(_arr(b))


def np_abs(a):
    return _arr(a).abs()


def np_dtype(x):
    return NPDTypeObj(as_dtype(x))


def np_issubdtype(a, b):
    try:
        return as_dtype(a).name == as_dtype(b).name
    except Unsupported:
        return False


class UIntP(int):
    """numpy.uintp scalar (unsigned 64-bit): combining it with an int64 array promotes to float64 (NumPy type promotion)."""


def np_uintp(x):
    if isinstance(x, str):
        f = str_to_number(x.strip(), integer=True)
        return UIntP(int(f))
    return UIntP(int(symt.simplify(x)))


def np_frombuffer(buffer, dtype=None, **k):
    d = as_dtype(dtype if dtype is not None else float)
    if not isinstance(buffer, Blob):
        raise Unsupported(f"np.frombuffer({type(buffer).__name__})")
    isz = NP_TYPES[d.name][1]
    if buffer.nbytes % isz:
        raise InterpError("ValueError", "buffer size must be a multiple of element size")
    if d.name == buffer.dtype.name:
        vals = list(buffer.values)
    else:
        # the bytes of one number type re-read as another: no relation to the stored values
        vals = [Rat.atom(f"reinterpret_{buffer.dtype.name}_as_{d.name}_{i}") for i in range(buffer.nbytes // isz)]
    return STensor.from_flat(vals, [len(vals)], d)


class _IInfo(HostObject):
    def __init__(self, *a):
        self.max = 2 ** 63 - 1
        self.min = -2 ** 63


class _RClass(HostObject):
    """np.r_[a, b, ...]: concatenation of 1-d pieces. (A numpy uintp scalar cannot be concatenated with an int64 array under
    'same_kind' casting in numpy >= 1.?; that version-dependent behaviour is not modelled.)"""

    def __getitem__(self, items):
        if not isinstance(items, tuple):
            items = (items,)
        vals: List[Any] = []
        kinds = set()
        for it in items:
            if isinstance(it, STensor):
                vals.extend(it.reshape([-1]).flat())
                kinds.add(it.dtype.name)
            elif isinstance(it, (list, tuple, Size)):
                vals.extend(it)
                kinds.add("int64")
            else:
                vals.append(int(it) if isinstance(it, UIntP) else it)
                kinds.add("uint64" if isinstance(it, UIntP) else ("int64" if isinstance(it, int) else "float64"))
        if kinds <= {"int64"}:
            d = dt("int64")
        elif kinds <= {"uint64"}:
            d = dt("uint64")
        else:
            d = dt("float64")  # int64 with uint64 (or any float) promotes to float64
        return STensor.from_flat(vals, [len(vals)], d)


# ndarray-flavoured methods on STensor (numpy spelling)
INT_RANGE = {"uint8": (0, 2 ** 8 - 1), "int8": (-2 ** 7, 2 ** 7 - 1), "uint16": (0, 2 ** 16 - 1), "int16": (-2 ** 15, 2 ** 15 - 1),
             "uint32": (0, 2 ** 32 - 1), "int32": (-2 ** 31, 2 ** 31 - 1), "uint64": (0, 2 ** 64 - 1), "int64": (-2 ** 63, 2 ** 63 - 1)}


def _st_astype(self, dtype, **k):
    d = as_dtype(dtype)
    if d.name == self.dtype.name:
        if _f_contiguous(self):  # the copy keeps the memory layout (order='K')
            rev = list(reversed(range(self.ndim)))
            packed = self.permute(rev)
            return STensor(list(packed.flat()), list(range(packed.numel())), list(packed.shape), self.dtype).permute(rev)
        return self.clone()
    if d.name in INT_RANGE and self.dtype.name in INT_RANGE:
        (lo_s, hi_s), (lo_d, hi_d) = INT_RANGE[self.dtype.name], INT_RANGE[d.name]
        if lo_s < lo_d or hi_s > hi_d:
            # the target integer type cannot hold every value of the source type: symbolic voxels (which range over the whole source
            # type) wrap around; constants are converted when they fit
            vals = []
            for v in self.flat():
                v = to_rat(v)
                if v.is_const() and lo_d <= v.const_value() <= hi_d:
                    vals.append(v)
                else:
                    vals.append(symt.sfunc(f"wrap_{d.name}", v))
            return STensor.from_flat(vals, list(self.shape), d)
    if not d.is_floating_point and d.name != "bool" and self.dtype.is_floating_point:
        vals = []
        for v in self.flat():
            v = to_rat(v)
            if symt.FACTS.is_integral(v):
                vals.append(v)
            elif v.is_const():
                vals.append(Rat.of(int(v.const_value())))
            else:
                vals.append(symt.sfunc("trunc", v))  # opaque: the fractional part is lost
        return STensor.from_flat(vals, list(self.shape), d)
    out = self.type(d)
    if out is self:
        out = self.clone()
    if _f_contiguous(self):
        # numpy's astype keeps the memory layout (order='K'): a Fortran-contiguous array stays Fortran-contiguous
        rev = list(reversed(range(self.ndim)))
        packed = out.permute(rev)
        packed = STensor(list(packed.flat()), list(range(packed.numel())), list(packed.shape), d)
        return packed.permute(rev)
    return STensor(list(out.flat()), list(range(out.numel())), list(out.shape), d)


def _f_contiguous(t) -> bool:
    """numpy's F_CONTIGUOUS and not C_CONTIGUOUS: the reversed-axes view is densely packed (e.g. ``a.T`` of a packed array)."""
    if t.ndim < 2 or t.is_contiguous():
        return False
    return t.permute(list(reversed(range(t.ndim)))).is_contiguous()


def _st_tobytes(self, order="C"):
    # numpy: 'C' (default) logical row-major order whatever the memory layout; 'F' column-major; 'A' = 'F' iff the array is Fortran
    # contiguous (and not C contiguous), else 'C'
    if order == "F" or (order in ("A", "K") and _f_contiguous(self)):
        return Blob(list(self.permute(list(reversed(range(self.ndim)))).flat()), self.dtype)
    return Blob(list(self.flat()), self.dtype)


def _st_byteswap(self, inplace=False):
    raise Unsupported("byteswap")


def _st_copy(self, *a, **k):
    return self.clone()


def _st_numpy(self):
    return self


def install_numpy_methods() -> None:
    STensor.astype = _st_astype
    STensor.tobytes = _st_tobytes
    STensor.byteswap = _st_byteswap
    STensor.copy = _st_copy
    STensor.numpy = _st_numpy
    STensor.swapaxes = lambda self, i, j: self.transpose(i, j)
    STensor.ravel = lambda self: self.reshape([-1])
    _orig_transpose = STensor.transpose
    if not getattr(_orig_transpose, "_np", False):
        def transpose(self, *axes):
            if len(axes) == 0:
                return self.permute(list(reversed(range(self.ndim))))
            if len(axes) == 1 and isinstance(axes[0], (tuple, list)):
                return self.permute([int(v) for v in axes[0]])
            if len(axes) == 2:
                return _orig_transpose(self, axes[0], axes[1])
            return self.permute([int(v) for v in axes])
        transpose._np = True
        STensor.transpose = transpose
    _orig_reshape = STensor.reshape
    if not getattr(_orig_reshape, "_np", False):
        def reshape(self, *shape):
            if len(shape) == 1 and isinstance(shape[0], STensor):
                return np_reshape(self, shape[0])
            return _orig_reshape(self, *shape)
        reshape._np = True
        STensor.reshape = reshape


# ------------------------------------------------------------------------------------------------ virtual file system, StorageObject
VFS: Dict[str, Any] = {}


class HStorage(HostObject):
    def __init__(self, path):
        self.path = str(path)

    def read_bytes(self):
        if self.path not in VFS:
            raise InterpError("FileNotFoundError", self.path)
        v = VFS[self.path]
        if not isinstance(v, FileBytes):
            raise Unsupported("read_bytes of a file written by another library model")
        return v

    def write_bytes(self, blob):
        if not isinstance(blob, FileBytes):
            raise InterpError("TypeError", "write_bytes() expects bytes")
        VFS[self.path] = blob
        return self

    def pull(self, force=False):
        return self

    def push(self, force=False):
        return self

    def is_file(self):
        return self.path in VFS

    def exists(self):
        return self.path in VFS


# ------------------------------------------------------------------------------------------------ SimpleITK
SITK_PIXEL = {"uint8": "sitkUInt8", "int8": "sitkInt8", "uint16": "sitkUInt16", "int16": "sitkInt16", "uint32": "sitkUInt32",
              "int32": "sitkInt32", "uint64": "sitkUInt64", "int64": "sitkInt64", "float32": "sitkFloat32", "float64": "sitkFloat64"}
SITK_PIXEL_REV = {v: k for k, v in SITK_PIXEL.items()}


class PixelID(HostObject):
    def __init__(self, name: str):
        self.name = name

    def __eq__(self, o):
        return isinstance(o, PixelID) and o.name == self.name

    def __hash__(self):
        return hash(self.name)


class SitkImage(HostObject):
    """SimpleITK.Image: array layout (z, y, x[, c]); size/origin/spacing/direction in (x, y, z) order, direction row-major."""

    def __init__(self, array: STensor, is_vector: bool):
        self.array = array
        self.is_vector = bool(is_vector)
        D = array.ndim - (1 if is_vector else 0)
        if D not in (2, 3, 4):
            raise InterpError("RuntimeError", f"SimpleITK images must be 2- to 4-dimensional, got {D}")
        self.D = D
        self.origin = [Fraction(0)] * D
        self.spacing = [Fraction(1)] * D
        self.direction = [Fraction(1 if i == j else 0) for i in range(D) for j in range(D)]

    def _vec(self, v, n, what):
        if isinstance(v, STensor):
            v = v.reshape([-1]).tolist()
        v = list(v)
        if len(v) != n:
            raise InterpError("RuntimeError", f"Set{what}: expected {n} values, got {len(v)}")
        return v

    def SetOrigin(self, v): self.origin = self._vec(v, self.D, "Origin")
    def SetSpacing(self, v): self.spacing = self._vec(v, self.D, "Spacing")
    def SetDirection(self, v): self.direction = self._vec(v, self.D * self.D, "Direction")
    def GetOrigin(self): return tuple(self.origin)
    def GetSpacing(self): return tuple(self.spacing)
    def GetDirection(self): return tuple(self.direction)
    def GetDimension(self): return self.D

    def GetSize(self):
        shp = list(self.array.shape[:self.D])
        return tuple(reversed(shp))

    def GetNumberOfComponentsPerPixel(self):
        return int(self.array.shape[-1]) if self.is_vector else 1

    def GetPixelID(self):
        return PixelID(SITK_PIXEL[self.array.dtype.name])

    def copy(self):
        c = SitkImage(self.array.clone(), self.is_vector)
        c.origin, c.spacing, c.direction = list(self.origin), list(self.spacing), list(self.direction)
        return c


def sitk_from_array(arr, isVector=None):
    arr = _arr(arr)
    if arr.dtype.name not in SITK_PIXEL:
        raise InterpError("TypeError", f"dtype {arr.dtype.name} is not supported by SimpleITK")
    if isVector is None:
        isVector = False
    return SitkImage(arr.clone(), bool(isVector))


def sitk_to_array(image):
    return image.array.clone()


def sitk_cast(image, pid):
    c = image.copy()
    c.array = image.array.astype(dt(SITK_PIXEL_REV[pid.name]))
    return c


def _suffix(path) -> str:
    p = str(path).lower()
    for ext in (".nii.gz", ".nii", ".mha", ".mhd"):
        if p.endswith(ext):
            return ext
    return ""


def sitk_write(image, path, compress=False, *a, **k):
    if not isinstance(image, SitkImage):
        raise InterpError("TypeError", "WriteImage expects an Image")
    ext = _suffix(path)
    if ext == ".mha":
        VFS[str(path)] = metaimage_spec_write(image, bool(compress))
    elif ext in (".nii", ".nii.gz"):
        VFS[str(path)] = nifti_spec_write(image)
    else:
        VFS[str(path)] = image.copy()


def sitk_read(path, *a, **k):
    v = VFS.get(str(path))
    if v is None:
        raise InterpError("RuntimeError", f"file {path} does not exist")
    if isinstance(v, SitkImage):
        return v.copy()
    if isinstance(v, FileBytes):
        return metaimage_spec_read(v)
    if isinstance(v, NiftiImage):
        return nifti_spec_read(v)
    raise Unsupported("SimpleITK reading a file written by another library model")


class SitkReader(HostObject):
    def __init__(self):
        self.image = None
        self.path = None

    def SetFileName(self, p): self.path = str(p)
    def ReadImageInformation(self): self.image = sitk_read(self.path)
    def GetSize(self): return self.image.GetSize()
    def GetOrigin(self): return self.image.GetOrigin()
    def GetSpacing(self): return self.image.GetSpacing()
    def GetDirection(self): return self.image.GetDirection()


# ------------------------------------------------------------------------------------------------ MetaImage per the MetaIO specification
METAIO_TYPES = {  # https://itk.org/Wiki/ITK/MetaIO/Documentation (MET_ValueEnumType): name -> C type
    "MET_CHAR": "int8", "MET_UCHAR": "uint8", "MET_SHORT": "int16", "MET_USHORT": "uint16", "MET_INT": "int32", "MET_UINT": "uint32",
    "MET_LONG": "int64", "MET_ULONG": "uint64", "MET_LONG_LONG": "int64", "MET_ULONG_LONG": "uint64", "MET_FLOAT": "float32",
    "MET_DOUBLE": "float64",
}


def metaimage_spec_read(fb: FileBytes) -> SitkImage:
    """What ITK's MetaImageIO reads from the file: header per the MetaIO tag reference, data in C order (x fastest, channels innermost).

    TransformMatrix lists, for each image axis, its direction cosines (i.e. ITK's direction matrix column by column)."""
    hdr: Dict[str, str] = {}
    order: List[str] = []
    data_chunks = []
    in_data = False
    for c in fb.chunks:
        if in_data or not isinstance(c, bytes):
            in_data = True
            data_chunks.append(c)
            continue
        for line in c.decode("ascii").splitlines():
            if "=" not in line:
                continue
            k, v = line.split("=", 1)
            hdr[k.strip()] = v.strip()
            order.append(k.strip())
            if k.strip() == "ElementDataFile":
                in_data = True
    for need in ("ObjectType", "NDims", "DimSize", "ElementType", "ElementDataFile"):
        if need not in hdr:
            raise InterpError("RuntimeError", f"MetaImage header lacks {need}")
    if order[-1] != "ElementDataFile":
        raise InterpError("RuntimeError", "ElementDataFile must be the last header tag")
    if hdr["ElementDataFile"].upper() != "LOCAL":
        raise Unsupported("non-local MetaImage data")
    nd = int(hdr["NDims"])
    size = [int(x) for x in hdr["DimSize"].split()]
    if len(size) != nd:
        raise InterpError("RuntimeError", "DimSize does not have NDims entries")
    if hdr["ElementType"].upper() not in METAIO_TYPES:
        raise InterpError("RuntimeError", f"unknown ElementType {hdr['ElementType']}")
    d = dt(METAIO_TYPES[hdr["ElementType"].upper()])
    nch = int(hdr.get("ElementNumberOfChannels", "1"))
    if len(data_chunks) != 1:
        raise InterpError("RuntimeError", "MetaImage data block missing")
    blob = data_chunks[0]
    compressed = hdr.get("CompressedData", "False").upper() == "TRUE"
    if compressed:
        if not isinstance(blob, Compressed):
            raise InterpError("RuntimeError", "CompressedData = True but data is not a zlib stream")
        if "CompressedDataSize" in hdr and int(hdr["CompressedDataSize"]) != len(blob):
            raise InterpError("RuntimeError", "CompressedDataSize does not match")
        blob = blob.blob
    if not isinstance(blob, Blob):
        raise InterpError("RuntimeError", "data is compressed but CompressedData is not True")
    if hdr.get("BinaryDataByteOrderMSB", hdr.get("ElementByteOrderMSB", "False")).upper() == "TRUE":
        raise Unsupported("big-endian MetaImage")
    isz = NP_TYPES[d.name][1]
    n = nch
    for s in size:
        n *= s
    if blob.nbytes != n * isz:
        raise InterpError("RuntimeError", f"MetaImage data has {blob.nbytes} bytes, header implies {n * isz}")
    if blob.dtype.name == d.name:
        vals = list(blob.values)
    else:
        vals = [Rat.atom(f"reinterpret_{blob.dtype.name}_as_{d.name}_{i}") for i in range(n)]
    shape = list(reversed(size)) + ([nch] if nch > 1 else [])
    im = SitkImage(STensor.from_flat(vals, shape, d), nch > 1)

    def nums(key, alts, count, default):
        for k in (key,) + alts:
            if k in hdr:
                v = [str_to_number(t) for t in hdr[k].split()]
                if len(v) != count:
                    raise InterpError("RuntimeError", f"{k} must have {count} values")
                return v
        return default
    im.origin = nums("Offset", ("Position", "Origin"), nd, im.origin)
    im.spacing = nums("ElementSpacing", (), nd, im.spacing)
    tm = nums("TransformMatrix", ("Rotation", "Orientation"), nd * nd, None)
    if tm is not None:
        # row i of the header matrix = direction cosines of image axis i = column i of the direction matrix
        im.direction = [tm[j * nd + i] for i in range(nd) for j in range(nd)]
    return im


def metaimage_spec_write(image: SitkImage, compress: bool) -> FileBytes:
    """What ITK's MetaImageIO writes."""
    nd = image.D
    rev = {v: k for k, v in METAIO_TYPES.items() if "LONG_LONG" not in k}
    lines = ["ObjectType = Image", f"NDims = {nd}", "BinaryData = True", "BinaryDataByteOrderMSB = False",
             f"CompressedData = {'True' if compress else 'False'}"]
    tm = [image.direction[j * nd + i] for i in range(nd) for j in range(nd)]
    lines.append("TransformMatrix = " + " ".join(number_to_str(v) for v in tm))
    lines.append("Offset = " + " ".join(number_to_str(v) for v in image.origin))
    lines.append("CenterOfRotation = " + " ".join("0" for _ in range(nd)))
    lines.append("AnatomicalOrientation = " + ("RAI" if nd == 3 else "RA"))
    lines.append("ElementSpacing = " + " ".join(number_to_str(v) for v in image.spacing))
    lines.append("DimSize = " + " ".join(str(v) for v in image.GetSize()))
    if image.is_vector:
        lines.append(f"ElementNumberOfChannels = {image.GetNumberOfComponentsPerPixel()}")
    lines.append("ElementType = " + rev[image.array.dtype.name])
    blob: Any = Blob(list(image.array.flat()), image.array.dtype)
    if compress:
        blob = Compressed(blob, 2)
        lines.insert(5, f"CompressedDataSize = {len(blob)}")
    lines.append("ElementDataFile = LOCAL")
    return FileBytes([(ln + "\n").encode("ascii") for ln in lines] + [blob])


# ------------------------------------------------------------------------------------------------ nibabel
class NiftiHeader(HostObject):
    def __init__(self, fields: Dict[str, Any]):
        self.fields = fields

    def __getitem__(self, k):
        return self.fields[k]


class NiftiDataobj(HostObject):
    def __init__(self, arr: STensor):
        self.arr = arr
        self.slope = Fraction(1)
        self.inter = Fraction(0)
        self.shape = arr.shape

    def get_unscaled(self):
        return self.arr.clone()


class NiftiImage(HostObject):
    def __init__(self, dataobj, affine, header=None, **k):
        arr = _arr(dataobj)
        aff = _arr(affine)
        if list(aff.shape) != [4, 4]:
            raise InterpError("ValueError", "Affine should be shape 4,4")
        if arr.ndim > 7:
            raise InterpError("HeaderDataError", "too many dimensions")
        if arr.dtype.name in ("int64", "uint64", "bool"):
            raise InterpError("HeaderDataError", f"data dtype \"{arr.dtype.name}\" not supported")
        self.dataobj = NiftiDataobj(arr.clone())
        self.affine = aff.clone().astype(dt("float64"))
        # NIfTI-1 images have at least three dimensions: nibabel pads the stored shape with ones (observed: a (4, 5) array is
        # stored with dim = [3, 4, 5, 1, ...] and loaded as (4, 5, 1))
        self.stored_shape = [int(s) for s in arr.shape] + [1] * max(0, 3 - arr.ndim)
        dim = [len(self.stored_shape)] + self.stored_shape + [1] * (7 - len(self.stored_shape))
        # zooms = column norms of the 3x3 part (set_qform / set_sform), further dims 1
        zooms = []
        for j in range(3):
            sq = to_rat(0)
            for i in range(3):
                v = to_rat(self.affine[i, j].item())
                sq = sq + v * v
            zooms.append(symt.sfunc("sqrt", sq))
        pixdim = [Fraction(1)] + zooms + [Fraction(1)] * 4
        self.header = NiftiHeader({
            "dim": STensor.from_flat(dim, [8], dt("int16")),
            "pixdim": STensor.from_flat(pixdim, [8], dt("float32")),
            "intent_code": 0,
        })
        self.shape = arr.shape

    def get_fdata(self):
        return self.dataobj.arr.astype(dt("float64"))


def nib_save(img, path):
    if not isinstance(img, NiftiImage):
        raise InterpError("TypeError", "nibabel.save expects an image")
    VFS[str(path)] = img


def nib_load(path, **k):
    v = VFS.get(str(path))
    if v is None:
        raise InterpError("FileNotFoundError", str(path))
    if not isinstance(v, NiftiImage):
        raise Unsupported("nibabel loading a file written by another library model")
    out = NiftiImage(v.dataobj.arr.reshape(v.stored_shape), v.affine)
    out.header = v.header
    return out


class _Module(HostObject):
    """Truthy stand-in for an imported third-party module object (``if nib is None`` checks)."""


# ------------------------------------------------------------------------------------------------ registration
def install() -> None:
    install_numpy_methods()
    tae.NUMPY_SIZE_ATTR = True
    F = tae._EXTERNAL_FUNCS
    V = tae._EXTERNAL_VALUES
    for name, (d, _) in NP_TYPES.items():
        V[f"numpy.{name}"] = d
    V["numpy.uintp"] = External_uintp
    V["numpy.r_"] = _RClass()
    F.update({
        "numpy.array": np_array, "numpy.asarray": np_asarray, "numpy.asanyarray": np_asarray, "numpy.expand_dims": np_expand_dims,
        "numpy.squeeze": np_squeeze, "numpy.swapaxes": np_swapaxes, "numpy.transpose": np_transpose, "numpy.reshape": np_reshape,
        "numpy.ravel": np_ravel, "numpy.ones": np_ones, "numpy.zeros": np_zeros, "numpy.eye": np_eye, "numpy.prod": np_prod,
        "numpy.ndim": np_ndim, "numpy.divide": np_divide, "numpy.abs": np_abs, "numpy.dtype": np_dtype, "numpy.issubdtype": np_issubdtype,
        "numpy.diag": np_diag, "numpy.matmul": np_matmul, "numpy.copy": np_copy, "numpy.round": np_round, "numpy.around": np_round,
        "numpy.arange": np_arange, "numpy.meshgrid": np_meshgrid, "numpy.stack": np_stack, "numpy.concatenate": np_concatenate,
        "numpy.flip": np_flip,
        "numpy.uintp": np_uintp, "numpy.frombuffer": np_frombuffer, "numpy.iinfo": _IInfo,
        "io.BytesIO": HBytesIO, "zlib.compress": zlib_compress, "zlib.decompress": zlib_decompress,
        "torch.from_numpy": lambda a: a,
        "SimpleITK.GetImageFromArray": sitk_from_array, "SimpleITK.GetArrayFromImage": sitk_to_array, "SimpleITK.Cast": sitk_cast,
        "SimpleITK.WriteImage": sitk_write, "SimpleITK.ReadImage": sitk_read, "SimpleITK.ImageFileReader": SitkReader,
        "nibabel.Nifti1Image": NiftiImage, "nibabel.save": nib_save, "nibabel.load": nib_load,
    })
    for k, v in SITK_PIXEL.items():
        V[f"SimpleITK.{v}"] = PixelID(v)
    V["sys.float_info"] = _FloatInfo()


class _FloatInfo(HostObject):
    epsilon = Fraction(1, 2 ** 52)


def External_uintp(x):
    return np_uintp(x)


def enable() -> None:
    """Switch the interpreter into the I/O-model mode (text headers print numbers, file objects are host models)."""
    install()
    tae.STR_HOOK = number_to_str
    tae.FORMAT_HOOK = number_to_str_spec
    tae.EXTERNAL_ISINSTANCE["BufferedReader"] = lambda v: isinstance(v, HBytesIO)
    tae.EXTERNAL_ISINSTANCE["BytesIO"] = lambda v: isinstance(v, HBytesIO)
    VFS.clear()
    TOKENS.clear()


# ------------------------------------------------------------------------------------------------ ITK's NIfTI conventions (reference)
def _lps_ras_affine(image: "SitkImage") -> STensor:
    """4x4 RAS index-to-world matrix ITK stores for an LPS image: rows 0 and 1 of [R diag(s) | o] negated; unused axes identity."""
    D = image.D
    rows = [[Fraction(1) if i == j else Fraction(0) for j in range(4)] for i in range(4)]
    for i in range(D):
        for j in range(D):
            rows[i][j] = to_rat(image.direction[i * D + j]) * to_rat(image.spacing[j])
        rows[i][3] = to_rat(image.origin[i])
    for i in range(2):
        rows[i] = [-to_rat(v) for v in rows[i]]
    return STensor.from_nested(rows)


def nifti_spec_write(image: "SitkImage") -> "NiftiImage":
    """What ITK's NiftiImageIO writes (as nibabel presents it after loading): scalar images with dim[0] = D; vector images with
    dim = [5, x, y, z|1, 1, C] and intent_code 1007 (NIFTI_INTENT_VECTOR); pixdim = spacing; sform as above."""
    D = image.D
    if D > 3:
        raise Unsupported("ITK NIfTI writer model: more than 3 dimensions")
    size = list(image.GetSize())
    C = image.GetNumberOfComponentsPerPixel()
    if image.is_vector:
        stored = size + [1] * (3 - D) + [1, C]
        arr = image.array.permute(list(reversed(range(D))) + [D]).reshape(stored)
        intent = 1007
    else:
        stored = size
        arr = image.array.permute(list(reversed(range(D))))
        intent = 0
    out = NiftiImage.__new__(NiftiImage)
    out.dataobj = NiftiDataobj(arr.clone())
    out.affine = _lps_ras_affine(image)
    out.stored_shape = stored
    dim = [len(stored)] + stored + [1] * (7 - len(stored))
    pixdim = [Fraction(1)] + [to_rat(v) for v in image.spacing] + [Fraction(1)] * (7 - D)
    out.header = NiftiHeader({"dim": STensor.from_flat(dim, [8], dt("int16")), "pixdim": STensor.from_flat(pixdim, [8], dt("float32")),
                              "intent_code": intent})
    out.shape = arr.shape
    return out


def nifti_spec_read(img: "NiftiImage") -> "SitkImage":
    """What ITK's NiftiImageIO reads: image dimension dim[0] (a 4-th dimension is a 4-D image, not channels) unless the intent is
    NIFTI_INTENT_VECTOR with the components in dim[5]; geometry from the sform, converted RAS -> LPS."""
    dim = [int(symt.simplify(v)) for v in img.header["dim"].tolist()]
    nd = dim[0]
    intent = int(img.header["intent_code"])
    if not (intent == 1007 and nd == 5 and dim[5] > 1):
        while nd > 3 and dim[nd] == 1:  # trailing singleton dimensions above the third are dropped (itkNiftiImageIO.cxx)
            nd -= 1
    arr = img.dataobj.arr.reshape(dim[1:nd + 1])
    if intent == 1007 and nd == 5 and dim[5] > 1:
        D = 3 if dim[3] > 1 else 2
        a = arr.reshape(dim[1:D + 1] + [dim[5]])
        im = SitkImage(a.permute(list(reversed(range(D))) + [D]).clone(), True)
    else:
        D = nd
        im = SitkImage(arr.permute(list(reversed(range(D)))).clone(), False)
    pix = img.header["pixdim"].tolist()
    Dg = min(D, 3)
    A = img.affine
    sp = [to_rat(pix[1 + j]) for j in range(Dg)]
    direction = [[Fraction(1) if i == j else Fraction(0) for j in range(D)] for i in range(D)]
    origin = [Fraction(0)] * D
    for i in range(Dg):
        sgn = -1 if i < 2 else 1
        for j in range(Dg):
            direction[i][j] = to_rat(A[i, j].item()) * sgn / sp[j]
        origin[i] = to_rat(A[i, 3].item()) * sgn
    im.spacing = sp + [Fraction(1)] * (D - Dg)
    im.origin = origin
    im.direction = [v for row in direction for v in row]
    return im
