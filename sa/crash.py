"""E4: certain-crash lint.

Only constructs that raise for *every* input reaching them, decidable from syntax plus a uniquely resolved callee.
"""
from __future__ import annotations

import ast
from typing import Dict, Iterable, List, Optional, Set

from .core import Ctx
from .index import ClassInfo, FunctionInfo, ModuleInfo, dotted, walk_no_nested
from .types import TENSOR

_SAFE_DECOS = {"staticmethod", "classmethod", "property", "abstractmethod", "torch.no_grad", "no_grad",
               "torch.jit.export", "overload"}


def _plain_signature(fi: FunctionInfo) -> bool:
    for d in fi.decorators:
        if d not in _SAFE_DECOS:
            return False
    return True


def _class_ctor(ctx: Ctx, ci: ClassInfo) -> Optional[FunctionInfo]:
    prog = ctx.prog
    for c in prog.mro(ci):
        if "__new__" in c.methods:
            return None
        if any(d in ("dataclass", "dataclasses.dataclass") for d in
               [dotted(x.func) if isinstance(x, ast.Call) else dotted(x) for x in c.node.decorator_list]):
            return None
        if c.node.keywords:  # metaclass etc.
            return None
    ext = prog.all_external_bases(ci)
    if any(e.split(".")[-1] in ("NamedTuple", "Enum", "IntEnum", "TypedDict", "Tensor", "Protocol") for e in ext):
        return None
    return prog.find_method(ci, "__init__")


def check_calls(ctx: Ctx, fis: Iterable[FunctionInfo], rule: str = "E4.signature") -> None:
    """Unknown keyword / too many positionals / missing required argument against a uniquely resolved repo callee."""
    ctx.rule(rule, "a call whose callee resolves to exactly one repo function without *args/**kwargs must bind: no unknown "
                   "keyword, not more positionals than parameters, no required parameter left unbound (TypeError otherwise)")
    ti = ctx.ti
    for fi in fis:
        ctx.fn(fi)
        env = ti.env(fi)
        for call in walk_no_nested(fi.node):
            if not isinstance(call, ast.Call):
                continue
            callees = ti.resolve_call(fi, call, env)
            if not callees or len(callees) != 1:
                continue
            callee = callees[0]
            drop_self = False
            if isinstance(callee, ClassInfo):
                init = _class_ctor(ctx, callee)
                if init is None:
                    continue
                callee_f = init
                drop_self = True
            else:
                callee_f = callee
                if callee_f.cls is not None and not callee_f.is_static:
                    # bound call unless called through the class object on an instance method
                    drop_self = True
                    if isinstance(call.func, ast.Attribute):
                        bt = ti.infer(fi, call.func.value, env)
                        if any(isinstance(t, tuple) and t[0] == "type" for t in bt) and not callee_f.is_classmethod:
                            drop_self = False
                    if callee_f.is_property:
                        continue
            if not _plain_signature(callee_f):
                continue
            a = callee_f.node.args
            pos = [p.arg for p in a.posonlyargs + a.args]
            if drop_self:
                if not pos:
                    continue
                pos = pos[1:]
            kwonly = [p.arg for p in a.kwonlyargs]
            has_star = any(isinstance(x, ast.Starred) for x in call.args)
            has_dstar = any(k.arg is None for k in call.keywords)
            name = f"{callee_f.qualname}"
            inst = f"{fi.key}->{callee_f.key}@{_call_ordinal(fi, call)}"
            ok = True
            # unknown keywords
            if a.kwarg is None:
                for k in call.keywords:
                    if k.arg is not None and k.arg not in pos and k.arg not in kwonly:
                        ok = False
                        ctx.report(rule, fi, f"callee={name} unknown_keyword={k.arg}",
                                   f"call passes keyword '{k.arg}' which {callee_f.key} does not accept (TypeError on every call)",
                                   call)
            # too many positionals
            if a.vararg is None and not has_star:
                if len(call.args) > len(pos):
                    ok = False
                    ctx.report(rule, fi, f"callee={name} too_many_positionals={len(call.args)}",
                               f"call passes {len(call.args)} positional arguments, {callee_f.key} takes {len(pos)}", call)
            # missing required
            if not has_star and not has_dstar:
                ndef = len(a.defaults)
                allpos = a.posonlyargs + a.args
                req = [p.arg for p in allpos[: len(allpos) - ndef]]
                if drop_self:
                    req = req[1:]
                req_kw = [p.arg for p, d in zip(a.kwonlyargs, a.kw_defaults) if d is None]
                given_kw = {k.arg for k in call.keywords}
                for i, r in enumerate(req):
                    if i < len(call.args) or r in given_kw:
                        continue
                    ok = False
                    ctx.report(rule, fi, f"callee={name} missing={r}",
                               f"required parameter '{r}' of {callee_f.key} is not bound", call)
                for r in req_kw:
                    if r not in given_kw:
                        ok = False
                        ctx.report(rule, fi, f"callee={name} missing={r}",
                                   f"required keyword-only parameter '{r}' of {callee_f.key} is not bound", call)
            ctx.ob(rule, inst, ok, None)


def _call_ordinal(fi: FunctionInfo, call: ast.Call) -> int:
    i = 0
    for n in ast.walk(fi.node):
        if isinstance(n, ast.Call):
            if n is call:
                return i
            i += 1
    return -1


_TUPLE_RETURNING = {"re.subn", "divmod", "os.path.split", "os.path.splitext", "math.modf", "math.frexp"}
_STR_ONLY_ATTRS = {"replace", "upper", "lower", "strip", "split", "startswith", "endswith", "format", "join", "encode"}


def check_misc(ctx: Ctx, fis: Iterable[FunctionInfo]) -> None:
    r1 = "E4.call-of-noncallable"
    r2 = "E4.dict-positionals"
    r3 = "E4.tuple-attr"
    r4 = "E4.self-recursion"
    r5 = "E4.belief"
    ctx.rule(r1, "the callee expression of a call is an arithmetic expression or a constant (calls a number: TypeError)")
    ctx.rule(r2, "dict() takes at most one positional argument")
    ctx.rule(r3, "a str-only attribute is used on the tuple returned by re.subn & co.")
    ctx.rule(r4, "a function whose first statement unconditionally calls itself recurses forever")
    ctx.rule(r5, "stated-belief contradiction: a guard compares len(x) with an int literal while its own error message "
                 "names a variable as the expected length")
    ti = ctx.ti
    for fi in fis:
        ctx.fn(fi)
        n_calls = 0
        for n in walk_no_nested(fi.node):
            if isinstance(n, ast.Call):
                n_calls += 1
                f = n.func
                if isinstance(f, (ast.BinOp, ast.Constant, ast.UnaryOp, ast.Compare)) and not (
                        isinstance(f, ast.Constant) and isinstance(f.value, str)):
                    ctx.report(r1, fi, f"callee_expr={ast.unparse(f)}",
                               "call of an arithmetic expression / constant: missing operator? (TypeError on every call)", n)
                d = dotted(f)
                if d == "dict" and len([a for a in n.args if not isinstance(a, ast.Starred)]) >= 2:
                    ctx.report(r2, fi, f"dict_positionals={len(n.args)}",
                               "dict() called with more than one positional argument (TypeError on every call)", n)
            if isinstance(n, ast.Attribute) and isinstance(n.value, ast.Call):
                d = dotted(n.value.func)
                if d in _TUPLE_RETURNING and n.attr in _STR_ONLY_ATTRS:
                    ctx.report(r3, fi, f"call={d} attr={n.attr}",
                               f"{d}() returns a tuple; '.{n.attr}' raises AttributeError on every call", n)
            if isinstance(n, ast.If):
                _belief(ctx, fi, n, r5)
        ctx.ob(r1, fi.key, True, None, nontrivial=n_calls > 0)
        # self recursion
        body = [s for s in fi.node.body if not (isinstance(s, ast.Expr) and isinstance(s.value, ast.Constant))]
        if body and isinstance(body[0], (ast.Return, ast.Expr)) and body[0].value is not None:
            for c in _unconditional_calls(body[0].value):
                r = ti.resolve_call(fi, c)
                if r and len(r) == 1 and r[0] == fi:
                    # receiver must be self (same dynamic type at least as specific)
                    ctx.report(r4, fi, f"callee={fi.qualname}",
                               "first statement unconditionally calls the function itself: infinite recursion on every call", c)
            ctx.ob(r4, fi.key, True, None, nontrivial=False)


def _unconditional_calls(e: ast.expr):
    """Calls evaluated on every evaluation of ``e`` (not under IfExp/BoolOp short-circuit/lambda/comprehension)."""
    if isinstance(e, ast.Call):
        yield e
        yield from _unconditional_calls(e.func)
        for a in e.args:
            yield from _unconditional_calls(a.value if isinstance(a, ast.Starred) else a)
        for k in e.keywords:
            yield from _unconditional_calls(k.value)
    elif isinstance(e, ast.Attribute):
        yield from _unconditional_calls(e.value)
    elif isinstance(e, ast.BinOp):
        yield from _unconditional_calls(e.left)
        yield from _unconditional_calls(e.right)
    elif isinstance(e, ast.UnaryOp):
        yield from _unconditional_calls(e.operand)
    elif isinstance(e, ast.BoolOp):
        yield from _unconditional_calls(e.values[0])
    elif isinstance(e, ast.IfExp):
        yield from _unconditional_calls(e.test)
    elif isinstance(e, (ast.Tuple, ast.List)):
        for x in e.elts:
            yield from _unconditional_calls(x)
    elif isinstance(e, ast.Subscript):
        yield from _unconditional_calls(e.value)


def _belief(ctx: Ctx, fi: FunctionInfo, node: ast.If, rule: str) -> None:
    t = node.test
    if not (isinstance(t, ast.Compare) and len(t.ops) == 1 and isinstance(t.ops[0], ast.NotEq)):
        return
    l, r = t.left, t.comparators[0]
    if not (isinstance(l, ast.Call) and dotted(l.func) == "len" and isinstance(r, ast.Constant) and isinstance(r.value, int)):
        return
    # body raises with an f-string naming "length {var}" / "{var}"
    if not (node.body and isinstance(node.body[0], ast.Raise) and node.body[0].exc is not None):
        return
    names: Set[str] = set()
    for j in ast.walk(node.body[0].exc):
        if isinstance(j, ast.FormattedValue):
            for nm in ast.walk(j.value):
                if isinstance(nm, ast.Name):
                    names.add(nm.id)
    subject = {nm.id for nm in ast.walk(l) if isinstance(nm, ast.Name)} - {"len"}
    expected = (names - subject) & set(ctx.ti.env(fi))
    ctx.ob(rule, f"{fi.key}:{ast.unparse(t)}", not expected, None)
    if expected:
        ctx.report(rule, fi, f"guard={ast.unparse(t)} message_names={','.join(sorted(expected))}",
                   f"guard compares with literal {r.value} while the error message states the expected length is "
                   f"{'/'.join(sorted(expected))}: rejects every valid input whose {'/'.join(sorted(expected))} != {r.value}",
                   node)


def check_module_init_order(ctx: Ctx, classes: Iterable[ClassInfo]) -> None:
    """nn.Module subclass __init__: instance state read (directly or through a self-method) before super().__init__()."""
    rule = "E4.use-before-init"
    ctx.rule(rule, "in an nn.Module subclass __init__, no instance attribute that is only ever stored by __init__ code after "
                   "Module.__init__ may be read (directly or via a self-method) before super().__init__() "
                   "(Module.__getattr__ raises AttributeError)")
    prog = ctx.prog
    for ci in classes:
        if not prog.is_module_class(ci):
            continue
        init = ci.methods.get("__init__")
        if init is None:
            continue
        ctx.fn(init)
        selfname = init.pos_params[0]
        inst_attrs = _instance_attrs(ctx, ci)
        # linear scan of top-level statements until the super().__init__ call
        before: List[ast.stmt] = []
        found = False
        for st in init.node.body:
            if any(_is_super_init(c) for c in ast.walk(st) if isinstance(c, ast.Call)):
                found = True
                break
            before.append(st)
        if not found:
            ctx.ob(rule, ci.key, True, None, nontrivial=False)
            continue
        bad = False
        for st in before:
            for n in ast.walk(st):
                if isinstance(n, ast.Attribute) and isinstance(n.value, ast.Name) and n.value.id == selfname \
                        and isinstance(n.ctx, ast.Load):
                    m = prog.find_method(ci, n.attr)
                    if m is not None:
                        reads = _method_reads(ctx, ci, m, depth=3)
                        hit = sorted(reads & inst_attrs)
                        if hit and not m.is_static and not m.is_classmethod:
                            bad = True
                            ctx.report(rule, init, f"method={n.attr} reads={hit[0]}",
                                       f"self.{n.attr}() is used before super().__init__() but reads instance attribute "
                                       f"'{hit[0]}' that does not exist yet (AttributeError on every such call)", n)
                    elif n.attr in inst_attrs:
                        bad = True
                        ctx.report(rule, init, f"attr={n.attr}",
                                   f"self.{n.attr} read before super().__init__()", n)
        ctx.ob(rule, ci.key, not bad, None)


def _is_super_init(c: ast.Call) -> bool:
    f = c.func
    return (isinstance(f, ast.Attribute) and f.attr == "__init__" and isinstance(f.value, ast.Call)
            and isinstance(f.value.func, ast.Name) and f.value.func.id == "super")


def _instance_attrs(ctx: Ctx, ci: ClassInfo) -> Set[str]:
    out: Set[str] = set()
    for c in ctx.prog.mro(ci):
        for m in c.methods.values():
            if m.is_static or m.is_classmethod or not m.pos_params:
                continue
            s = m.pos_params[0]
            for n in walk_no_nested(m.node):
                if isinstance(n, ast.Attribute) and isinstance(n.ctx, ast.Store) and isinstance(n.value, ast.Name) \
                        and n.value.id == s:
                    out.add(n.attr)
    # class-level attributes and properties are always present
    for c in ctx.prog.mro(ci):
        out -= set(c.class_attrs)
        out -= {n for n, m in c.methods.items() if m.is_property}
    return out


def _method_reads(ctx: Ctx, ci: ClassInfo, m: FunctionInfo, depth: int, seen: Optional[Set[str]] = None) -> Set[str]:
    seen = seen or set()
    if m.key in seen or depth < 0 or not m.pos_params or m.is_static:
        return set()
    seen.add(m.key)
    s = m.pos_params[0]
    out: Set[str] = set()
    # only reads that happen unconditionally at the top of the method are *certain*; be conservative: top-level
    # statements up to the first branching statement
    for st in m.node.body:
        if isinstance(st, (ast.If, ast.Try, ast.While)):
            # the test itself is evaluated unconditionally
            test = getattr(st, "test", None)
            nodes = list(ast.walk(test)) if test is not None else []
            for n in nodes:
                out |= _attr_read(ctx, ci, n, s, depth, seen)
            break
        if isinstance(st, ast.For):
            for n in ast.walk(st.iter):
                out |= _attr_read(ctx, ci, n, s, depth, seen)
            break
        for n in ast.walk(st):
            out |= _attr_read(ctx, ci, n, s, depth, seen)
        if isinstance(st, (ast.Return, ast.Raise)):
            break
    return out


def _attr_read(ctx, ci, n, s, depth, seen) -> Set[str]:
    if isinstance(n, ast.Attribute) and isinstance(n.value, ast.Name) and n.value.id == s and isinstance(n.ctx, ast.Load):
        m2 = ctx.prog.find_method(ci, n.attr)
        if m2 is not None:
            if m2.is_property or True:
                return _method_reads(ctx, ci, m2, depth - 1, seen)
        return {n.attr}
    return set()


def run_all(ctx: Ctx, modules: Iterable[str], only=None) -> None:
    prog = ctx.prog
    fis: List[FunctionInfo] = []
    classes: List[ClassInfo] = []
    for m in modules:
        mi = prog.module(m)
        for fi in mi.functions.values():
            if not (fi.overloads and fi.node in fi.overloads):
                fis.append(fi)
        for ci in mi.classes.values():
            classes.append(ci)
            for fi in ci.methods.values():
                if not (fi.overloads and fi.node in fi.overloads):
                    fis.append(fi)
    if only is not None:
        fis = [f for f in fis if only(f)]
        classes = [c for c in classes if any(only(m) for m in c.methods.values())]
    check_calls(ctx, fis)
    check_misc(ctx, fis)
    check_module_init_order(ctx, classes)
