"""Static analysis machinery for deepali (see /verif/DESIGN.md)."""
