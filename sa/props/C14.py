"""C14 — cubic B-splines."""
from ..core import Ctx
from ..tables import t3_bspline
from .common import e4


def run(ctx: Ctx) -> None:
    e4(ctx, ["deepali.core.kernels", "deepali.core.bspline"])
    t3_bspline.run_tables(ctx)
    t3_bspline.run_evaluate(ctx)
    t3_bspline.run_kernels_nd(ctx)
    t3_bspline.run_weights_dtype(ctx)
    t3_bspline.run_ffd_shape(ctx)
    ctx.floor("T3.ffd-shape", 8)
    ctx.floor("T3.dtype", 6)
    ctx.floor("T3.kernels", 19)
    ctx.floor("T3.weights", 25)
    ctx.floor("T3.value", 12)
    ctx.floor("T3.evaluate", 10)
    ctx.floor("T3.subdivide", 6)
    from ..tables import t6_transforms
    t6_transforms.run_regrid(ctx, bspline=True, dense=False)  # refining a free-form deformation's image grid keeps the function
    ctx.floor("T6x.regrid", 2)
    # the spline models serve the spline of their *current* coefficients (predicted / linked / replaced), shared with C09
    t6_transforms.run_histories(ctx, max_len=2, only_classes=("FreeFormDeformation", "StationaryVelocityFreeFormDeformation"),
                                only_kinds=("callable",))
    ctx.floor("T6x.call-fresh", 2)
    from ..tables import t5_derivs
    with ctx.only("T5.bspline"):  # derivative modes return the analytic spline derivatives (anisotropic spacing, strides, order 1 and 2)
        t5_derivs.run_derivatives(ctx)
    ctx.floor("T5.bspline", 4)


def mutants(prog):
    from .common import source_sub
    B, S = "deepali.core.bspline", "deepali.spatial.bspline"
    W = "cubic_bspline_interpolation_weights"
    specs = [
        ('single weight table applied to the first axis only', 'deepali.core.bspline', 'evaluate_cubic_bspline', 'kernel = [kernel] * D', 'kernel = [kernel]', 'T3.evaluate'),
        ("weight 1/6", B, W, "kernel[:, 3] = offset.pow(3).mul_(1 / 6)", "kernel[:, 3] = offset.pow(3).mul_(1 / 3)", "T3.weights"),
        ("weight column", B, W, "kernel[:, 2] = offset.add(kernel[:, 0]).sub_(kernel[:, 3].mul(2))", "kernel[:, 2] = offset.add(kernel[:, 0]).sub_(kernel[:, 3])", "T3."),
        ("first derivative", B, W, "kernel[:, 0] = offset.sub(kernel[:, 3]).sub_(0.5)", "kernel[:, 0] = offset.sub(kernel[:, 3]).add_(0.5)", "T3."),
        ("second derivative columns", B, W, "kernel[:, 2] = -offset.mul(3).sub_(1)\n            kernel[:, 1] = offset.mul(3).sub_(2)", "kernel[:, 1] = -offset.mul(3).sub_(1)\n            kernel[:, 2] = offset.mul(3).sub_(2)", "T3."),
        ("third derivative sign", B, W, "kernel[:, 2] = -3\n            kernel[:, 1] = 3", "kernel[:, 2] = 3\n            kernel[:, 1] = -3", "T3."),
        ("offset grid", B, W, "offset = torch.arange(0, 1, 1 / s,", "offset = torch.arange(1 / s, 1 + 1 / s, 1 / s,", "T3."),
        ("control grid size", B, "cubic_bspline_control_point_grid_size", "n = m.div(s, rounding_mode='floor').add_(3)", "n = m.div(s, rounding_mode='floor').add_(2)", "T3."),
        ("control grid size remainder", B, "cubic_bspline_control_point_grid_size", "n = n.where(m % s == 0, n.add(1))", "n = n.where(m % s != 0, n.add(1))", "T3."),
        ("control grid origin", B, "cubic_bspline_control_point_grid", "origin=grid.index_to_world(-s)", "origin=grid.index_to_world(s)", "T3."),
        ("control grid spacing", B, "cubic_bspline_control_point_grid", "spacing=grid.spacing().mul(s)", "spacing=grid.spacing()", "T3."),
        ("subdivision mask", B, "subdivide_cubic_bspline", "torch.tensor([0.125, 0.75, 0.125]", "torch.tensor([0.25, 0.5, 0.25]", "T3.subdivide"),
        ("subdivision interleave", B, "subdivide_cubic_bspline", "indices[dim] = slice(1, shape[dim], 2)\n        temp[indices] = conv1d(output, kernel_2, dim=dim, padding=0)", "indices[dim] = slice(1, shape[dim], 2)\n        temp[indices] = conv1d(output, kernel_2.flip(0) * 0 + kernel_1[:2] * 4, dim=dim, padding=0)", "T3.subdivide"),
        ("evaluate: crop offset", B, "evaluate_cubic_bspline", "output = output[(slice(0, N), slice(0, C)) + tuple((slice(0, n) for n in shape))]", "output = output[(slice(0, N), slice(0, C)) + tuple((slice(1, n + 1) for n in shape))]", "T3.evaluate"),
        ("evaluate: interleave order", B, "evaluate_cubic_bspline", "output = output.transpose(2, 3).flatten(2, 3)", "output = output.flatten(2, 3)", "T3.evaluate"),
        ("ffd refine crop", S, "BSplineTransform.grid_", "new_params = new_params.narrow(dim, 1, new_shape[dim])", "new_params = new_params.narrow(dim, 0, new_shape[dim])", "T6x.regrid"),
        ("bspline derivative: spacing power dropped", "deepali.core.image", "spatial_derivatives", "denom.mul_(delta.pow(d))", "denom.mul_(delta)", "T5.bspline"),
        ("subdivide: falsy dims treated as None", B, "subdivide_cubic_bspline", "if dims is None:", "if not dims:", "T3.subdivide"),
        ("ffd update: spline evaluated before the parameters are refreshed", S, "FreeFormDeformation.update", "super().update()\n    u = self.evaluate_spline()\n    self.register_buffer('u', u, persistent=False)\n    return self", "u = self.evaluate_spline()\n    self.register_buffer('u', u, persistent=False)\n    return super().update()", "T6x."),
        ("conv1d: transposed convolution with mirrored weights", "deepali.core.image", "conv1d", "weight = kernel.expand(groups, 1, kernel.shape[-1])", "weight = (kernel.flip(-1) if transpose else kernel).expand(groups, 1, kernel.shape[-1])", "T3.evaluate"),
        ("evaluate: transposed path refuses derivatives only when given as an int", B, "evaluate_cubic_bspline", "isinstance(derivative, int) and derivative != 0 or (isinstance(derivative, Sequence) and any((order != 0 for order in derivative)))", "isinstance(derivative, int) and derivative != 0", "T3.evaluate"),
        ("2-D kernel allocated in stride order", "deepali.core.kernels", "cubic_bspline2d", "(4 * stride_ - 1).flip(0).tolist()", "(4 * stride_ - 1).tolist()", "T3.kernels"),
        ("3-D kernel: x and z strides swapped", "deepali.core.kernels", "cubic_bspline3d", "w_k = cubic_bspline_value((k - radius[2]) / stride[2], derivative=derivative)", "w_k = cubic_bspline_value((k - radius[2]) / stride[0], derivative=derivative)", "T3.kernels"),
        ("generic kernel front end drops the derivative (2-D)", "deepali.core.kernels", "cubic_bspline", "return cubic_bspline2d(stride_, derivative=derivative, dtype=dtype, device=device)", "return cubic_bspline2d(stride_, dtype=dtype, device=device)", "T3.kernels"),
        ("ffd data_shape: strides in (x, y) order against a shape in tensor order", S, "BSplineTransform.data_shape", "U.cubic_bspline_control_point_grid_size(grid.shape, self.data_stride)", "U.cubic_bspline_control_point_grid_size(grid.shape, self.stride)", "T3.ffd-shape"),
        ("weights: offsets in the default float type", B, W, "offset = torch.arange(0, 1, 1 / s, dtype=kernel.dtype, device=kernel.device)", "offset = torch.arange(s, device=kernel.device).div(s)", "T3.dtype"),
    ]
    for name, mod, fn, old, new, expect in specs:
        ov = source_sub(prog, mod, fn, old, new)
        yield (name if ov is not None else name + " [spec does not apply]", ov, expect)
