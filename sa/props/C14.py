"""C14 — cubic B-splines."""
from ..core import Ctx
from ..tables import t3_bspline
from .common import e4


def run(ctx: Ctx) -> None:
    e4(ctx, ["deepali.core.kernels", "deepali.core.bspline"])
    t3_bspline.run_tables(ctx)
    t3_bspline.run_evaluate(ctx)
    ctx.floor("T3.weights", 25)
    ctx.floor("T3.value", 12)
    ctx.floor("T3.evaluate", 10)
    ctx.floor("T3.subdivide", 6)
    from ..tables import t6_transforms
    t6_transforms.run_regrid(ctx, bspline=True, dense=False)  # refining a free-form deformation's image grid keeps the function
    ctx.floor("T6x.regrid", 2)
