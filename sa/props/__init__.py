"""Per-property rule sets: ``run(ctx)`` and optionally ``mutants(prog)``."""
