"""C13 — composition of flows and velocity fields obeys its algebra."""
from ..core import Ctx
from ..tables import t4_compose


def run(ctx: Ctx) -> None:
    t4_compose.run_bch(ctx)
    t4_compose.run_compose(ctx)
    t4_compose.run_compose_dtype(ctx)
    ctx.floor("T4.dtype", 8)
    ctx.floor("T4.bch", 7)
    ctx.floor("T4.compose", 4)
    ctx.floor("T4.logv-convention", 4)
    from ..tables import t11_expv
    with ctx.only("T11x.expv"):  # logv iterates on expv(v, steps=exp_steps, inverse=True): every steps / scale / inverse combination (shared with C11)
        t11_expv.run_expv(ctx)
    ctx.floor("T11x.expv", 50)
    from ..tables import t5_derivs
    # the Lie bracket is built from Jacobians: precision of float64 fields and spacing scaling in every derivative mode (shared with C12)
    with ctx.only("T5.dtype"):
        t5_derivs.run_dtype(ctx)
    with ctx.only("T5.jacobian"):  # the bracket J_v u - J_u v on linear fields, for every documented form of the spacing argument (shared with C12)
        t5_derivs.run_derivatives(ctx)
    ctx.floor("T5.jacobian", 6)
    with ctx.only("T5.first-order"):  # ... in every derivative mode the bracket can be asked for (prewitt / sobel averaging must be normalised)
        t5_derivs.run_derivatives(ctx)
    ctx.floor("T5.first-order", 12)
    t5_derivs.run_gaussian_spacing(ctx)
    ctx.floor("T5.dtype", 8)
    ctx.floor("T5.gaussian-spacing", 2)


def mutants(prog):
    from .common import source_sub
    Fm = "deepali.core.flow"
    specs = [
        ('compose_flows: identity coordinates in float32, cast up', 'deepali.core.flow', 'compose_flows', 'x = grid.coords(channels_last=False, dtype=u.dtype, device=u.device)', 'x = grid.coords(channels_last=False).to(u)', 'T4.dtype'),
        ("bch 1/2", Fm, "compose_svfs", "w = w.add(vu.mul(0.5))", "w = w.sub(vu.mul(0.5))", "T4.bch"),
        ("bch 1/12 coefficient", Fm, "compose_svfs", "w = w.add(vvu.mul(1 / 12))", "w = w.add(vvu.mul(1 / 6))", "T4.bch"),
        ("bch third sign", Fm, "compose_svfs", "w = w.sub(uvu.mul(1 / 12))", "w = w.add(uvu.mul(1 / 12))", "T4.bch"),
        ("bch bracket operands", Fm, "compose_svfs", "vu = lb(v, u)", "vu = lb(u, v)", "T4.bch"),
        ("bch nesting", Fm, "compose_svfs", "uvu = lb(u, vu)", "uvu = lb(v, vu)", "T4.bch"),
        ("bch merged term", Fm, "compose_svfs", "(1 if bch_terms == 4 else 2) / 48", "1 / 48", "T4.bch"),
        ("bch drops option", Fm, "compose_svfs", "return lie_bracket(a, b, mode=mode, sigma=sigma, spacing=spacing, stride=stride)", "return lie_bracket(a, b, mode=mode, sigma=sigma, stride=stride)", "T4.bch"),
        ("compose convention grid", Fm, "compose_flows", "Grid(shape=u.shape[2:], align_corners=align_corners)", "Grid(shape=u.shape[2:])", "T4.compose"),
        ("compose convention sample", Fm, "compose_flows", "padding_mode='border', align_corners=align_corners)", "padding_mode='border', align_corners=True)", "T4.compose"),
        ("compose samples u", Fm, "compose_flows", "v = F.grid_sample(v, x,", "v = F.grid_sample(u, x,", "T4.compose"),
        ("compose drops u", Fm, "compose_flows", "return u.add(v)", "return v", "T4.compose"),
        ("logv compose default", Fm, "logv", "u = compose_flows(flow, u, align_corners=align_corners)", "u = compose_flows(flow, u)", "T4.logv-convention"),
        ("logv expv default", Fm, "logv", "padding=padding, align_corners=align_corners, inverse=True)", "padding=padding, inverse=True)", "T4.logv-convention"),
        ("logv: composes with the running field instead of the given flow", Fm, "logv", "u = compose_flows(flow, u, align_corners=align_corners)", "u = compose_flows(v, u, align_corners=align_corners)", "T4.logv-iteration"),
        ("finite differences: float32 step size", "deepali.core.image", "spatial_derivatives", "if not data.is_floating_point():\n        data = data.float()", "data = data.float()", "T5.dtype"),
        ("gaussian derivatives: spacing of the last axis", "deepali.core.image", "spatial_derivatives", "denom = spacing.narrow(1, sdim, 1)", "denom = spacing.narrow(1, D - 1, 1)", "T5.gaussian-spacing"),
        ("jacobian: a spacing sequence is read in tensor-axis order", Fm, "jacobian_dict", "kwargs = dict(mode=mode, sigma=sigma, spacing=spacing, stride=stride)", "kwargs = dict(mode=mode, sigma=sigma, spacing=tuple(reversed(spacing)) if isinstance(spacing, (tuple, list)) else spacing, stride=stride)", "T5.jacobian"),
        ("sobel / prewitt averaging kernel not normalised", "deepali.core.image", "spatial_derivatives", "avg_kernel /= avg_kernel.sum()", "avg_kernel.div(avg_kernel.sum())", "T5.first-order"),
        ("compose_flows: identity coordinates updated in place", Fm, "compose_flows", "x.unsqueeze(0).add(u)", "x.unsqueeze(0).add_(u)", "T4.compose"),
    ]
    for name, mod, fn, old, new, expect in specs:
        ov = source_sub(prog, mod, fn, old, new)
        yield (name if ov is not None else name + " [spec does not apply]", ov, expect)
