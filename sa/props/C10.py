"""C10 — flow fields mean the same displacement in every vector representation."""
from ..core import Ctx
from ..tables import t10_flow


def run(ctx: Ctx) -> None:
    t10_flow.run_flow(ctx)
    t10_flow.run_normalize(ctx)
    t10_flow.run_default_axes(ctx)
    t10_flow.run_single_field(ctx)
    ctx.floor("T10x.single-field", 8)
    ctx.floor("T10x.default-axes", 4)
    # converting vectors between two grids in one step (grid_transform_vectors with axes != to_axes) is the grid's own two-grid map
    from ..tables import t1_grid
    with ctx.only("T1.two-grids"):
        t1_grid.run_grid_tables(ctx)
    ctx.floor("T1.two-grids", 64)
    # observation point "FlowField.sitk() / write (world axes)": files and SimpleITK images hold world vectors, and read / from_sitk label them so
    from ..tables import t18_io
    with ctx.only("T18.flow-api"):
        t18_io.run_entry_points(ctx)
    ctx.floor("T18.flow-api", 8)
    # resampling a field on another grid reads it at the target grid's sample positions, whatever the two grids' conventions are
    # (FlowFields.sample runs through ImageBatch.sample; its positions are decided by T13.sample, shared with C04)
    from ..tables import t13_lockstep
    with ctx.only("T13.sample"):
        t13_lockstep.run_lockstep(ctx)
    ctx.floor("T13.sample", 6)
    ctx.floor("T10x.axes", 8)
    ctx.floor("T10x.exp", 8)
    ctx.floor("T10x.warp", 8)
    ctx.floor("T10x.sample", 8)
    ctx.floor("T10x.normalize", 8)


def mutants(prog):
    from .common import source_sub
    D, G = "deepali.data.flow", "deepali.core.grid"
    specs = [
        ("axes roles swapped", D, "FlowFields.axes", "axes=self._axes, to_axes=axes", "axes=axes, to_axes=self._axes", "T10x.axes"),
        ("axes label", D, "FlowFields.axes", "return self._make_instance(data, self._grid, axes)", "return self._make_instance(data, self._grid, self._axes)", "T10x.axes"),
        ("axes first grid only", D, "FlowFields.axes", "for i, grid in enumerate(self._grid)", "for i, grid in enumerate(self._grid[:1] * len(self._grid))", "T10x.axes"),
        ("exp unconverted", D, "FlowFields.exp", "data = flow.tensor()", "data = self.tensor()", "T10x.exp"),
        ("exp no back conversion", D, "FlowFields.exp", "flow = flow.axes(axes)", "flow = flow", "T10x.exp"),
        ("exp flag", D, "FlowFields.exp", "padding=padding, align_corners=align_corners)", "padding=padding)", "T10x.exp"),
        ("exp drops steps", D, "FlowFields.exp", "steps=steps, ", "", "T10x.exp"),
        ("warp unconverted", D, "FlowFields.warp_image", "flow = self.axes(Axes.from_align_corners(align_corners))", "flow = self", "T10x.warp"),
        ("warp coords convention", D, "FlowFields.warp_image", "g.coords(align_corners=align_corners, device=self.device)", "g.coords(device=self.device)", "T10x.warp"),
        ("warp flag", D, "FlowFields.warp_image", "padding=padding, align_corners=align_corners)", "padding=padding)", "T10x.warp"),
        ("sample no rescale", D, "FlowFields.sample", "if axes != Axes.WORLD:", "if False:", "T10x.sample"),
        ("sample roles", D, "FlowFields.sample", "grid_transform_vectors(v, grid, axes, to_grid, axes)", "grid_transform_vectors(v, to_grid, axes, grid, axes)", "T10x.sample"),
        ("normalize size-1", "deepali.core.flow", "normalize_flow", "size_ = size.sub(1) if align_corners else size", "size_ = size if align_corners else size.sub(1)", "T10x.normalize"),
        ("denormalize factor", "deepali.core.flow", "denormalize_flow", "size_ = size.sub(1) if align_corners else size", "size_ = size", "T10x.normalize"),
        ("transform_vectors cube scale", G, "Grid.transform_vectors", "scales = self.size_tensor() / 2", "scales = (self.size_tensor() - 1) / 2", "T10x."),
        ("transform: internal float size", G, "Grid.transform", "half_size = 0.5 * self.size_tensor()", "half_size = 0.5 * self._size", "fractional-size"),
        ("flow sample: GRID vectors not re-expressed", D, "FlowFields.sample", "if axes != Axes.WORLD:", "if axes in (Axes.CUBE, Axes.CUBE_CORNERS):", "T10x.sample"),
        ("FlowField: default axes from the library-wide flag", D, "FlowField.__init__", "axes = Axes.from_grid(self._grid)", "axes = Axes.from_arg(None)", "T10x.default-axes"),
        ("two grids: target axes taken from the source side", G, "Grid.transform", "world_to_source = to_grid.transform(Axes.WORLD, to_axes, vectors=vectors)", "world_to_source = to_grid.transform(Axes.WORLD, axes, vectors=vectors)", "T1.two-grids"),
        ("FlowField.read: default axes not world", D, "FlowField.read", "axes=axes or Axes.WORLD", "axes=axes", "T18.flow-api"),
    ]
    for name, mod, fn, old, new, expect in specs:
        ov = source_sub(prog, mod, fn, old, new)
        yield (name if ov is not None else name + " [spec does not apply]", ov, expect)
