"""C11 — scaling and squaring."""
from ..core import Ctx
from ..tables import t11_expv
from .common import e4


def run(ctx: Ctx) -> None:
    t11_expv.run_expv(ctx)
    t11_expv.run_expflow(ctx)
    ctx.floor("T11x.expv", 50)
    ctx.floor("T11x.expflow", 12)
    ctx.floor("T11x.dtype", 8)
    t11_expv.run_svf_steps(ctx)
    from ..tables import t6_transforms
    with ctx.only("T6x.regrid"):  # after re-gridding, the exponential map integrates in the convention of the grid the transform holds (shared with C09)
        t6_transforms.run_regrid(ctx, bspline=False, dense=True)
    ctx.floor("T6x.regrid", 6)
    ctx.floor("T11x.svf-steps", 8)
    from ..tables import t67_transforms
    with ctx.only("T67.inverse-velocity"), ctx.parallel():  # the inverse clause at the SVF transforms' displacement buffers
        t67_transforms.run_inverse(ctx)
    ctx.floor("T67.inverse-velocity", 30)
    # the object-oriented route FlowFields.exp / FlowField.exp: vectors converted to cube units for expv and back to the caller's axes (shared with C10)
    from ..tables import t10_flow
    with ctx.only("T10x.exp"):
        t10_flow.run_flow(ctx)
    ctx.floor("T10x.exp", 8)
    e4(ctx, ["deepali.modules.flow"], only=lambda fi: fi.qualname.startswith("ExpFlow"))


def mutants(prog):
    from .common import source_sub
    F, M = "deepali.core.flow", "deepali.modules.flow"
    specs = [
        ("2*steps", F, "expv", "scale / 2 ** steps", "scale / (2 * steps)", "T11x.expv"),
        ("range steps-1", F, "expv", "for _ in range(steps):", "for _ in range(steps - 1):", "T11x.expv"),
        ("inverse ignored", F, "expv", "if inverse:\n        scale = -scale", "if inverse:\n        scale = scale", "T11x.expv"),
        ("steps0 unscaled", F, "expv", "flow = flow.mul(scale)", "flow = flow", "T11x.expv"),
        ("grid convention", F, "expv", "Grid(shape=flow.shape[2:], align_corners=align_corners)", "Grid(shape=flow.shape[2:])", "T11x.expv"),
        ("warp convention", F, "expv", "padding=padding, align_corners=align_corners)", "padding=padding)", "T11x.expv"),
        ("stale field", F, "expv", "flow=move_dim(disp, 1, -1)", "flow=move_dim(flow, 1, -1)", "T11x.expv"),
        ("no accumulation", F, "expv", "disp = disp + warp_image(disp,", "disp = warp_image(disp,", "T11x.expv"),
        ("grid_sample drops flag", "deepali.core.image", "grid_sample", "padding_mode=padding_mode, align_corners=align_corners)", "padding_mode=padding_mode)", "T11x.expv"),
        ("warp adds flow twice", F, "warp_image", "grid = grid + flow", "grid = grid + flow + flow", "T11x.expv"),
        ("ExpFlow double negation", M, "ExpFlow.forward", "align_corners=self.align_corners)", "align_corners=self.align_corners, inverse=inverse)", "T11x.expflow"),
        ("ExpFlow drops steps", M, "ExpFlow.forward", "steps=self.steps, ", "", "T11x.expflow"),
        ("ExpFlow drops align", M, "ExpFlow.forward", ", align_corners=self.align_corners)", ")", "T11x.expflow"),
        ("ExpFlow inverse mutates self", M, "ExpFlow.inverse", "copy = shallow_copy(self)", "copy = self", "T11x.expflow"),
        ("ExpFlow inverse keeps sign", M, "ExpFlow.inverse", "copy.scale *= -1", "copy.scale *= 1", "T11x.expflow"),
        ("expv: sampling grid in default precision", F, "expv", "grid.coords(dtype=flow.dtype, device=device)", "grid.coords(device=device)", "T11x.dtype"),
        ("svf inverse: forward exponential", "deepali.spatial.nonrigid", "StationaryVelocityFieldTransform.inverse", "u = inv.exp(v)", "u = self.exp(v)", "T67.inverse-velocity"),
        ("tensor(): de-duplicated buffer lookup", "deepali.spatial.base", "NonRigidTransform.tensor", "if u is None or 'u' not in self._buffers:", "if u is None or 'u' not in {name for name, _ in self.named_buffers()}:", "T11x.svf-steps"),
        ("FlowFields.exp: result left in cube units", "deepali.data.flow", "FlowFields.exp", "flow = flow.axes(axes)", "flow = self._make_instance(flow.tensor(), flow._grid, axes)", "T10x.exp"),
    ]
    for name, mod, fn, old, new, expect in specs:
        ov = source_sub(prog, mod, fn, old, new)
        yield (name if ov is not None else name + " [spec does not apply]", ov, expect)
