"""C17 — deformation regularisers."""
from ..core import Ctx
from .. import siblings as S
from .common import e4, classes_of


def run(ctx: Ctx) -> None:
    cls = classes_of(ctx, "deepali.losses.flow") + classes_of(ctx, "deepali.losses.bspline")
    S.wrapper_forward(ctx, cls)
    S.ctor_forward(ctx, cls)
    ctx.floor("E7.wrapper-forward", 40)
    from .C16 import FLOW_FUNCS
    e4(ctx, ["deepali.losses.functional", "deepali.losses.flow", "deepali.losses.bspline"],
       only=lambda fi: fi.module.name != "deepali.losses.functional" or fi.qualname.split(".")[0] in FLOW_FUNCS)
