"""C17 — deformation regularisers."""
from ..core import Ctx
from .. import siblings as S
from .common import e4, classes_of


def run(ctx: Ctx) -> None:
    cls = classes_of(ctx, "deepali.losses.flow") + classes_of(ctx, "deepali.losses.bspline")
    S.wrapper_forward(ctx, cls)
    S.ctor_forward(ctx, cls)
    ctx.floor("E7.wrapper-forward", 40)
    from ..tables import t17_regularisers
    t17_regularisers.run_regularisers(ctx)
    t17_regularisers.run_bspline_bending(ctx)
    ctx.floor("T17.bspline-bending", 6)
    t17_regularisers.run_lame(ctx)
    t17_regularisers.run_inverse_consistency(ctx)
    t17_regularisers.run_module_values(ctx)
    ctx.floor("T17.module-values", 1)
    ctx.floor("T17.values", 2)
    ctx.floor("T10.lame", 8)
    ctx.floor("T17.inverse-consistency", 4)
    # the inverse leg of inverse_consistency_loss evaluates a dense field at arbitrary points (transform_points -> warp_points -> sample_flow):
    # points beyond the outermost samples get the border value, so that an exact inverse pair (e.g. two constant fields) has zero error
    # up to the boundary (shared with C06)
    from ..tables import t67_transforms
    with ctx.only("T67.point-vs-grid"):
        t67_transforms.run_point_vs_grid_route(ctx)
    ctx.floor("T67.point-vs-grid", 2)
    from ..tables import t5_derivs
    # the regularisers are sums over spatial_derivatives: per-image spacing rows and the spline derivative mode (shared with C12)
    with ctx.only("T5.batch-spacing"):
        t5_derivs.run_derivatives(ctx)
    with ctx.only("T5.bspline"):
        t5_derivs.run_derivatives(ctx)
    ctx.floor("T5.batch-spacing", 2)
    from .C16 import FLOW_FUNCS
    e4(ctx, ["deepali.losses.functional", "deepali.losses.flow", "deepali.losses.bspline"],
       only=lambda fi: fi.module.name != "deepali.losses.functional" or fi.qualname.split(".")[0] in FLOW_FUNCS)


def mutants(prog):
    from .common import source_sub
    L = "deepali.losses.functional"
    specs = [
        ("bending mixed weight", L, "bending_loss", "value = value.mul_(2)", "value = value.mul_(1)", "T17.values"),
        ("curvature half", L, "curvature_loss", "return loss.mul_(0.5)", "return loss.mul_(0.25)", "T17.values"),
        ("diffusion half", L, "diffusion_loss", "return loss.mul_(0.5)", "return loss", "T17.values"),
        ("divergence half", L, "divergence_loss", "return loss.mul_(0.5)", "return loss.mul_(2)", "T17.values"),
        ("elasticity lambda", L, "elasticity_loss", "loss = loss.square_().mul_(lambd / 2)", "loss = loss.square_().mul_(lambd)", "T17.values"),
        ("elasticity mu", L, "elasticity_loss", "mul_(mu / 4)", "mul_(mu / 2)", "T17.values"),
        ("elasticity symmetric part", L, "elasticity_loss", "dkj = deriv[FlowDerivativeKeys.symbol(k, j)]", "dkj = deriv[FlowDerivativeKeys.symbol(j, k)]", "T17.values"),
        ("tv norm", L, "total_variation_loss", "grad_loss(u, p=1, q=1,", "grad_loss(u, p=2, q=1,", "T17.values"),
        ("default spacing order", L, "grad_loss", "spacing = tuple(reversed([2 / (n - 1) for n in u.shape[2:]]))", "spacing = tuple([2 / (n - 1) for n in u.shape[2:]])", "default spacing"),
        ("default spacing n", L, "grad_loss", "2 / (n - 1)", "2 / n", "default spacing"),
        ("lame nu E", L, "lame_parameters", "second_parameter = youngs_modulus / (2 * (1 + poissons_ratio))", "second_parameter = youngs_modulus / (2 * (1 - poissons_ratio))", "T10.lame"),
        ("lame mu nu", L, "lame_parameters", "first_parameter = 2 * shear_modulus * poissons_ratio / (1 - 2 * poissons_ratio)", "first_parameter = shear_modulus * poissons_ratio / (1 - 2 * poissons_ratio)", "T10.lame"),
        ("lame mu E", L, "lame_parameters", "(3 * shear_modulus - youngs_modulus)", "(3 * shear_modulus + youngs_modulus)", "T10.lame"),
        ("lame lambda nu", L, "lame_parameters", "first_parameter * (1 - 2 * poissons_ratio) / (2 * poissons_ratio)", "first_parameter * (1 - 2 * poissons_ratio) / poissons_ratio", "T10.lame"),
        ("lame lambda E parentheses", L, "lame_parameters", "second_parameter = (youngs_modulus - 3 * first_parameter + r) / 4", "second_parameter = youngs_modulus - 3 * first_parameter + r / 4", "T10.lame"),
        ("ic units convention", L, "inverse_consistency_loss", "align_corners=grid.align_corners(), channels_last=True", "channels_last=True", "T17.inverse-consistency"),
        ("ic world spacing", L, "inverse_consistency_loss", "error *= grid.spacing().to(error)", "error *= 1", "T17.inverse-consistency"),
        ("ic forward convention", L, "inverse_consistency_loss", "y = transform_points(inverse, y, align_corners=grid.align_corners())", "y = transform_points(forward, y, align_corners=grid.align_corners())", "T17.inverse-consistency"),
        ("grad_loss: power after reduction", L, "grad_loss", "if q == 0:\n        loss.abs_()\n    elif q != 1:\n        loss.pow_(q)\n    loss = reduce_loss(loss, reduction)", "loss = reduce_loss(loss, reduction)\n    if q == 0:\n        loss.abs_()\n    elif q != 1:\n        loss.pow_(q)", "T17.nullspace"),
        ("fd spacing of the first item", "deepali.core.image", "spatial_derivatives", "fd_spacing = spacing[:, sdim]", "fd_spacing = spacing[0, sdim]", "T5.batch-spacing"),
        ("GradLoss: q=0 conflated with None", "deepali.losses.flow", "GradLoss.__init__", "self.q = 1 / p if q is None else q", "self.q = q or 1 / p", "T17.module-values"),
        ("elasticity: shear term skipped when lambda is zero", L, "elasticity_loss", "if mu != 0:", "if mu != 0 and lambd != 0:", "T17.values"),
        ("bspline_bending_loss evaluates finite differences", L, "bspline_bending_loss", "mode='bspline', stride", "mode='central', stride", "T17.bspline-bending"),
        ("BSplineBending evaluates finite differences", "deepali.losses.bspline", "BSplineBending.forward", "mode='bspline', stride", "mode='central', stride", "T17.bspline-bending"),
        ("bending: mixed terms weighted once (spline route)", L, "bending_loss", "value = value.mul_(2)", "value = value.mul_(1)", "T17.bspline-bending"),
        ("elasticity: trace term skipped when mu is zero", L, "elasticity_loss", "if lambd != 0:", "if lambd != 0 and mu != 0:", "T17.values"),
    ]
    for name, mod, fn, old, new, expect in specs:
        ov = source_sub(prog, mod, fn, old, new)
        yield (name if ov is not None else name + " [spec does not apply]", ov, expect)
