"""C04 — image operations move voxel data and sampling grid in lock-step."""
import ast

from ..core import Ctx
from .. import siblings as S
from .common import e4, methods_of

# tensor-level op (core.image) <-> grid-level op (Grid method) families
FAMILY = {
    "grid_resize": {"resize"}, "grid_resample": {"resample"}, "downsample": {"downsample"}, "upsample": {"upsample"},
    "crop": {"crop"}, "pad": {"pad"}, "center_crop": {"center_crop"}, "center_pad": {"center_pad"},
    "region_of_interest": {"region_of_interest"}, "avg_pool": {"avg_pool"}, "conv": {"crop"},
}
# ImageBatch.pyramid builds its finest-level grids first and resizes/samples the data onto them: the pairing there is
# by construction (data is sampled *on* the computed grid), not an op family.
PAIR_EXEMPT = {"pyramid"}


def run(ctx: Ctx) -> None:
    prog = ctx.prog
    ib = prog.cls("deepali.data.image", "ImageBatch")
    img = prog.cls("deepali.data.image", "Image")
    ff = prog.cls("deepali.data.flow", "FlowFields")
    f1 = prog.cls("deepali.data.flow", "FlowField")
    ctx.rule("E7.pair", "in each ImageBatch spatial method the tensor operation (core.image) and the Grid operation receive the same "
                        "expression for every option name they share (align_corners, dims, min_size, levels, margin, num, size, "
                        "kernel_size, stride, padding, ceil_mode, start)")
    ctx.rule("E7.pair.family", "the tensor operation is paired with the matching Grid operation (resize<->resize, crop<->crop, pad<->pad, ...)")
    n_pairs = 0
    for name, m in ib.methods.items():
        if m.overloads and m.node in m.overloads:
            continue
        if name in PAIR_EXEMPT:
            continue
        a, b = S.pair_calls(ctx, m, lambda g: g.module.name == "deepali.core.image" and g.cls is None,
                            lambda g: g.cls is not None and g.cls.name == "Grid" and g.name not in ("spacing", "size", "align_corners", "coords"),
                            "E7.pair", ignore={"data", "mode", "value"}, family=FAMILY)
        if a and b:
            n_pairs += 1
    ctx.require(n_pairs >= 11, f"only {n_pairs} ImageBatch methods pair a tensor op with a Grid op (expected >= 11)")
    # Image.* / FlowField.* delegates forward all parameters
    S.delegate_forward(ctx, methods_of(img) + methods_of(f1))
    ctx.floor("E7.delegate-forward", 60)
    e4(ctx, ["deepali.core.image", "deepali.data.image", "deepali.data.flow"])
