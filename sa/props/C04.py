"""C04 — image operations move voxel data and sampling grid in lock-step."""
import ast

from ..core import Ctx
from .. import siblings as S
from .common import e4, methods_of

# tensor-level op (core.image) <-> grid-level op (Grid method) families
FAMILY = {
    "grid_resize": {"resize"}, "grid_resample": {"resample"}, "downsample": {"downsample"}, "upsample": {"upsample"},
    "crop": {"crop"}, "pad": {"pad"}, "center_crop": {"center_crop"}, "center_pad": {"center_pad"},
    "region_of_interest": {"region_of_interest"}, "avg_pool": {"avg_pool"}, "conv": {"crop"},
}
# ImageBatch.pyramid builds its finest-level grids first and resizes/samples the data onto them: the pairing there is
# by construction (data is sampled *on* the computed grid), not an op family.
PAIR_EXEMPT = {"pyramid"}
# options whose value means the same for the tensor function and the Grid method (scalars / flags). Per-axis tuples (sizes,
# margins, kernel sizes) follow different axis-order conventions on the two sides; their agreement is decided semantically
# by the lock-step evaluation (T13), not by comparing expressions.
ORDER_FREE = {"align_corners", "dims", "levels", "min_size", "ceil_mode"}


def run(ctx: Ctx) -> None:
    prog = ctx.prog
    ib = prog.cls("deepali.data.image", "ImageBatch")
    img = prog.cls("deepali.data.image", "Image")
    ff = prog.cls("deepali.data.flow", "FlowFields")
    f1 = prog.cls("deepali.data.flow", "FlowField")
    ctx.rule("E7.pair", "in each ImageBatch spatial method the tensor operation (core.image) and the Grid operation receive the same "
                        "value (same source names) for every order-free option they share (align_corners, dims, min_size, levels, ceil_mode)")
    ctx.rule("E7.pair.family", "the tensor operation is paired with the matching Grid operation (resize<->resize, crop<->crop, pad<->pad, ...)")
    n_pairs = 0
    for name, m in ib.methods.items():
        if m.overloads and m.node in m.overloads:
            continue
        if name in PAIR_EXEMPT:
            continue
        a, b = S.pair_calls(ctx, m, lambda g: g.module.name == "deepali.core.image" and g.cls is None,
                            lambda g: g.cls is not None and g.cls.name == "Grid" and g.name not in ("spacing", "size", "align_corners", "coords"),
                            "E7.pair", ignore={"data", "mode", "value"}, family=FAMILY, only=ORDER_FREE)
        if a and b:
            n_pairs += 1
    ctx.require(n_pairs >= 11, f"only {n_pairs} ImageBatch methods pair a tensor op with a Grid op (expected >= 11)")
    # Image.* / FlowField.* delegates forward all parameters
    S.delegate_forward(ctx, methods_of(img) + methods_of(f1))
    ctx.floor("E7.delegate-forward", 60)
    e4(ctx, ["deepali.core.image", "deepali.data.image", "deepali.data.flow"])
    from ..tables import t13_lockstep
    t13_lockstep.run_lockstep(ctx)
    ctx.floor("T13.index-only", 40)
    ctx.floor("T13.ramp", 6)
    ctx.floor("T13.interp-flag", 20)
    ctx.floor("T13.sample", 12)
