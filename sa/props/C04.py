"""C04 — image operations move voxel data and sampling grid in lock-step."""
import ast

from ..core import Ctx
from .. import siblings as S
from .common import e4, methods_of

# tensor-level op (core.image) <-> grid-level op (Grid method) families
FAMILY = {
    "grid_resize": {"resize"}, "grid_resample": {"resample"}, "downsample": {"downsample"}, "upsample": {"upsample"},
    "crop": {"crop"}, "pad": {"pad"}, "center_crop": {"center_crop"}, "center_pad": {"center_pad"},
    "region_of_interest": {"region_of_interest"}, "avg_pool": {"avg_pool"}, "conv": {"crop"},
}
# ImageBatch.pyramid builds its finest-level grids first and resizes/samples the data onto them: the pairing there is
# by construction (data is sampled *on* the computed grid), not an op family.
PAIR_EXEMPT = {"pyramid"}
# options whose value means the same for the tensor function and the Grid method (scalars / flags). Per-axis tuples (sizes,
# margins, kernel sizes) follow different axis-order conventions on the two sides; their agreement is decided semantically
# by the lock-step evaluation (T13), not by comparing expressions.
ORDER_FREE = {"align_corners", "dims", "levels", "min_size", "ceil_mode"}


def run(ctx: Ctx) -> None:
    prog = ctx.prog
    ib = prog.cls("deepali.data.image", "ImageBatch")
    img = prog.cls("deepali.data.image", "Image")
    ff = prog.cls("deepali.data.flow", "FlowFields")
    f1 = prog.cls("deepali.data.flow", "FlowField")
    ctx.rule("E7.pair", "in each ImageBatch spatial method the tensor operation (core.image) and the Grid operation receive the same "
                        "value (same source names) for every order-free option they share (align_corners, dims, min_size, levels, ceil_mode)")
    ctx.rule("E7.pair.family", "the tensor operation is paired with the matching Grid operation (resize<->resize, crop<->crop, pad<->pad, ...)")
    n_pairs = 0
    for name, m in ib.methods.items():
        if m.overloads and m.node in m.overloads:
            continue
        if name in PAIR_EXEMPT:
            continue
        a, b = S.pair_calls(ctx, m, lambda g: g.module.name == "deepali.core.image" and g.cls is None,
                            lambda g: g.cls is not None and g.cls.name == "Grid" and g.name not in ("spacing", "size", "align_corners", "coords"),
                            "E7.pair", ignore={"data", "mode", "value"}, family=FAMILY, only=ORDER_FREE)
        if a and b:
            n_pairs += 1
    # Image.* / FlowField.* delegates forward all parameters
    S.delegate_forward(ctx, methods_of(img) + methods_of(f1))
    ctx.floor("E7.delegate-forward", 60)
    e4(ctx, ["deepali.core.image", "deepali.data.image", "deepali.data.flow"])
    from ..tables import t13_lockstep
    t13_lockstep.run_lockstep(ctx)
    t13_lockstep.run_pyramid(ctx)
    ctx.floor("T13.pyramid", 8)
    ctx.floor("T13.index-only", 40)
    ctx.floor("T13.ramp", 6)
    ctx.floor("T13.interp-flag", 20)
    ctx.floor("T13.sample", 12)
    ctx.floor("T13.resample", 20)
    from ..tables import t10_flow
    t10_flow.run_flow_sample(ctx)  # mechanism "vector rescaling on regridding" (FlowFields.sample)
    ctx.floor("T10x.sample", 16)
    t10_flow.run_single_field(ctx)  # a single FlowField runs every operation through a one-item batch and must come back as itself
    ctx.floor("T10x.single-field", 8)
    # (checked last so that semantic findings are reported even when the syntactic pairing pattern is no longer recognised)
    ctx.require(n_pairs >= 11, f"only {n_pairs} ImageBatch methods pair a tensor op with a Grid op (expected >= 11)")


def mutants(prog):
    from .common import source_sub
    DI, CI, G = "deepali.data.image", "deepali.core.image", "deepali.core.grid"
    specs = [
        ('narrow: negative start not normalised', 'deepali.data.image', 'ImageBatch.narrow', 'start += self.shape[dim]', 'start += 0', 'T13.index-only'),
        ('grid_resample: same number of samples taken for same grid', 'deepali.core.image', 'grid_resample', 'if output_grid == input_grid:', 'if output_grid.shape == input_grid.shape:', 'T13.resample'),
        ('FlowField.batch drops the axes', 'deepali.data.flow', 'FlowField.batch', 'FlowFields(data, self._grid, self._axes)', 'FlowFields(data, self._grid)', 'T10x.single-field'),
        ("crop: grid pads", DI, "ImageBatch.crop", "grid.crop(margin=margin, num=num)", "grid.pad(margin=margin, num=num)", "T13."),
        ("pad: grid margin dropped", DI, "ImageBatch.pad", "grid.pad(margin=margin, num=num)", "grid.pad(num=num)", "T13."),
        ("center_crop: first grid for all", DI, "ImageBatch.center_crop", "grid.center_crop(size) for grid in self._grid", "self._grid[0].center_crop(size) for grid in self._grid", "T13."),
        ("center_pad: grid crops", DI, "ImageBatch.center_pad", "grid.center_pad(size)", "grid.center_crop(size)", "T13."),
        ("narrow: grid axis", DI, "ImageBatch.narrow", "g.narrow(self.ndim - dim - 1, start, length)", "g.narrow(dim - 2, start, length)", "T13."),
        ("narrow: grid start", DI, "ImageBatch.narrow", "g.narrow(self.ndim - dim - 1, start, length)", "g.narrow(self.ndim - dim - 1, 0, length)", "T13."),
        ("avg_pool: kernel order", DI, "ImageBatch.avg_pool", "tuple(reversed(kernel_size))", "tuple(kernel_size)", "T13."),
        ("resize: flag dropped for data", DI, "ImageBatch.resize", "U.grid_resize(self, size, mode=mode, align_corners=align_corners)", "U.grid_resize(self, size, mode=mode)", "T13.interp-flag"),
        ("resize: flag dropped for grid", DI, "ImageBatch.resize", "grid.resize(size, align_corners=align_corners)", "grid.resize(size)", "T13.interp-flag"),
        ("downsample: min_size dropped for grid", DI, "ImageBatch.downsample", "grid.downsample(levels, dims=dims, min_size=min_size, align_corners=align_corners)", "grid.downsample(levels, dims=dims, align_corners=align_corners)", "E7."),
        ("roi: grid start", DI, "ImageBatch.region_of_interest", "grid.region_of_interest(start, size)", "grid.region_of_interest(size, start)", "T13."),
        ("core center_crop offset", CI, "center_crop", "crop = (n // 2 for n in crop)", "crop = ((n + 1) // 2 for n in crop)", "T13."),
        ("grid center_crop offset", G, "Grid.center_crop", "origin = [(m - n) // 2 for m, n in zip(self.size(), size)]", "origin = [(m - n + 1) // 2 for m, n in zip(self.size(), size)]", "T13."),
        ("make_instance drops grids", DI, "ImageBatch.crop", "return self._make_instance(data, grid)", "return self._make_instance(data, self._grid)", "T13."),
        ("flow sample: GRID vectors not re-expressed", "deepali.data.flow", "FlowFields.sample", "if axes != Axes.WORLD:", "if axes in (Axes.CUBE, Axes.CUBE_CORNERS):", "T10x.sample"),
        ("origin_: internal float size", G, "Grid.origin_", "size = self.size_tensor()", "size = self._size", "fractional-size"),
        ("resample: output coordinates not mapped into the input cube", CI, "grid_resample", "coords = grid_transform_points(coords, output_grid, axes, input_grid, axes)", "coords = coords", "T13.resample"),
        ("resample: grid from the first image", DI, "ImageBatch.resample", "grid = tuple((grid.resample(out_spacing) for grid in self._grid))", "grid = tuple((self._grid[0].resample(out_spacing) for grid in self._grid))", "T13.resample"),
        ("conv: crop handed to the grid in tensor order", DI, "ImageBatch.conv", "crop = tuple(reversed(crop))", "crop = tuple(crop)", "T13.conv"),
        ("grid_sample: constant outside value subtracted in the caller's tensor", "deepali.core.image", "grid_sample", "if out.data_ptr() == data.data_ptr():\n            out = out.sub(padding_value)\n        else:\n            out = out.sub_(padding_value)", "out = out.sub_(padding_value)", "T13.sample"),
        ("pyramid(spacing): finest level sampled at the new grid's own cube coordinates", "deepali.data.image", "ImageBatch.pyramid", "points = grid_transform_points(points, grids[0], axes, grid, axes, decimals=None)", "points = points", "T13.pyramid"),
    ]
    for name, mod, fn, old, new, expect in specs:
        ov = source_sub(prog, mod, fn, old, new)
        yield (name if ov is not None else name + " [spec does not apply]", ov, expect)
