"""C12 — spatial derivatives of flow fields are exact on polynomial fields."""
from ..core import Ctx
from ..tables import t5_derivs


def run(ctx: Ctx) -> None:
    t5_derivs.run_derivatives(ctx)
    t5_derivs.run_stencils(ctx)
    t5_derivs.run_flowfields_curl(ctx)
    t5_derivs.run_dtype(ctx)
    t5_derivs.run_gaussian_spacing(ctx)
    t5_derivs.run_gaussian_structure(ctx)
    ctx.floor("T5.gaussian-spacing", 2)
    ctx.floor("T5.gaussian-structure", 2)
    ctx.floor("T5.dtype", 14)
    ctx.floor("T5.flowfields-curl", 8)
    ctx.floor("T5.stencil", 30)
    ctx.floor("T5.first-order", 12)
    ctx.floor("T5.jacobian", 6)
    ctx.floor("T5.bspline", 4)


def mutants(prog):
    from .common import source_sub
    Fm, Im = "deepali.core.flow", "deepali.core.image"
    specs = [
        ('jacobian_matrix: first item for every batch entry', 'deepali.core.flow', 'jacobian_matrix', 'jac = torch.cat(list(deriv.values()), dim=1)', 'jac = torch.cat([v[0:1].expand(v.shape) for v in deriv.values()], dim=1)', 'T5.jacobian'),
        ("det2 sign", Fm, "jacobian_det", "a.mul(d).sub_(b.mul(c))", "a.mul(d).add_(b.mul(c))", "T5.jacobian"),
        ("det3 inplace corruption", Fm, "jacobian_det", "term_1 = a.mul(e.mul(i).sub_(f.mul(h)))", "term_1 = a.mul(e.mul_(i).sub_(f.mul(h)))", "T5.jacobian"),
        ("curl pairing", Fm, "curl", "deriv['du/dz'].sub(deriv['dw/dx'])", "deriv['dw/dx'].sub(deriv['du/dz'])", "T5.jacobian"),
        ("curl 2d", Fm, "curl", "deriv['dv/dx'].sub(deriv['du/dy'])\n    elif", "deriv['du/dy'].sub(deriv['dv/dx'])\n    elif", "T5.jacobian"),
        ("central step", Im, "finite_differences", "h = step_size.mul(j.start - i.start)", "h = step_size.mul(1)", "T5.first-order"),
        ("forward pad side", Im, "finite_differences", "data = pad_spatial_dim(data, 0, dilation)\n            i = slice(0, data.shape[dim] - dilation, 1)", "data = pad_spatial_dim(data, dilation, 0)\n            i = slice(0, data.shape[dim] - dilation, 1)", "T5."),
        ("fcb concat order", Im, "finite_differences", "torch.cat([lower, deriv, upper], dim=dim)", "torch.cat([upper, deriv, lower], dim=dim)", "T5."),
        ("spacing column", Im, "spatial_derivatives", "fd_spacing = spacing[:, sdim]", "fd_spacing = spacing[:, 0]", "T5."),
        ("bspline spacing order", Im, "spatial_derivatives", "zip(spacing.transpose(0, 1), order)", "zip(spacing.transpose(0, 1), reversed(order))", "T5.bspline"),
        ("bspline power", Im, "spatial_derivatives", "denom.mul_(delta.pow(d))", "denom.mul_(delta)", "T5.bspline"),
        ("sobel weights", Im, "spatial_derivatives", "avg_kernel /= avg_kernel.sum()", "avg_kernel /= 3", "T5.first-order"),
        ("divergence key", Fm, "divergence", "div = value if div is None else div.add_(value)", "div = value if div is None else div.sub_(value)", "T5.jacobian"),
        ("add identity offdiag", Fm, "jacobian_dict", "if add_identity:", "if False:", "T5.jacobian"),
        ("fd spacing of the first item", Im, "spatial_derivatives", "fd_spacing = spacing[:, sdim]", "fd_spacing = spacing[0, sdim]", "T5.batch-spacing"),
        ("bspline kernel cache ignores the stride", Im, "spatial_derivatives", "key = (s, d)", "key = d", "T5.bspline"),
        ("FlowFields.curl: rank instead of spatial dimension", "deepali.data.flow", "FlowFields.curl", "if self.sdim not in (2, 3):", "if self.ndim not in (2, 3):", "T5.flowfields-curl"),
        ("spatial_derivatives: always computes in float32", Im, "spatial_derivatives", "if not data.is_floating_point():\n        data = data.float()", "data = data.float()", "T5.dtype"),
        ("gaussian derivatives: spacing of the first axis", Im, "spatial_derivatives", "denom = spacing.narrow(1, sdim, 1)", "denom = spacing.narrow(1, 0, 1)", "T5.gaussian-spacing"),
        ("1-D spacing read per image when N = D", Im, "spatial_derivatives", "if spacing.ndim == 1:\n            spacing = spacing.unsqueeze(0)", "if spacing.ndim == 1:\n            spacing = spacing.unsqueeze(1 if N > 1 and spacing.shape[0] == N else 0)", "T5.batch-spacing"),
        ("gaussian mode: derivative kernel along the other axes", Im, "spatial_derivatives", "kernel = kernel_1 if sdim == d else kernel_0", "kernel = kernel_0 if sdim == d else kernel_1", "T5.gaussian-structure"),
        ("gaussian derivative kernel mirrored", "deepali.core.kernels", "gaussian1d_I", "* (x / var)", "* (-x / var)", "T5.gaussian-structure"),
        ("gaussian mode: tensor axis of the first spatial dimension", Im, "spatial_derivatives", "kernel = kernel_1 if sdim == d else kernel_0", "kernel = kernel_1 if sdim == D - 1 - d else kernel_0", "T5.gaussian-structure"),
        ("finite differences: step size in the dtype of an integer field", Im, "spatial_derivatives", "if not data.is_floating_point():\n        data = data.float()\n    if mode is None:", "if mode is None:", "T5.dtype"),
        ("jacobian_det 2d: fused product without the sign", Fm, "jacobian_det", "a.mul(d).sub_(b.mul(c))", "torch.addcmul(a.mul(d), b, c)", "T5.jacobian"),
    ]
    for name, mod, fn, old, new, expect in specs:
        ov = source_sub(prog, mod, fn, old, new)
        yield (name if ov is not None else name + " [spec does not apply]", ov, expect)
