"""C03 — derived grids keep their place in the world."""
from ..core import Ctx
from ..tables import t9_derived
from .common import e4


def run(ctx: Ctx) -> None:
    t9_derived.run_derived(ctx)
    t9_derived.run_chains_resize(ctx)
    t9_derived.run_cube_grid(ctx)
    ctx.floor("T9.crop-family", 150)
    ctx.floor("T9.resize-family", 120)
    ctx.floor("T9.cube-grid", 30)


def mutants(prog):
    from .common import source_sub
    G = "deepali.core.grid"
    specs = [
        ('pyramid: min_size clamps instead of keeping the finer size', 'deepali.core.grid', 'Grid.pyramid', 'sizes[level][dim] = sizes[level - 1][dim]', 'sizes[level][dim] = min_size', 'T9.resize-family'),
        ('apply_transform rounds world coordinates by default', 'deepali.core.grid', 'Grid.apply_transform', 'elif to_axes is Axes.GRID:\n            decimals = 6', 'else:\n            decimals = 6', 'T9.crop-family'),
        ("crop origin from high", G, "Grid.crop", "origin = self.index_to_world(num_[::2])", "origin = self.index_to_world(num_[1::2])", "op=crop"),
        ("pad sign", G, "Grid.pad", "origin = self.index_to_world(-num_[::2])", "origin = self.index_to_world(num_[::2])", "op=pad"),
        ("pad size", G, "Grid.pad", "self._size + num_[::2] + num_[1::2]", "self._size + num_[::2] + num_[::2]", "op=pad"),
        ("pool origin", G, "Grid.pool", "ks.sub(1).div(2)", "ks.div(2)", "op=pool"),
        ("pool spacing", G, "Grid.pool", "spacing=self.spacing().mul(ks)", "spacing=self.spacing()", "op=pool"),
        ("crop drops direction", G, "Grid.crop", "direction=self.direction(), ", "", "op=crop"),
        ("narrow start", G, "Grid.narrow", "start if d == dim else 0", "0 if d == dim else start", "op=narrow"),
        ("center_crop offset", G, "Grid.center_crop", "(m - n) // 2", "(m - n + 1) // 2", "op=center_crop"),
        ("center_pad offset", G, "Grid.center_pad", "-((n - m) // 2)", "(n - m) // 2", "op=center_pad"),
        ("roi high", G, "Grid.region_of_interest", "grid_size[i] - (start[i] + size[i])", "grid_size[i] - size[i]", "op=region_of_interest"),
        ("resize corner spacing", G, "Grid._resize", "(self.extent() - self.spacing()) / (size - 1)", "self.extent() / (size - 1)", "T9."),
        ("resize extent spacing", G, "Grid._resize", "spacing = self.extent() / size", "spacing = self.extent() / (size - 1)", "T9."),
        ("downsample scale", G, "Grid.downsample", "scale = 2 ** levels", "scale = 2 * levels", "op=downsample"),
        ("upsample op", G, "Grid.upsample", "size[dim] *= scale", "size[dim] += scale", "op=upsample"),
        ("resample size", G, "Grid.resample", "size = self.extent().div(spacing)", "size = self.cube_extent().div(spacing)", "op=resample"),
        ("pyramid convention", G, "Grid.pyramid", "self.resize(size)", "self.resize(size, align_corners=not self._align_corners)", "op=pyramid"),
        ("align flag lost in crop", G, "Grid.crop", "align_corners=self.align_corners(), ", "", "op=crop"),
        ("center_crop: offset from the unclamped request", G, "Grid.center_crop", "size = [min(m, n) for m, n in zip(self.size(), size.tolist())]\n    origin = [(m - n) // 2 for m, n in zip(self.size(), size)]", "origin = [(m - n) // 2 for m, n in zip(self.size(), size.tolist())]\n    size = [min(m, n) for m, n in zip(self.size(), size.tolist())]", "op=center_crop"),
        ("center_pad: offset from the unclamped request", G, "Grid.center_pad", "size = [max(m, n) for m, n in zip(self.size(), size.tolist())]\n    origin = [-((n - m) // 2) for m, n in zip(self.size(), size)]", "origin = [-((n - m) // 2) for m, n in zip(self.size(), size.tolist())]\n    size = [max(m, n) for m, n in zip(self.size(), size.tolist())]", "op=center_pad"),
        ("resample: internal float size instead of the extent", G, "Grid.resample", "size = self.extent().div(spacing)", "size = self._size.mul(self.spacing()).div(spacing)", "after downsample"),
        ("Cube.grid: cells counted as for corner alignment", "deepali.core.cube", "Cube.grid", "if align_corners:\n        ncells = ncells.sub_(1)", "ncells = ncells.sub_(1)", "T9.cube-grid"),
        ("Cube.grid: spacing form forgets the extra sample", "deepali.core.cube", "Cube.grid", "if align_corners:\n            size = torch.Size((n + 1 for n in size))", "pass", "T9.cube-grid"),
        ("roi: start clamped to the grid", G, "Grid.region_of_interest", "grid_size = self.size()", "grid_size = self.size()\n    start = start.clamp(min=0)", "op=region_of_interest"),
    ]
    for name, mod, fn, old, new, expect in specs:
        ov = source_sub(prog, mod, fn, old, new)
        yield (name if ov is not None else name + " [spec does not apply]", ov, expect)
