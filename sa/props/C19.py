"""C19 — batches keep one correctly aligned grid per image under tensor operations."""
from ..core import Ctx
from ..tables import t19_dispatch


def run(ctx: Ctx) -> None:
    t19_dispatch.run_dispatch(ctx)
    t19_dispatch.run_copies(ctx)
    ctx.floor("T19.copy", 8)
    ctx.floor("T19.dispatch", 50)
    ctx.floor("T19.index", 24)
