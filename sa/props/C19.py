"""C19 — batches keep one correctly aligned grid per image under tensor operations."""
from ..core import Ctx
from ..tables import t19_dispatch


def run(ctx: Ctx) -> None:
    t19_dispatch.run_dispatch(ctx)
    t19_dispatch.run_copies(ctx)
    t19_dispatch.run_pickle(ctx)
    t19_dispatch.run_collate(ctx)
    t19_dispatch.run_mixed_axes(ctx)
    ctx.floor("T19.mixed-axes", 6)
    ctx.floor("T19.collate", 12)
    ctx.floor("T19.pickle", 8)
    ctx.floor("T19.copy", 8)
    ctx.floor("T19.dispatch", 50)
    ctx.floor("T19.index", 24)


def mutants(prog):
    from .common import source_sub
    DI, DF = "deepali.data.image", "deepali.data.flow"
    specs = []
    for mod, cls in ((DI, "ImageBatch"), (DF, "FlowFields")):
        specs += [
            (f"{cls}: batch-length guard", mod, f"{cls}._torch_function_result", "and (data.shape[0] == len(grid)) and", "and", "T19."),
            (f"{cls}: spatial-shape guard", mod, f"{cls}._torch_function_result", "and (data.shape[2:] == grid[0].shape)", "", "T19."),
        ]
    I = "ImageBatch._torch_function_grid"
    specs += [
        ("FlowFields fallback keeps the batch's grids", DF, "FlowFields._make_instance", "return ImageBatch(data, grid)", "return ImageBatch(data, self._grid)", "T19.index"),
        ("ImageBatch accepts surplus grids", DI, "ImageBatch.grid_", "elif len(arg) != shape[0]:", "elif len(arg) < shape[0]:", "T19.index"),
        ("cat keeps first grids", DI, I, "return [g for grid in grids for g in grid]", "return grids[0]", "T19."),
        ("split by size step", DI, I, "split_grids.append(grids[start:start + split_size_or_sections])", "split_grids.append(grids[:split_size_or_sections])", "T19."),
        ("split sizes offset", DI, I, "split_grids.append(grids[start:start + num])\n                    start += num\n            return split_grids\n        if func in (torch.split_with_sizes", "split_grids.append(grids[start:start + num])\n            return split_grids\n        if func in (torch.split_with_sizes", "T19."),
        ("tensor_split indices", DI, I, "for start, end in zip([0] + indices, indices + [len(grids)]):", "for start, end in zip(indices, indices[1:] + [len(grids)]):", "T19."),
        ("tensor_split sections as size", DI, I, "num, rem = divmod(len(grids), tensor_indices_or_sections)", "num, rem = (tensor_indices_or_sections, 0)", "T19."),
        ("getitem: sequence index takes first grid", DI, "ImageBatch.__getitem__", "grid = tuple((self._grid[i] for i in grid_index))", "grid = tuple((self._grid[0] for i in grid_index))", "T19."),
        ("getitem: int index takes first grid", DI, "ImageBatch.__getitem__", "grid = self._grid[grid_index]", "grid = self._grid[0]", "T19."),
        ("getitem: cropped spatial slices keep grid", DI, "ImageBatch.__getitem__", "if i.start not in (None, 0) or i.stop not in (None, n) or i.step not in (None, 1):", "if i.step not in (None, 1):", "T19."),
        ("getitem: ellipsis returns first grid for all", DI, "ImageBatch.__getitem__", "return self._make_instance(self.tensor(), self._grid)", "return self._make_instance(self.tensor(), self._grid[:1])", "T19."),
        ("iter: first grid", DI, "ImageBatch.__iter__", "yield self._make_subitem(data, self._grid[index])", "yield self._make_subitem(data, self._grid[0])", "T19."),
        ("flow copy drops axes", DF, "FlowFields._make_instance", "axes or self._axes", "axes", "T19."),
        ("pickle: storage offset dropped", "deepali.data.tensor", "DataTensor.__reduce_ex__", "self.storage_offset()", "0", "T19.pickle"),
        ("pickle: attribute dict dropped", "deepali.data.tensor", "_rebuild_from_type", "ret.__dict__ = dict", "pass", "T19.pickle"),
        ("collate: one grid per sample", "deepali.data.collate", "collate_samples", "grid = tuple((grid for flow_field in flow_fields for grid in flow_field.grids()))", "grid = tuple((flow_field.grid() for flow_field in flow_fields))", "T19.collate"),
        ("collate: image grids of the first sample", "deepali.data.collate", "collate_samples", "grid = tuple((image.grid() for image in images))", "grid = tuple((images[0].grid() for image in images))", "T19.collate"),
        ("flow axes of cat: list form only", DF, "FlowFields._torch_function_axes", "if isinstance(args[0], (tuple, list)):", "if isinstance(args[0], list):", "T19.dispatch"),
        ("image batch: result that is already a batch keeps its stale grids", DI, "ImageBatch._torch_function_result", "if isinstance(data, cls):\n            data._grid = grid\n        else:\n            data = cls(data, grid)", "if not isinstance(data, cls):\n            data = cls(data, grid)", "T19.dispatch"),
        ("flow fields: result that is already a flow keeps its stale axes", DF, "FlowFields._torch_function_result", "data._axes = axes", "pass", "T19.dispatch"),
        ("single flow field: axes guard compares the first operand with itself", DF, "FlowField._torch_function_axes", "for ax in axes[1:]", "for ax in axes[:1]", "T19.mixed-axes"),
        ("flow fields: axes guard dropped", DF, "FlowFields._torch_function_axes", "if any((ax != axes[0] for ax in axes[1:])):", "if False:", "T19.mixed-axes"),
    ]
    for name, mod, fn, old, new, expect in specs:
        ov = source_sub(prog, mod, fn, old, new)
        yield (name if ov is not None else name + " [spec does not apply]", ov, expect)
