"""C18 — images and flow fields survive a write/read round trip in every supported format."""
from ..core import Ctx
from ..tables import t18_io as T


def run(ctx: Ctx) -> None:
    T.run_roundtrip(ctx, quick=ctx.tier != "thorough")
    T.run_entry_points(ctx)
    ctx.floor("T18.roundtrip", 30)
    ctx.floor("T18.interop-write", 12)
    ctx.floor("T18.interop-read", 12)
    ctx.floor("T18.image-api", 8)
    ctx.floor("T18.flow-api", 12)
