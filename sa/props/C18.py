"""C18 — images and flow fields survive a write/read round trip in every supported format."""
from ..core import Ctx
from ..tables import t18_io as T


def run(ctx: Ctx) -> None:
    T.run_roundtrip(ctx, quick=ctx.tier != "thorough")
    T.run_entry_points(ctx)
    ctx.floor("T18.roundtrip", 30)
    ctx.floor("T18.interop-write", 12)
    ctx.floor("T18.interop-read", 12)
    ctx.floor("T18.image-api", 8)
    ctx.floor("T18.flow-api", 12)


def mutants(prog):
    from .common import source_sub
    M, N, S, T, I, DI, DF = ("deepali.utils.imageio.meta", "deepali.utils.imageio.nifti", "deepali.utils.imageio.sitk",
                             "deepali.utils.simpleitk.torch", "deepali.utils.imageio", "deepali.data.image", "deepali.data.flow")
    specs = [
        ("meta: writer does not transpose direction", M, "meta_image_bytes", "' '.join((str(x) for x in np.ravel(np.transpose(value))))", "' '.join((str(x) for x in np.ravel(value)))", "T18."),
        ("meta: reader does not transpose direction", M, "read_meta_image_from_fileobj", ".reshape(ndims, ndims).transpose()", ".reshape(ndims, ndims)", "T18."),
        ("meta: DimSize order", M, "meta_image_bytes", "size = np.array(data.shape[::-1])", "size = np.array(data.shape)", "T18."),
        ("meta: channel axis not moved on write", M, "write_meta_image", "data = data.unsqueeze(-1).transpose_(0, -1)", "data = data.unsqueeze(-1)", "T18."),
        ("meta: channel axis not moved on read", M, "read_meta_image", "data = np.squeeze(np.swapaxes(np.expand_dims(data, 0), 0, -1), -1)", "data = np.expand_dims(data, 0)", "T18."),
        ("meta: origin written as center", M, "write_meta_image", "'Offset': grid.origin().cpu().numpy()", "'Offset': grid.center().cpu().numpy()", "T18."),
        ("meta: reader prefers TransformMatrix for origin", M, "read_meta_image", "origin = meta.get('Position', meta.get('Origin', meta.get('Offset')))", "origin = meta.get('Position', meta.get('Origin'))", "T18."),
        ("meta: short/ushort swapped", M, None, None, None, "T18.interop"),
        ("meta: compressed size off", M, "meta_image_bytes", "meta['CompressedDataSize'] = len(blob)", "meta['CompressedDataSize'] = len(blob) + 1", "T18."),
        ("meta: uint16 not widened", M, "read_meta_image", "if data.dtype == np.uint16:\n        data = data.astype(np.int32)", "if False:\n        data = data.astype(np.int32)", "SKIP"),
        ("nifti: writer flips columns", N, "write_nifti_image", "affine[:2] *= -1", "affine[:, :2] *= -1", "T18."),
        ("nifti: reader flips columns", N, "read_nifti_image", "direction[:2] *= -1", "direction[:, :2] *= -1", "T18."),
        ("nifti: reader origin not flipped", N, "read_nifti_image", "origin[:2] *= -1", "origin[:2] *= 1", "T18."),
        ("nifti: writer drops origin", N, "write_nifti_image", "affine[:D, 3] = grid.origin().cpu().numpy()", "affine[:D, 3] = 0", "T18."),
        ("nifti: axes not reversed on write", N, "write_nifti_image", "dataobj = np.transpose(data.numpy(), axes=tuple(reversed(range(data.ndim))))", "dataobj = data.numpy()", "T18."),
        ("nifti: spacing not divided out", N, "read_nifti_image", "direction = np.divide(affine[:D, :D], spacing)", "direction = affine[:D, :D]", "T18."),
        ("nifti: vector components slice", N, "read_nifti_image", "data.shape[:realdim] + data.shape[4:]", "data.shape[:realdim] + data.shape[5:]", "T18."),
        ("sitk: direction transposed on write", S, "write_sitk_image", "direction = grid.direction().flatten().tolist()", "direction = grid.direction().t().flatten().tolist()", "T18."),
        ("sitk: origin is center", S, "write_sitk_image", "origin = grid.origin().tolist()", "origin = grid.center().tolist()", "T18."),
        ("sitk: vector flag", T, "image_from_tensor", "isVector=nchannels > 1", "isVector=False", "T18."),
        ("sitk: channel axis on read", T, "tensor_from_image", "data = data.transpose(0, -1).squeeze(-1)", "data = data.squeeze(0).unsqueeze(0)", "T18."),
        ("sitk: channel axis on write", T, "image_from_tensor", "data = data.unsqueeze(-1).transpose(0, -1).squeeze(0)", "data = data.unsqueeze(-1).squeeze(-1)", "T18."),
        ("dispatch: nifti written as meta", I, "write_image", "return write_nifti_image(data, grid, path)", "return write_sitk_image_missing(data, grid, path)", "SKIP"),
        ("Image.read ignores align_corners", DI, "Image.read", "grid = grid.align_corners_(align_corners)", "grid = grid", "T18.image-api"),
        ("Image.sitk direction transposed", DI, "Image.sitk", "direction = grid.direction().flatten().tolist()", "direction = grid.direction().t().flatten().tolist()", "T18.image-api"),
        ("FlowField.write keeps axes", DF, "FlowField.write", "disp = disp.axes(axes or Axes.WORLD)", "disp = disp", "T18.flow-api"),
        ("FlowField.read labels cube", DF, "FlowField.read", "return cls.from_image(image, axes=axes or Axes.WORLD)", "return cls.from_image(image, axes=axes)", "T18.flow-api"),
        ("FlowField.sitk keeps axes", DF, "FlowField.sitk", "disp = disp.axes(axes or Axes.WORLD)", "disp = disp", "T18.flow-api"),
        ("mha reader: shared module-level dict", M, "read_meta_image_from_fileobj", "meta = dict.fromkeys(META_IMAGE_TAGS, None)", "meta = META_IMAGE_TYPES", "E1.module-state"),
        ("nifti writer: squeeze every singleton axis", N, "write_nifti_image", "dataobj = np.transpose(data.numpy(), axes=tuple(reversed(range(data.ndim))))", "dataobj = np.squeeze(np.transpose(data.numpy(), axes=tuple(reversed(range(data.ndim))))) if data.shape[0] == 1 else np.transpose(data.numpy(), axes=tuple(reversed(range(data.ndim))))", "T18.singleton"),
        ("to_uri bypasses the overridden write", DI, "Image.to_uri", "self.write(uri, compress=compress)", "write_image(self.tensor(), self.grid(), uri, compress=compress)", "T18.flow-api"),
        ("mha writer: channel count of channel-less data", M, "write_meta_image", "data.shape[0] if data.ndim == grid.ndim + 1 else 1", "data.shape[0]", "T18.channel-less"),
        ("sitk: uint16 widened to int16", T, "tensor_from_image", "image = sitk.Cast(image, sitk.sitkInt32)", "image = sitk.Cast(image, sitk.sitkInt16)", "T18.sitk-types"),
        ("sitk: uint32 not widened", T, "tensor_from_image", "elif image.GetPixelID() == sitk.sitkUInt32:", "elif image.GetPixelID() == sitk.sitkUInt64:", "T18.sitk-types"),
        ("meta writer: bytes in memory order", M, "meta_image_bytes", "blob = data.astype(meta['ElementType']).tobytes()", "blob = data.astype(meta['ElementType']).tobytes(order='A')", "T18.strided"),
    ]
    for name, mod, fn, old, new, expect in specs:
        if expect == "SKIP":
            continue
        if fn is None:
            # module-level table edit: swap two entries of META_IMAGE_TYPES
            mi = prog.module(mod)
            src = mi.source
            a, b = '"MET_SHORT": np.int16', '"MET_USHORT": np.uint16'
            if a in src and b in src:
                ov = {mi.relpath: src.replace(a, '"MET_SHORT": np.uint16').replace(b, '"MET_USHORT": np.int16')}
            else:
                ov = None
            yield (name if ov is not None else name + " [spec does not apply]", ov, expect)
            continue
        ov = source_sub(prog, mod, fn, old, new)
        yield (name if ov is not None else name + " [spec does not apply]", ov, expect)
