"""C09 — a transform evaluates its current parameters and grid, never a stale snapshot."""
from ..core import Ctx
from ..tables import t6_transforms


def run(ctx: Ctx) -> None:
    t6_transforms.run_histories(ctx, max_len=2 if ctx.tier == "quick" else 3)
    t6_transforms.run_regrid(ctx)
    t6_transforms.run_unlink_slot(ctx)
    t6_transforms.run_condition_copy(ctx)
    with ctx.parallel():
        t6_transforms.run_fit(ctx)
    ctx.floor("T6x.fit", 16)
    t6_transforms.run_linked_reset(ctx)
    ctx.floor("T6x.linked-reset", 6)
    ctx.floor("T6x.condition-copy", 6)
    t6_transforms.run_composite_histories(ctx)
    from ..tables import t67_transforms
    with ctx.only("T67.inverse-velocity"), ctx.parallel():  # inverse / link creation followed by reading the buffered field (shared with C07)
        t67_transforms.run_inverse(ctx)
    with ctx.parallel():
        t67_transforms.run_linked_linear(ctx)
    ctx.floor("T6x.linked-linear", 14)
    ctx.floor("T67.inverse-velocity", 30)
    ctx.floor("T6x.composite", 1)
    ctx.floor("T6x.linked-inverse", 2)
    ctx.floor("T6x.call-fresh", 16)
    ctx.floor("T6x.replace-fresh", 16)
    ctx.floor("T6x.regrid", 8)


def mutants(prog):
    from .common import source_sub
    B, P, N, S = "deepali.spatial.base", "deepali.spatial.parametric", "deepali.spatial.nonrigid", "deepali.spatial.bspline"
    specs = [
        ("data_ keeps buffers", P, "ParametricTransform.data_", "self.clear_buffers()\n    return self", "return self", "T6x."),
        ("data_ clears only for Parameter", P, "ParametricTransform.data_", "        self.params = arg\n    self.clear_buffers()", "        self.params = arg\n        self.clear_buffers()", "T6x."),
        ("condition_ keeps buffers", B, "SpatialTransform.condition_", "self.clear_buffers()\n    self._args = args", "self._args = args", "T6x."),
        ("grid_ keeps buffers", B, "SpatialTransform.grid_", "self.clear_buffers()\n", "", "T6x."),
        ("clear_buffers forgets v", B, "NonRigidTransform.clear_buffers", "for name in ('u', 'v'):", "for name in ('v',):", "T6x."),
        ("tensor does not update", B, "NonRigidTransform.tensor", "u = getattr(self.update(), 'u', None)", "u = getattr(self, 'u', None)", "T6x."),
        ("svf update keeps stale u", N, "StationaryVelocityFieldTransform.update", "u = self.exp(v)", "u = getattr(self, 'u', None)\n    if u is None:\n        u = self.exp(v)", "T6x."),
        ("ffd update keeps stale u", S, "FreeFormDeformation.update", "u = self.evaluate_spline()", "u = getattr(self, 'u', None)\n    if u is None:\n        u = self.evaluate_spline()", "T6x."),
        ("callable parameters not refreshed", P, "ParametricTransform.update", "p = self._data()", "p = self.p", "T6x."),
        ("dense regrid: axes before sample", N, "DenseVectorFieldTransform.grid_", "flow = flow.sample(self.data_grid(grid))\n        flow = flow.axes(grid_axes)", "flow = flow.axes(grid_axes)\n        flow = flow.sample(self.data_grid(grid))", "T6x.regrid"),
        ("dense regrid: no resampling", N, "DenseVectorFieldTransform.grid_", "flow = flow.sample(self.data_grid(grid))\n        flow = flow.axes(grid_axes)", "flow = flow.axes(grid_axes)", "T6x.regrid"),
        ("svf regrid keeps exp convention", N, "StationaryVelocityFieldTransform.grid_", "exp.align_corners = grid.align_corners()", "pass", "T6x."),
        ("ffd refine crop", S, "BSplineTransform.grid_", "new_params = new_params.narrow(dim, 1, new_shape[dim])", "new_params = new_params.narrow(dim, 0, new_shape[dim])", "T6x.regrid"),
        ("composite update skips linear members", "deepali.spatial.composite", "CompositeTransform.update", "for transform in self.transforms():\n        transform.update()", "for transform in self.transforms():\n        if transform.nonrigid:\n            transform.update()", "T6x."),
        ("generic inverse drops link", "deepali.spatial.generic", "GenericSpatialTransform.inverse", "inv = super().inverse(link=link, update_buffers=update_buffers)", "inv = super().inverse(update_buffers=update_buffers)", "T6x.linked-inverse"),
        ("generic update does not push predicted parameters", "deepali.spatial.generic", "GenericSpatialTransform.update", "transform.data_(p)", "pass", "T6x."),
        ("update hook not registered", B, "SpatialTransform.register_update_hook", "self._update_hook_handle = self.register_forward_pre_hook(self._update_hook)", "self._update_hook_handle = None", "T6x."),
        ("condition_: keyword conditions merged", "deepali.spatial.base", "SpatialTransform.condition_", "self._kwargs = kwargs", "self._kwargs.update(kwargs)", "T6x."),
        ("ddf update: buffered field kept without resizing", "deepali.spatial.nonrigid", "DisplacementFieldTransform.update", "u = self.evaluate()", "u = self.evaluate() if self._resize or getattr(self, 'u', None) is None else self.u", "T6x.call-fresh"),
        ("grid_: a grid that differs only in align_corners is ignored", "deepali.spatial.base", "SpatialTransform.grid_", "if self._grid == grid and self._grid.align_corners() == grid.align_corners():", "if self._grid == grid:", "T6x.regrid"),
        ("link_ keeps the buffered field", "deepali.spatial.parametric", "ParametricTransform.link_", "            self.reset_parameters()\n    self.clear_buffers()\n    return self", "            self.reset_parameters()\n    return self", "T6x."),
        ("functional data(): module slot kept", "deepali.spatial.parametric", "ParametricTransform.data", "if isinstance(params, torch.nn.Module):", "if False:", "T6x."),
        ("has_parameters of a linked transform: own slot only", P, "ParametricTransform.has_parameters", "return params.has_parameters()", "return False", "T6x.linked-linear"),
        ("bspline regrid: domain check by extent only", S, "BSplineTransform.grid_", "if not grid.same_domain_as(current_grid):", "if not torch.allclose(grid.cube_extent(), current_grid.cube_extent()):", "another domain"),
        ("bspline regrid: domain check dropped", S, "BSplineTransform.grid_", "if not grid.same_domain_as(current_grid):", "if False:", "another domain"),
        ("condition(): keyword arguments not forwarded to the copy", B, "SpatialTransform.condition", "return shallow_copy(self).condition_(*args, **kwargs)", "return shallow_copy(self).condition_(*args)", "T6x.condition-copy"),
        ("condition(): keyword-only call treated as the getter", B, "SpatialTransform.condition", "if args or kwargs:", "if args:", "T6x.condition-copy"),
        ("ddf fit: flow stored in the axes it came in", N, "DisplacementFieldTransform.fit", "flow = flow.axes(grid.axes())", "flow = flow", "T6x.fit"),
        ("ddf fit: flow converted to world vectors", N, "DisplacementFieldTransform.fit", "flow = flow.axes(grid.axes())", "flow = flow.axes(Axes.WORLD)", "T6x.fit"),
    ]
    for name, mod, fn, old, new, expect in specs:
        ov = source_sub(prog, mod, fn, old, new)
        yield (name if ov is not None else name + " [spec does not apply]", ov, expect)
