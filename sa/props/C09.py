"""C09 — a transform evaluates its current parameters and grid, never a stale snapshot."""
from ..core import Ctx
from ..tables import t6_transforms


def run(ctx: Ctx) -> None:
    t6_transforms.run_histories(ctx, max_len=2 if ctx.tier == "quick" else 3)
    t6_transforms.run_regrid(ctx)
    ctx.floor("T6x.call-fresh", 16)
    ctx.floor("T6x.replace-fresh", 16)
    ctx.floor("T6x.regrid", 8)
