"""C02 — grid <-> world convention agrees with ITK (index-to-physical formula, header wiring)."""
import ast

from ..core import Ctx
from ..index import AnalysisError, dotted, walk_no_nested
from ..tables import t1_grid
from ..tables.t1_grid import _guard, as_h, teq, tstr, make_interp, compose, identity_h
from ..tables.gridsym import fresh_facts, rotation
from ..ring import Rat, reset_relations
from fractions import Fraction
from ..symt import STensor
from .. import symt

FIELDS = ("size", "origin", "spacing", "direction")


def _local_defs(fi):
    out = {}
    for n in walk_no_nested(fi.node):
        if isinstance(n, ast.Assign) and len(n.targets) == 1 and isinstance(n.targets[0], ast.Name):
            out.setdefault(n.targets[0].id, []).append(n.value)
    return out


def _accessors(expr, defs, depth=0):
    """Method names called along the provenance of an expression (through local single assignments)."""
    names = []
    for n in ast.walk(expr):
        if isinstance(n, ast.Call) and isinstance(n.func, ast.Attribute):
            names.append(n.func.attr)
        if isinstance(n, ast.Name) and n.id in defs and depth < 4:
            for v in defs[n.id]:
                names.extend(_accessors(v, defs, depth + 1))
    return names


def wiring(ctx: Ctx) -> None:
    prog = ctx.prog
    rule = "E7.header-wiring"
    ctx.rule(rule, "ITK header fields are wired name-to-name: Grid(size/origin/spacing/direction = Get<Same>()), "
                   "image_from_tensor(origin/spacing/direction = grid.<same>()) with direction only flattened (row-major, no transpose), "
                   "Set<Same>(<same>) in image_from_tensor")
    # readers
    for name in ("from_sitk", "from_reader"):
        fi = prog.func("deepali.core.grid", f"Grid.{name}")
        ctx.fn(fi)
        calls = [c for c in walk_no_nested(fi.node) if isinstance(c, ast.Call) and isinstance(c.func, ast.Name) and c.func.id == "cls"]
        ctx.require(len(calls) == 1, f"{fi.key}: expected one cls(...) construction")
        kws = {k.arg: k.value for k in calls[0].keywords}
        for f in FIELDS:
            want = "Get" + f.capitalize()
            v = kws.get(f)
            ok = v is not None and isinstance(v, ast.Call) and isinstance(v.func, ast.Attribute) and v.func.attr == want and not v.args
            ctx.ob(rule, f"{fi.key}:{f}", ok, {"keyword": f, "value": ast.unparse(v) if v is not None else None})
            if not ok:
                ctx.report(rule, fi, f"field={f}", f"Grid keyword '{f}' is not wired to {want}() (got {ast.unparse(v) if v is not None else 'nothing'})", calls[0])
        ok = "center" not in kws
        ctx.ob(rule, f"{fi.key}:no-center", ok)
        if not ok:
            ctx.report(rule, fi, "field=center", "header origin must go through origin=, not center=", calls[0])
    # writer: Image.sitk
    fi = prog.func("deepali.data.image", "Image.sitk")
    ctx.fn(fi)
    defs = _local_defs(fi)
    calls = [c for c in walk_no_nested(fi.node) if isinstance(c, ast.Call) and (dotted(c.func) or "").endswith("image_from_tensor")]
    ctx.require(len(calls) == 1, f"{fi.key}: expected one image_from_tensor call")
    kws = {k.arg: k.value for k in calls[0].keywords}
    itf = prog.func("deepali.utils.simpleitk.torch", "image_from_tensor")
    pos = itf.pos_params
    for i, a in enumerate(calls[0].args):
        if i < len(pos):
            kws[pos[i]] = a
    for f in FIELDS[1:]:
        v = kws.get(f)
        acc = _accessors(v, defs) if v is not None else []
        allowed = {f, "tolist", "flatten", "grid"} | ({"reshape"} if False else set())
        ok = v is not None and f in acc and set(acc) <= allowed
        ctx.ob(rule, f"{fi.key}:{f}", ok, {"keyword": f, "accessors": acc})
        if not ok:
            ctx.report(rule, fi, f"field={f}", f"image_from_tensor keyword '{f}' derives from accessors {acc}; expected grid.{f}() (flatten/tolist only)", calls[0])
    # image_from_tensor: Set<Field>(field)
    ctx.fn(itf)
    seen = {}
    for n in walk_no_nested(itf.node):
        if isinstance(n, ast.Call) and isinstance(n.func, ast.Attribute) and n.func.attr.startswith("Set") and n.args:
            seen[n.func.attr] = n
    for f in FIELDS[1:]:
        n = seen.get("Set" + f.capitalize())
        ok = n is not None and isinstance(n.args[0], ast.Name) and n.args[0].id == f
        ctx.ob(rule, f"{itf.key}:{f}", ok)
        if not ok:
            ctx.report(rule, itf, f"field={f}", f"Set{f.capitalize()}() is not called with parameter '{f}'", n or itf.node)
    # data/image.py from_sitk goes through Grid.from_sitk with the same image and forwards align_corners
    fi = prog.func("deepali.data.image", "Image.from_sitk")
    ctx.fn(fi)
    calls = [c for c in walk_no_nested(fi.node) if isinstance(c, ast.Call) and isinstance(c.func, ast.Attribute) and c.func.attr == "from_sitk"]
    ok = len(calls) == 1 and calls[0].args and isinstance(calls[0].args[0], ast.Name) and calls[0].args[0].id == "image" and \
        any(k.arg == "align_corners" and isinstance(k.value, ast.Name) and k.value.id == "align_corners" for k in calls[0].keywords)
    ctx.ob(rule, f"{fi.key}:grid", ok)
    if not ok:
        ctx.report(rule, fi, "grid=from_sitk(image, align_corners)", "Image.from_sitk must build its grid from the same image header and forward align_corners", fi.node)


from ..tae import HostObject


class _FakeHeader(HostObject):
    """Stand-in for a SimpleITK image/reader header: Get* return flat tuples like ITK does (direction row-major)."""

    def __init__(self, size, origin, spacing, direction_flat):
        self._d = {"GetSize": tuple(size), "GetOrigin": tuple(origin), "GetSpacing": tuple(spacing), "GetDirection": tuple(direction_flat)}

    def __getattr__(self, name):
        if name in self.__dict__.get("_d", {}):
            v = self._d[name]
            return lambda: v
        raise AttributeError(name)


def header_eval(ctx: Ctx) -> None:
    """Evaluate Grid.from_sitk / from_reader on a symbolic header and compare with ITK's documented formula."""
    prog = ctx.prog
    rule = "T1.itk-header"
    ctx.rule(rule, "Grid.from_sitk/from_reader(header) places continuous index i at o + D diag(s) i (ITK TransformContinuousIndexToPhysicalPoint), "
                   "with D the row-major reshaped GetDirection(); origin()/spacing()/direction()/size() return the header values")
    for D in (2, 3):
        for name in ("from_sitk", "from_reader"):
            reset_relations()
            facts = fresh_facts()
            it = make_interp(ctx)
            fi = prog.func("deepali.core.grid", f"Grid.{name}")
            Grid = prog.cls("deepali.core.grid", "Grid")
            Axes = prog.cls("deepali.core.grid", "Axes")
            n = [Rat.atom(f"n{i}") for i in range(D)]
            s = [Rat.atom(f"s{i}") for i in range(D)]
            o = [Rat.atom(f"o{i}") for i in range(D)]
            for x in n:
                facts.integral |= set(x.num.atoms())
                facts.declare_positive(x)
                facts.declare_positive(x - 1)
            for x in s:
                facts.declare_positive(x)
            Rm = rotation(D)
            hdr = _FakeHeader(n, o, s, Rm.flat())

            def th():
                from ..tae import ClassVal
                g = it.call(fi, ClassVal(Grid), hdr)
                m = as_h(it.method(g, "transform", it.enum(Axes, "GRID"), it.enum(Axes, "WORLD")))
                ref = symt.cat([symt.matmul(Rm, symt.diag(STensor.from_flat(s, [D]))), STensor.from_flat(o, [D]).unsqueeze(1)], dim=1)
                if not teq(m, ref):
                    return False, f"index->physical {tstr(m)[:160]} expected {tstr(ref)[:160]}"
                back = as_h(it.method(g, "transform", it.enum(Axes, "WORLD"), it.enum(Axes, "GRID")))
                if not teq(compose(back, ref), identity_h(D)):
                    return False, "physical->index is not the inverse"
                if not (teq(it.method(g, "origin"), STensor.from_flat(o, [D])) and teq(it.method(g, "spacing"), STensor.from_flat(s, [D]))
                        and teq(it.method(g, "direction"), Rm) and teq(it.method(g, "size_tensor"), STensor.from_flat(n, [D]))):
                    return False, "header round trip: origin/spacing/direction/size getters differ from header"
                return True, ""
            _guard(ctx, rule, f"D={D}:{name}", fi, f"reader={name} D={D}", th)


def seq_eval(ctx: Ctx) -> None:
    """Grid.from_seq / from_numpy: the flat attribute array (n, s, c|o, R row-major) with either meaning of the third block."""
    prog = ctx.prog
    rule = "T1.itk-seq"
    ctx.rule(rule, "Grid.from_seq / Grid.from_numpy(attrs, origin=flag) with attrs = (size, spacing, c, direction row-major): with origin=True "
                   "the third block is the position of sample 0 (GRID->WORLD = c + R diag(s) i), with origin=False (default and explicit) it is "
                   "the center (GRID->WORLD = c + R diag(s) (i - (n-1)/2)); spacing()/direction()/size() return the listed values")
    Grid = prog.cls("deepali.core.grid", "Grid")
    Axes = prog.cls("deepali.core.grid", "Axes")
    for D in (2, 3):
        for name in ("from_seq", "from_numpy"):
            for flag in (True, False, None):
                fi = prog.func("deepali.core.grid", f"Grid.{name}")

                def th(D=D, fi=fi, flag=flag):
                    from ..tae import ClassVal
                    reset_relations()
                    facts = fresh_facts()
                    it = make_interp(ctx)
                    n = [5, 4, 7][:D]
                    s = [Rat.atom(f"s{i}") for i in range(D)]
                    c = [Rat.atom(f"c{i}") for i in range(D)]
                    for x in s:
                        facts.declare_positive(x)
                    Rm = rotation(D)
                    attrs = list(n) + s + c + list(Rm.flat())
                    kw = {} if flag is None else {"origin": flag}
                    g = it.call(fi, ClassVal(Grid), attrs, **kw)
                    m = as_h(it.method(g, "transform", it.enum(Axes, "GRID"), it.enum(Axes, "WORLD")))
                    RS = symt.matmul(Rm, symt.diag(STensor.from_flat(s, [D])))
                    cvec = STensor.from_flat(c, [D])
                    if flag:
                        o_ref = cvec
                    else:
                        half = STensor.from_flat([Fraction(k - 1, 2) for k in n], [D])
                        o_ref = cvec.sub(symt.matmul(RS, half.unsqueeze(1)).squeeze(1))
                    ref = symt.cat([RS, o_ref.unsqueeze(1)], dim=1)
                    if not teq(m, ref):
                        return False, f"index->physical {tstr(m)[:160]} expected {tstr(ref)[:160]}"
                    if not (teq(it.method(g, "spacing"), STensor.from_flat(s, [D])) and teq(it.method(g, "direction"), Rm)
                            and teq(it.method(g, "size_tensor"), STensor.from_flat(n, [D]))):
                        return False, "spacing/direction/size getters differ from the listed values"
                    return True, ""
                _guard(ctx, rule, f"D={D}:{name}:origin={flag}", fi, f"{name}(origin={flag}) D={D}", th)


def run(ctx: Ctx) -> None:
    wiring(ctx)
    seq_eval(ctx)
    from ..tables import t2_gridattrs
    t2_gridattrs.run_gridattrs(ctx)
    t1_grid.run_grid_tables(ctx, for_c02=True)
    header_eval(ctx)
    t1_grid.run_singleton(ctx)
    from ..tables import t9_derived
    with ctx.only("T9.crop-family"):  # "origin is the position of sample 0" also for grids derived by crop / pad / ROI / pooling (shared with C03)
        t9_derived.run_derived(ctx)
    ctx.floor("T9.crop-family", 100)
    with ctx.only("T1.two-grids"):  # WORLD -> index *of another grid* (to_grid=), also one covering the same domain (shared with C01)
        t1_grid.run_grid_tables(ctx)
    ctx.floor("T1.two-grids", 64)
    ctx.floor("T1.itk-singleton", 5)
    ctx.floor("T1.itk", 16)
    ctx.floor("T1.itk-header", 4)
    ctx.floor("T1.itk-seq", 12)
    ctx.floor("T1.itk-attrs", 24)
    ctx.floor("E7.header-wiring", 14)


def mutants(prog):
    from .common import source_sub
    G = "deepali.core.grid"
    specs = [
        ("affine transposed", G, "Grid.affine", "torch.mm(self.direction(), torch.diag(self.spacing()))", "torch.mm(self.direction().t(), torch.diag(self.spacing()))", "T1.itk"),
        ("origin n/2", G, "Grid.origin", "size.sub(1), size).div(2)", "size, size).div(2)", "T1.itk"),
        ("origin_ n/2", G, "Grid.origin_", "size.sub(1), size).div(2)", "size, size).div(2)", "T1.itk"),
        ("ctor center/origin mixup", G, "Grid.__init__", "self.origin_(origin)", "self.center_(origin)", "T1.itk"),
        ("direction reshape transposed", G, "Grid.direction_", "direction = direction.reshape(D, D)", "direction = direction.reshape(D, D).t()", "T1.itk-header"),
        ("from_sitk cross-wired", G, "Grid.from_sitk", "origin=image.GetOrigin(), spacing=image.GetSpacing()", "origin=image.GetSpacing(), spacing=image.GetOrigin()", "header"),
        ("from_reader center", G, "Grid.from_reader", "origin=reader.GetOrigin()", "center=reader.GetOrigin()", "header"),
        ("sitk transposed direction", "deepali.data.image", "Image.sitk", "grid.direction().flatten().tolist()", "grid.direction().t().flatten().tolist()", "E7.header-wiring"),
        ("sitk origin=center", "deepali.data.image", "Image.sitk", "origin = grid.origin().tolist()", "origin = grid.center().tolist()", "E7.header-wiring"),
        ("SetSpacing(origin)", "deepali.utils.simpleitk.torch", "image_from_tensor", "image.SetSpacing(spacing)", "image.SetSpacing(origin)", "E7.header-wiring"),
        ("from_numpy drops origin flag", G, "Grid.from_numpy", "return cls.from_seq(seq, origin=origin, align_corners=align_corners)", "return cls.from_seq(seq, align_corners=align_corners)", "T1.itk-seq"),
        ("from_seq: flag inverted", G, "Grid.from_seq", "if origin:", "if not origin:", "T1.itk-seq"),
        ("GridAttrs: result cast to index dtype", "deepali.utils.simpleitk.grid", "transform_point", "return y.reshape(arg.shape)", "return y.reshape(arg.shape).astype(arg.dtype)", "T1.itk-attrs"),
        ("GridAttrs: scaling before rotation", "deepali.utils.simpleitk.grid", "GridAttrs.transform", "homogeneous_matrix(rotation @ scaling)", "homogeneous_matrix(scaling @ rotation)", "T1.itk-attrs"),
        ("GridAttrs: inverse without transpose", "deepali.utils.simpleitk.grid", "GridAttrs.inverse_transform", "rotation = self.dcm.T", "rotation = self.dcm", "T1.itk-attrs"),
        ("GridAttrs: header cross-wired", "deepali.utils.simpleitk.grid", "image_grid_attributes", "origin=image.GetOrigin(), spacing=image.GetSpacing()", "origin=image.GetSpacing(), spacing=image.GetOrigin()", "T1.itk-attrs"),
        ("GridAttrs: center route sign", "deepali.utils.simpleitk.grid", "GridAttrs.__init__", "np.asanyarray(center) - np.matmul(rotation @ scaling, offset)", "np.asanyarray(center) + np.matmul(rotation @ scaling, offset)", "T1.itk-attrs"),
        ("pool: origin by floor division", G, "Grid.pool", "ks.sub(1).div(2)", "ks.sub(1).div(2).floor()", "T9.crop-family"),
        ("GridAttrs: nearest index by truncation", "deepali.utils.simpleitk.grid", "GridAttrs.physical_space_to_index", "index: np.ndarray = np.round(self.physical_space_to_continuous_index(points))", "index: np.ndarray = self.physical_space_to_continuous_index(points) + 0.5", "T1.itk-attrs"),
        ("two-grid shortcut for grids of the same domain", G, "Grid.transform", "if to_grid is None or to_grid == self:", "if to_grid is None or to_grid == self or to_grid.same_domain_as(self):", "T1.two-grids"),
    ]
    for name, mod, fn, old, new, expect in specs:
        ov = source_sub(prog, mod, fn, old, new)
        yield (name if ov is not None else name + " [spec does not apply]", ov, expect)
