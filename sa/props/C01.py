"""C01 — grid coordinate systems map consistently."""
from ..core import Ctx
from ..tables import t1_grid, t2_rot
from .common import e4


def run(ctx: Ctx) -> None:
    t1_grid.run_grid_tables(ctx)
    t1_grid.run_lattice(ctx)
    t1_grid.run_cube(ctx)
    t1_grid.run_cube_api(ctx)
    t1_grid.run_singleton(ctx)  # anchors on grids with one-sample axes: index 0 = origin, (n-1)/2 = 0 = center
    t2_rot.run_homogeneous(ctx)  # hmm / homogeneous_transform / homogeneous_matrix for every operand form (anchor: core/linalg.py)
    e4(ctx, ["deepali.core.grid", "deepali.core.cube", "deepali.core.linalg", "deepali.core.math"])
    ctx.floor("T1.inverse", 48)
    ctx.floor("T1.triangle", 96)
    ctx.floor("T1.anchor", 40)
    ctx.floor("T1.transform_vectors", 64)
    ctx.floor("T1.two-grids", 64)
    ctx.floor("T1.lattice", 40)
    ctx.floor("T1.cube", 10)
    ctx.floor("T1.cube-api", 6)
    ctx.floor("T1.itk-singleton", 5)
    ctx.floor("T6.compose", 9)


def mutants(prog):
    from .common import source_sub
    G = "deepali.core.grid"
    specs = [
        ('round_decimals scales its argument in place', 'deepali.core.math', 'round_decimals', 'tensor = tensor * scale', 'tensor *= scale', 'T1.apply'),
        ('apply_transform rounds world coordinates by default', 'deepali.core.grid', 'Grid.apply_transform', 'elif to_axes is Axes.GRID:\n            decimals = 6', 'else:\n            decimals = 6', 'T1.apply'),
        ("grid->cube offset", G, "Grid.transform", "offset=one / size - one", "offset=-one", "Grid.transform"),
        ("cube->grid offset", G, "Grid.transform", "offset=half_size - 0.5", "offset=half_size", "Grid.transform"),
        ("corners scale", G, "Grid.transform", "torch.diag(2 / (size - 1))", "torch.diag(2 / size)", "Grid.transform"),
        ("cube->corners", G, "Grid.transform", "torch.diag(size / (size - 1))", "torch.diag((size - 1) / size)", "Grid.transform"),
        ("hmm operands", G, "Grid.transform", "matrix = hmm(grid_to_cube, world_to_grid)", "matrix = hmm(world_to_grid, grid_to_cube)", "Grid.transform"),
        ("world->grid origin sign", G, "Grid.transform", "hmm(matrix, -self.origin())", "hmm(matrix, self.origin())", "Grid.transform"),
        ("two-grid order", G, "Grid.transform", "matrix = hmm(world_to_source, target_to_world)", "matrix = hmm(target_to_world, world_to_source)", "T1.two-grids"),
        ("vector scales", G, "Grid.transform_vectors", "scales = (self.size_tensor() - 1) / 2", "scales = self.size_tensor() / 2", "T1.transform_vectors"),
        ("vector cube num", G, "Grid.transform_vectors", "num -= 1", "num -= 0", "T1.transform_vectors"),
        ("inverse_affine no transpose", G, "Grid.inverse_affine", "self.direction().t()", "self.direction()", "T1."),
        ("affine order", G, "Grid.affine", "torch.mm(self.direction(), torch.diag(self.spacing()))", "torch.mm(torch.diag(self.spacing()), self.direction())", "T1."),
        ("origin half", G, "Grid.origin", "size.sub(1), size).div(2)", "size, size).div(2)", "T1."),
        ("origin_ sign", G, "Grid.origin_", "origin.add(offset)", "origin.sub(offset)", "T1.itk"),
        ("coords corner spacing", G, "Grid.coords", "spacing = 2 / (n - 1)", "spacing = 2 / n", "T1.lattice"),
        ("coords half offset", G, "Grid.coords", "-1 + 0.5 * spacing", "-1 + spacing", "T1.lattice"),
        ("points convention", G, "Grid.points", "align_corners=False", "align_corners=True", "T1.lattice"),
        ("index_to_cube axes", G, "Grid.index_to_cube", "axes=Axes.GRID", "axes=Axes.CUBE", "T1.apply"),
        ("cube_to_world flag", G, "Grid.cube_to_world", "Axes.from_align_corners(align_corners)", "Axes.from_align_corners(not align_corners)", "T1.apply"),
        ("apply vectors", G, "Grid.apply_transform", "homogeneous_transform(matrix, input)", "homogeneous_transform(matrix, input, vectors=True)", "T1.apply"),
        ("cube affine", "deepali.core.cube", "Cube.transform", "hmm(cube.inverse_affine(), -cube.center())", "hmm(cube.inverse_affine(), cube.center())", "T1.cube"),
        ("hmm: affine*homogeneous t", "deepali.core.linalg", "homogeneous_matmul", "t = a[..., D:] + torch.bmm(a[..., :D], b[..., D:])", "t = torch.bmm(a[..., :D], b[..., D:])", "T1."),
        ("homogeneous_transform transpose", "deepali.core.linalg", "homogeneous_transform", "transform[:, :D, :D].transpose(1, 2)", "transform[:, :D, :D]", "T1."),
        ("origin: singleton axis treated as empty", G, "Grid.origin", "torch.where(size.gt(0), size.sub(1), size).div(2)", "torch.where(size.gt(1), size.sub(1), size).div(2)", "T1.itk-singleton"),
        ("hmm: affine*homogeneous drops A t", "deepali.core.linalg", "homogeneous_matmul", "t = torch.bmm(a[..., :D], b[..., D:])\n                c = torch.cat([A, t], dim=-1)\n                c_type = HomogeneousTensorType.HOMOGENEOUS\n        elif", "t = b[..., D:]\n                c = torch.cat([A, t], dim=-1)\n                c_type = HomogeneousTensorType.HOMOGENEOUS\n        elif", "T6.compose"),
        ("apply_transform: same-domain shortcut", G, "Grid.apply_transform", "if to_grid is not None and to_grid != self or axes is not to_axes:", "if to_grid is not None and (not self.same_domain_as(to_grid)) or axes is not to_axes:", "T1.two-grids"),
        ("transform: internal float size", G, "Grid.transform", "half_size = 0.5 * self.size_tensor()", "half_size = 0.5 * self._size", "fractional-size"),
        ("origin_: internal float size", G, "Grid.origin_", "size = self.size_tensor()", "size = self._size", "fractional-size"),
        ("cube_extent: internal float size", G, "Grid.cube_extent", "n = self.size_tensor()", "n = self._size", "T1."),
        ("cube_to_world: explicit False treated as None", G, "Grid.cube_to_world", "if align_corners is None:\n        align_corners = self._align_corners\n    axes = Axes.from_align_corners(align_corners)", "axes = Axes.from_align_corners(align_corners or self._align_corners)", "T1.apply"),
        ("two cubes: composition order", "deepali.core.cube", "Cube.transform", "return hmm(world_to_cube, cube_to_world)", "return hmm(cube_to_world, world_to_cube)", "T1.cube-api"),
        ("two cubes: world->cube of this cube", "deepali.core.cube", "Cube.transform", "world_to_cube = to_cube.transform(Axes.WORLD, Axes.CUBE, vectors=vectors)", "world_to_cube = self.transform(Axes.WORLD, Axes.CUBE, vectors=vectors)", "T1.cube-api"),
        ("cube_vectors_transform returns the point map", "deepali.core.cube", "cube_vectors_transform", "vectors=True", "vectors=False", "T1.cube-api"),
        ("grid_vectors_transform returns the point map", G, "grid_vectors_transform", "vectors=True", "vectors=False", "T1.cube-api"),
        ("Cube.from_seq: origin flag ignored", "deepali.core.cube", "Cube.from_seq", "if origin:", "if False:", "T1.cube-api"),
        ("Grid.inverse_transform: cube axes of the other convention", G, "Grid.inverse_transform", "Axes.CUBE_CORNERS if self._align_corners else Axes.CUBE", "Axes.CUBE if self._align_corners else Axes.CUBE_CORNERS", "T1.cube-api"),
        ("world->cube ignores the target cube", "deepali.core.cube", "Cube.transform", "cube = self if to_cube is None else to_cube", "cube = self", "T1.cube-api"),
    ]
    for name, mod, fn, old, new, expect in specs:
        ov = source_sub(prog, mod, fn, old, new)
        yield (name if ov is not None else name + " [spec does not apply]", ov, expect)
