"""C16 — image similarity and overlap losses."""
from ..core import Ctx
from .. import siblings as S
from .common import e4, classes_of


# flow regularisers of losses/functional.py are owned by C17
FLOW_FUNCS = {"grad_loss", "bending_loss", "bspline_bending_loss", "curvature_loss", "diffusion_loss", "divergence_loss",
              "lame_parameters", "elasticity_loss", "total_variation_loss", "inverse_consistency_loss"}


def run(ctx: Ctx) -> None:
    cls = classes_of(ctx, "deepali.losses.image")
    S.wrapper_forward(ctx, cls)
    S.ctor_forward(ctx, cls + classes_of(ctx, "deepali.losses.base"))
    ctx.floor("E7.wrapper-forward", 20)
    from ..tables import t16_losses
    t16_losses.run_pointwise(ctx)
    t16_losses.run_overlap(ctx)
    t16_losses.run_target_forms(ctx)
    t16_losses.run_weight_shapes(ctx)
    t16_losses.run_definitions(ctx)
    t16_losses.run_module_functional(ctx)
    t16_losses.run_module_norm(ctx)
    t16_losses.run_invariances(ctx)
    t16_losses.run_wlcc(ctx)
    ctx.floor("T16.wlcc", 2)
    t16_losses.run_rand_sample(ctx)
    ctx.floor("T16.rand-sample", 4)
    t16_losses.run_sample_mask(ctx)
    ctx.floor("T16.sample-mask", 2)
    with ctx.parallel():  # (each obligation builds its own environment)
        t16_losses.run_mi_symmetry(ctx)
    ctx.floor("T16.mi-symmetry", 12)
    ctx.floor("T16.invariance", 2)
    ctx.floor("T16.target-forms", 4)
    ctx.floor("T16.module-norm", 4)
    ctx.floor("T16.module-functional", 10)
    ctx.floor("T16.definition", 2)
    ctx.floor("T16.mask", 6)
    ctx.floor("T16.reduction", 6)
    e4(ctx, ["deepali.losses.functional", "deepali.losses.image", "deepali.losses.base"],
       only=lambda fi: not (fi.module.name == "deepali.losses.functional" and fi.qualname.split(".")[0] in FLOW_FUNCS))


def mutants(prog):
    from .common import source_sub
    L = "deepali.losses.functional"
    specs = [
        ('rand_sample: mask of the first image for all', 'deepali.core.image', 'rand_sample', 'mask = mask.flatten(2).squeeze(1).expand(shape[0], numel)', 'mask = mask.flatten(2)[0].expand(shape[0], numel)', 'T16.rand-sample'),
        ('grid_sample_mask: zero counts as inside', 'deepali.core.image', 'grid_sample_mask', 'data > threshold', 'data >= threshold', 'T16.sample-mask'),
        ("masked mean counts unexpanded mask", L, "reduce_loss", "numel = mask.expand_as(loss).sum()", "numel = mask.sum()", "T16."),
        ("masked mean divides by all", L, "reduce_loss", "numel = mask.expand_as(loss).sum()", "numel = loss.numel()", "T16."),
        ("mean is sum", L, "reduce_loss", "return loss.mean() if reduction == 'mean' else loss.sum()", "return loss.sum()", "T16."),
        ("none reduced", L, "reduce_loss", "if reduction == 'none':\n        return loss", "if reduction == 'none':\n        return loss.sum()", "T16."),
        ("mask not applied", L, "masked_loss", "loss = loss.mul(mask)", "loss = loss", "T16."),
        ("ssd not squared", L, "ssd_loss", "loss = input.sub(target).square()", "loss = input.sub(target).abs()", "T16."),
        ("ssd mask dropped in reduce", L, "ssd_loss", "loss = reduce_loss(loss, reduction, mask)", "loss = reduce_loss(loss, reduction)", "T16."),
        ("norm multiplies", L, "ssd_loss", "loss = loss.div_(norm)", "loss = loss.mul_(norm)", "T16."),
        ("elementwise mask reduce", L, "elementwise_loss", "loss = reduce_loss(loss, reduction, mask)", "loss = reduce_loss(loss, reduction)", "T16."),
        ("mse is not ssd/mean", L, "mse_loss", "return ssd_loss(input, target, mask=mask, norm=norm, reduction=reduction)", "return ssd_loss(input, target, norm=norm, reduction=reduction)", "T16."),
        ("dice factor 2", L, "dice_score", "loss = intersection.mul_(2).add_(epsilon).div(denominator.add_(epsilon))", "loss = intersection.add_(epsilon).div(denominator.add_(epsilon))", "T16."),
        ("dice loss reduction first", L, "dice_loss", "loss = reduce_loss(1 - dsc, reduction)", "loss = 1 - reduce_loss(dsc, reduction)", "T16."),
        ("dice weight dropped", L, "dice_score", "intersection = dot_channels(y_pred, y, weight=weight)", "intersection = dot_channels(y_pred, y)", "T16."),
        ("tversky roles swapped", L, "tversky_index", "fps = dot_channels(y_pred, 1 - y, weight=weight).mul_(alpha)\n    fns = dot_channels(1 - y_pred, y, weight=weight).mul_(beta)", "fps = dot_channels(y_pred, 1 - y, weight=weight).mul_(beta)\n    fns = dot_channels(1 - y_pred, y, weight=weight).mul_(alpha)", "T16."),
        ("tversky fn uses prediction", L, "tversky_index", "fns = dot_channels(1 - y_pred, y, weight=weight).mul_(beta)", "fns = dot_channels(1 - y, y_pred, weight=weight).mul_(beta)", "T16."),
        ("lcc local mean counts padding", L, "lcc_loss", "padding=None, count_include_pad=False)", "padding=None)", "T16.invariance"),
        ("ncc not centred", L, "ncc_loss", "source = source.sub(source_mean)", "source = source", "T16.invariance") if False else
        ("wlcc wrapper mask wiring", "deepali.losses.image", "WLCC.forward", "target_mask=target_mask", "target_mask=source_mask", "T16.module-functional"),
        ("nmi wrapper not normalized", "deepali.losses.image", "NMI.__init__", "normalized=True", "normalized=False", "T16.module-functional"),
        ("tversky loss not one minus", L, "tversky_loss", "loss = one.sub(ti)", "loss = ti", "T16."),
        ("tversky: background channel", L, "tversky_index", "y_pred = y_pred.narrow(1, 1, 1)", "y_pred = y_pred.narrow(1, 0, 1)", "T16.target-forms"),
        ("tversky: label map without channel axis", L, "tversky_index", "as_one_hot_tensor(target.unsqueeze(1), num_classes, dtype=y_pred.dtype)", "as_one_hot_tensor(target, num_classes, dtype=y_pred.dtype)", "T16.target-forms"),
        ("norm: membership test matches 1", "deepali.losses.base", "NormalizedPairwiseImageLoss.__init__", "if norm is True:\n        norm = None\n    if norm is None:", "if norm in (None, True):", "T16.module-norm"),
        ("norm: True and False exchanged", "deepali.losses.base", "NormalizedPairwiseImageLoss.__init__", "if norm is True:", "if norm is False:", "T16.module-norm"),
        ("ncc: means over the whole batch", L, "ncc_loss", "source_mean = source.mean(dim=1, keepdim=True)", "source_mean = source.mean()", "T16.invariance"),
        ("mi: lower histogram bound from the input only", L, "mi_loss", "vmin = torch.min(input.min(), target.min()).item()", "vmin = input.min().item()", "T16.mi-symmetry"),
        ("mi: target marginal over the wrong axis", L, "mi_loss", "p_target = p_joint.sum(dim=1)", "p_target = p_joint.sum(dim=2)", "T16."),
        ("wlcc: joint mask from the source mask only", L, "wlcc_loss", "mask = source_mask.mul(target_mask)", "mask = source_mask", "T16.wlcc"),
        ("wlcc: target mean weighted by the source mask", L, "wlcc_loss", "target_mean = local_mean(target, target_mask)", "target_mean = local_mean(target, source_mask)", "T16.wlcc"),
        ("wlcc: weighted mean not normalised", L, "wlcc_loss", "return a.div_(b)", "return a", "T16.wlcc"),
        ("masked_loss: channel count compared with the batch size", L, "masked_loss", "mask.shape[1] != 1 and mask.shape[1] != loss.shape[1]", "mask.shape[1] != 1 and mask.shape[1] != loss.shape[0]", "T16.mask"),
        ("elementwise loss: factor applied to the unmasked branch only", L, "elementwise_loss", "loss = reduce_loss(loss, reduction, mask)", "return reduce_loss(loss, reduction, mask)", "T16.norm"),
    ]
    for name, mod, fn, old, new, expect in specs:
        ov = source_sub(prog, mod, fn, old, new)
        yield (name if ov is not None else name + " [spec does not apply]", ov, expect)
