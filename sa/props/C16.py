"""C16 — image similarity and overlap losses."""
from ..core import Ctx
from .. import siblings as S
from .common import e4, classes_of


# flow regularisers of losses/functional.py are owned by C17
FLOW_FUNCS = {"grad_loss", "bending_loss", "bspline_bending_loss", "curvature_loss", "diffusion_loss", "divergence_loss",
              "lame_parameters", "elasticity_loss", "total_variation_loss", "inverse_consistency_loss"}


def run(ctx: Ctx) -> None:
    cls = classes_of(ctx, "deepali.losses.image")
    S.wrapper_forward(ctx, cls)
    S.ctor_forward(ctx, cls + classes_of(ctx, "deepali.losses.base"))
    ctx.floor("E7.wrapper-forward", 20)
    from ..tables import t16_losses
    t16_losses.run_pointwise(ctx)
    t16_losses.run_overlap(ctx)
    t16_losses.run_weight_shapes(ctx)
    ctx.floor("T16.mask", 6)
    ctx.floor("T16.reduction", 6)
    e4(ctx, ["deepali.losses.functional", "deepali.losses.image", "deepali.losses.base"],
       only=lambda fi: not (fi.module.name == "deepali.losses.functional" and fi.qualname.split(".")[0] in FLOW_FUNCS))
