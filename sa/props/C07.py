"""C07 — inverse() really inverts."""
from ..core import Ctx
from ..tables import t67_transforms as T


def run(ctx: Ctx) -> None:
    with ctx.parallel():  # every obligation builds its own environment
        T.run_inverse(ctx)
        T.run_generic(ctx, inverse=True)
    from ..tables import t2_rot
    with ctx.only("T7.quat-to-matrix"):  # the transposed matrix of QuaternionRotation is its inverse only if the helper normalises (shared with C08)
        t2_rot.run_quaternion(ctx)
    ctx.floor("T7.quat-to-matrix", 2)
    # the velocity-field inverses are "the same recurrence with the negated scale": that is an inverse only if expv() honours the sign of
    # the scale for every number of steps, including the steps=0 shortcut (shared with C11)
    from ..tables import t11_expv
    with ctx.only("T11x.expv"):
        t11_expv.run_expv(ctx)
    ctx.floor("T11x.expv", 50)
    ctx.floor("T67.generic-inverse", 6)
    ctx.floor("T67.inverse", 200)
    ctx.floor("T67.inverse-velocity", 30)


def mutants(prog):
    from .common import source_sub
    L, C, P, N, S, F = ("deepali.spatial.linear", "deepali.spatial.composite", "deepali.spatial.parametric", "deepali.spatial.nonrigid",
                        "deepali.spatial.bspline", "deepali.modules.flow")
    specs = [
        ("translation ignores invert", L, "Translation.tensor", "if self.invert:", "if False:", "class=Translation"),
        ("euler negates angles", L, "EulerRotation.tensor", "mat = U.euler_rotation_matrix(self.angles(), order=self.order)\n    if self.invert:\n        mat = mat.transpose(1, 2)", "angles = self.angles()\n    if self.invert:\n        angles = -angles\n    mat = U.euler_rotation_matrix(angles, order=self.order)", "class=EulerRotation D=3"),
        ("quaternion no transpose", L, "QuaternionRotation.tensor", "mat = mat.transpose(1, 2)", "mat = mat", "QuaternionRotation"),
        ("iso scaling negates", L, "IsotropicScaling.tensor", "scales = 1 / scales", "scales = -scales", "IsotropicScaling"),
        ("iso scaling inverts the shared parameter tensor in place", L, "IsotropicScaling.tensor", "scales = 1 / scales", "scales = scales.reciprocal_()", "IsotropicScaling"),
        ("aniso scaling inverts the shared parameter tensor in place", L, "AnisotropicScaling.tensor", "scales = 1 / scales", "scales = scales.reciprocal_()", "AnisotropicScaling"),
        ("aniso scaling ignores invert", L, "AnisotropicScaling.tensor", "if self.invert:", "if False:", "AnisotropicScaling"),
        ("shearing transposes", L, "Shearing.tensor", "mat = torch.inverse(mat)", "mat = mat.transpose(1, 2)", "Shearing"),
        ("homogeneous drops row", L, "HomogeneousTransform.tensor", "matrix = torch.inverse(matrix)", "matrix = matrix.transpose(1, 2)", "HomogeneousTransform"),
        ("sequential inverse keeps order", C, "SequentialTransform.inverse", "for name, transform in reversed(self.named_transforms()):", "for name, transform in self.named_transforms():", "T67.inverse"),
        ("sequential inverse drops link", C, "SequentialTransform.inverse", "transform.inverse(link=link, update_buffers=update_buffers)", "transform.inverse(update_buffers=update_buffers)", "T67.inverse"),
        ("inverse does not toggle", P, "InvertibleParametricTransform.inverse", "inv.invert = not self.invert", "inv.invert = True", "T67.inverse"),
        ("inverse drops link", P, "InvertibleParametricTransform.inverse", "if link:\n        inv.link_(self)", "pass", "T67.inverse"),
        ("link copies parameters", P, "ParametricTransform.link_", "self.params = other", "self.params = other.params", "T67.inverse"),
        ("link: shared container", P, "ParametricTransform.link_", "self._parameters = self._parameters.copy()", "pass", "T67.inverse"),
        ("has_parameters of link", P, "ParametricTransform.has_parameters", "return params.has_parameters()", "return False", "T67.inverse"),
        ("update ignores link", P, "ParametricTransform.update", "p = self._data()", "p = self.p", "T67.inverse"),
        ("svf inverse drops link", N, "StationaryVelocityFieldTransform.inverse", "if link:\n        inv.link_(self)", "pass", "T67.inverse-velocity"),
        ("svffd inverse drops link", S, "StationaryVelocityFreeFormDeformation.inverse", "if link:\n        inv.link_(self)", "pass", "T67.inverse-velocity"),
        ("svf inverse shares exp", N, "StationaryVelocityFieldTransform.inverse", "inv.exp = cast(ExpFlow, self.exp).inverse()", "inv.exp.scale *= -1", "T67.inverse-velocity"),
        ("svffd no buffer update", S, "StationaryVelocityFreeFormDeformation.inverse", "if update_buffers:", "if False:", "T67.inverse-velocity"),
        ("expflow inverse in place", F, "ExpFlow.inverse", "copy = shallow_copy(self)", "copy = self", "T67.inverse-velocity"),
        ("expflow inverse no negation", F, "ExpFlow.inverse", "copy.scale *= -1", "copy.scale *= 1", "T67.inverse-velocity"),
        ("inv shortcut unlinked", "deepali.spatial.base", "SpatialTransform.inv", "return self.inverse(link=True, update_buffers=True)", "return self.inverse(link=False, update_buffers=False)", "via=inv"),
        ("svf inverse: buffer registered on the original", "deepali.spatial.nonrigid", "StationaryVelocityFieldTransform.inverse", "inv.register_buffer('u', u, persistent=False)", "self.register_buffer('u', u, persistent=False)", "T67.inverse-velocity"),
        ("svf inverse: forward exponential", "deepali.spatial.nonrigid", "StationaryVelocityFieldTransform.inverse", "u = inv.exp(v)", "u = self.exp(v)", "T67.inverse-velocity"),
        ("svf grid_: exp module rebuilt without its scale", "deepali.spatial.nonrigid", "StationaryVelocityFieldTransform.grid_", "exp = shallow_copy(self.exp)", "exp = ExpFlow(steps=self.exp.steps, align_corners=grid.align_corners())", "T67.inverse-velocity"),
        ("expv: steps=0 shortcut ignores a negative unit scale", "deepali.core.flow", "expv", "if abs(scale - 1) > 1e-15:", "if abs(abs(scale) - 1) > 1e-15:", "T11x.expv"),
    ]
    for name, mod, fn, old, new, expect in specs:
        ov = source_sub(prog, mod, fn, old, new)
        yield (name if ov is not None else name + " [spec does not apply]", ov, expect)
