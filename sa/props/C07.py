"""C07 — inverse() really inverts."""
from ..core import Ctx
from ..tables import t67_transforms as T


def run(ctx: Ctx) -> None:
    T.run_inverse(ctx)
