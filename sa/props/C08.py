"""C08 — homogeneous-transform and rotation algebra."""
from ..core import Ctx
from ..tables import t2_rot
from .common import e4


def run(ctx: Ctx) -> None:
    e4(ctx, ["deepali.core.affine", "deepali.core.linalg", "deepali.core._kornia"])
    t2_rot.run_euler(ctx)
    t2_rot.run_homogeneous(ctx)
    t2_rot.run_quaternion(ctx)
    t2_rot.run_quaternion_log(ctx)
    t2_rot.run_angle_axis(ctx)
    t2_rot.run_quaternion_angle_axis(ctx)
    t2_rot.run_aliases(ctx)
    ctx.floor("T6.helpers", 10)
    t2_rot.run_accessors(ctx)
    ctx.floor("T8.accessors", 20)
    ctx.floor("T2.euler-matrix", 49)
    ctx.floor("T2.euler-angles", 2)
    ctx.floor("T6.compose", 100)
    ctx.floor("T6.apply", 30)
    ctx.floor("T7.quat-log-exp", 6)
    ctx.floor("T7.angle-axis", 5)
    ctx.floor("T7.quat-angle-axis", 7)
    ctx.floor("T7.matrix-to-quat", 4)


def mutants(prog):
    from .common import source_sub
    A, L, K = "deepali.core.affine", "deepali.core.linalg", "deepali.core._kornia"
    specs = [
        ('inverted Euler rotation by negated reversed angles, same order', 'deepali.spatial.linear', 'EulerRotation.tensor', 'mat = U.euler_rotation_matrix(self.angles(), order=self.order)\n    if self.invert:\n        mat = mat.transpose(1, 2)', 'angles = self.angles()\n    if self.invert:\n        angles = angles.neg().flip(-1)\n    mat = U.euler_rotation_matrix(angles, order=self.order)', 'T8.accessors'),
        ("XYZ sign", A, "euler_rotation_matrix", "matrix[..., 0, 1] = -c[..., 1] * s[..., 2]", "matrix[..., 0, 1] = c[..., 1] * s[..., 2]", "order=XYZ"),
        ("ZYX swap c/s", A, "euler_rotation_matrix", "matrix[..., 1, 0] = c[..., 1] * s[..., 0]", "matrix[..., 1, 0] = s[..., 1] * c[..., 0]", "order=ZYX"),
        ("ZXY index", A, "euler_rotation_matrix", "matrix[..., 2, 1] = s[..., 1]", "matrix[..., 2, 1] = s[..., 2]", "order=ZXY"),
        ("XZX term", A, "euler_rotation_matrix", "matrix[..., 1, 1] = -s[..., 0] * s[..., 2] + c[..., 0] * c[..., 1] * c[..., 2]", "matrix[..., 1, 1] = s[..., 0] * s[..., 2] + c[..., 0] * c[..., 1] * c[..., 2]", "order=XZX"),
        ("ZXZ entry", A, "euler_rotation_matrix", "matrix[..., 2, 0] = s[..., 1] * s[..., 2]", "matrix[..., 2, 0] = s[..., 1] * c[..., 2]", "order=ZXZ"),
        ("generic Y sign", A, "euler_rotation_matrix", "rot[..., 2, 0] = -s[..., i]", "rot[..., 2, 0] = s[..., i]", "T2.euler-matrix"),
        ("generic order", A, "euler_rotation_matrix", "torch.matmul(rotation, rot)", "torch.matmul(rot, rotation)", "T2.euler-matrix"),
        ("2D sign", A, "euler_rotation_matrix", "matrix[..., 0, 1] = -s[..., 0]", "matrix[..., 0, 1] = s[..., 0]", "D=2"),
        ("angles swapped", A, "euler_rotation_angles", "angles[..., 0] = torch.atan2(matrix[..., 0, 2], -matrix[..., 1, 2])", "angles[..., 0] = torch.atan2(matrix[..., 2, 0], matrix[..., 2, 1])", "T2.euler-angles"),
        ("angles acos entry", A, "euler_rotation_angles", "angles[..., 1] = torch.acos(matrix[..., 0, 0])", "angles[..., 1] = torch.acos(matrix[..., 1, 1])", "T2.euler-angles"),
        ("order regexp", A, "euler_rotation_order", "order = order.upper()", "order = order.upper()[::-1]", "T2."),
        ("hmm aff*hom drop t", L, "homogeneous_matmul", "t = torch.bmm(a[..., :D], b[..., D:])\n                c = torch.cat([A, t], dim=-1)\n                c_type = HomogeneousTensorType.HOMOGENEOUS\n        elif", "t = b[..., D:]\n                c = torch.cat([A, t], dim=-1)\n                c_type = HomogeneousTensorType.HOMOGENEOUS\n        elif", "T6.compose"),
        ("hmm hom*trans", L, "homogeneous_matmul", "t = torch.bmm(a[..., :D], b)\n                c = a.clone()", "t = b\n                c = a.clone()", "T6.compose"),
        ("hmm trans*aff order", L, "homogeneous_matmul", "c = torch.cat([b, a], dim=-1)", "c = torch.cat([b, -a], dim=-1)", "T6.compose"),
        ("hmm hom*hom", L, "homogeneous_matmul", "t = a[..., D:] + torch.bmm(a[..., :D], b[..., D:])", "t = b[..., D:] + torch.bmm(a[..., :D], b[..., D:])", "T6.compose"),
        ("transform vectors keeps t", L, "homogeneous_transform", "if not vectors and transform.shape[2] == D + 1:", "if transform.shape[2] == D + 1:", "T6.apply"),
        ("transform translation vectors", L, "homogeneous_transform", "        if not vectors:\n            points = points + transform[..., 0].unsqueeze(1)", "        if True:\n            points = points + transform[..., 0].unsqueeze(1)", "T6.apply"),
        ("homogeneous_matrix no copy", L, "homogeneous_matrix", "matrix = tensor.clone()", "matrix = tensor", "T6.convert"),
        ("quat sign", K, "quaternion_to_rotation_matrix", "txy - twz,", "txy + twz,", "T7.quat-to-matrix"),
        ("quat diag", K, "quaternion_to_rotation_matrix", "one - (txx + tzz),", "one - (txx + tyy),", "T7.quat-to-matrix"),
        ("mat->quat branch", K, "rotation_matrix_to_quaternion", "qy = safe_zero_division(m01 + m10, sq)\n        qz = safe_zero_division(m02 + m20, sq)", "qy = safe_zero_division(m01 - m10, sq)\n        qz = safe_zero_division(m02 + m20, sq)", "T7.matrix-to-quat"),
        ("mat->quat trace", K, "rotation_matrix_to_quaternion", "qx = safe_zero_division(m21 - m12, sq)\n        qy = safe_zero_division(m02 - m20, sq)", "qx = safe_zero_division(m12 - m21, sq)\n        qy = safe_zero_division(m02 - m20, sq)", "T7.matrix-to-quat"),
        ("scales: squashing tied to requires_grad", "deepali.spatial.linear", "AnisotropicScaling.scales", "if self.has_parameters():", "if params.requires_grad:", "T8.accessors"),
        ("isotropic scales_: squashing tied to requires_grad", "deepali.spatial.linear", "IsotropicScaling.scales_", "if self.has_parameters():", "if self.data().requires_grad:", "T8.accessors"),
        ("quaternion log: asin of the vector norm", K, "quaternion_exp_to_log", "torch.acos(torch.clamp(quaternion_scalar, min=-1.0, max=1.0))", "torch.asin(torch.clamp(norm_q, max=1.0))", "T7.quat-log-exp"),
        ("quaternion exp: scalar part sine", K, "quaternion_log_to_exp", "quaternion_scalar: torch.Tensor = torch.cos(norm_q)", "quaternion_scalar: torch.Tensor = torch.sin(norm_q)", "T7.quat-log-exp"),
        ("angle-axis: first-order branch of the inverse rotation", K, "angle_axis_to_rotation_matrix", "torch.cat([k_one, -rz, ry, rz, k_one, -rx, -ry, rx, k_one], dim=1)", "torch.cat([k_one, rz, -ry, -rz, k_one, rx, ry, -rx, k_one], dim=1)", "T7.angle-axis"),
        ("angle-axis: sense of rotation", K, "angle_axis_to_rotation_matrix", "r10 = wz * sin_theta + wx * wy * (k_one - cos_theta)", "r10 = -wz * sin_theta + wx * wy * (k_one - cos_theta)", "T7.angle-axis"),
        ("quaternion to rotation vector: negative scalar part not folded", K, "quaternion_to_angle_axis", "torch.where(cos_theta < 0.0, torch.atan2(-sin_theta, -cos_theta), torch.atan2(sin_theta, cos_theta))", "torch.atan2(sin_theta, cos_theta)", "T7.quat-angle-axis"),
        ("rotation vector to quaternion: full angle", K, "angle_axis_to_quaternion", "half_theta: torch.Tensor = theta * 0.5", "half_theta: torch.Tensor = theta", "T7.quat-angle-axis"),
        ("homogeneous_matmul: second operand cast to the first operand's integer dtype", L, "homogeneous_matmul", "b, b_type = as_homogeneous_tensor(b, dtype=dtype)", "b, b_type = as_homogeneous_tensor(b, dtype=args[0].dtype)", "integer operand"),
        ("hmm: result cast back to the first operand's dtype", L, "hmm", "return as_homogeneous_matrix(c)", "return as_homogeneous_matrix(c, dtype=b.dtype)", "integer operand"),
        ("transform_vectors applies the translation", A, "transform_vectors", "vectors=True", "vectors=False", "T6.helpers"),
        ("translation(): offset written into the first column", A, "translation", "matrix[..., D] = offset_", "matrix[..., 0] = offset_", "T6.helpers"),
        ("identity_transform: homogeneous flag inverted", A, "identity_transform", "D + 1 if homogeneous else D", "D if homogeneous else D + 1", "T6.helpers"),
        ("affine_rotation_matrix: third column not orthogonalised against the first", A, "affine_rotation_matrix", "matrix[..., 2] = matrix[..., 2].sub(matrix[..., 0].mul(tansxz.unsqueeze(-1)))", "matrix[..., 2] = matrix[..., 2].add(matrix[..., 0].mul(tansxz.unsqueeze(-1)))", "T6.helpers"),
        ("rigid transform: translation getter returns the rotation", "deepali.spatial.linear", "RigidTransform.translation", "return self._transforms['translation']", "return self._transforms['rotation']", "T6.helpers"),
    ]
    for name, mod, fn, old, new, expect in specs:
        ov = source_sub(prog, mod, fn, old, new)
        yield (name if ov is not None else name + " [spec does not apply]", ov, expect)
