"""C15 — no hidden mutation: functions leave inputs alone, copies leave originals alone."""
import ast

from ..core import Ctx
from ..effects import EXCEPTIONS, Effects
from ..index import FunctionInfo


def _exported(ctx: Ctx):
    prog = ctx.prog
    out = []
    seen = set()
    mi = prog.module("deepali.core.functional")
    for n in list(mi.imports):
        r = prog.resolve_global(mi, n)
        if isinstance(r, FunctionInfo) and r.key not in seen:
            seen.add(r.key)
            out.append((n, r))
    ml = prog.module("deepali.losses.functional")
    for n, r in ml.functions.items():
        if r.key not in seen and not (r.overloads and r.node in r.overloads):
            seen.add(r.key)
            out.append((n, r))
    return out


def run(ctx: Ctx) -> None:
    prog = ctx.prog
    E = Effects(ctx)
    ctx.rule("E1.pure", "every function exported by deepali.core.functional and deepali.losses.functional, analysed with the in-place "
                        "flags at their defaults (inplace=False, out=None): no in-place tensor operation (method ending in '_', augmented "
                        "assignment, item assignment, out=) reaches a value that may alias a tensor parameter — on any path, through any "
                        "resolved callee (may-alias analysis with views / no-op conversions / helper summaries)")
    ctx.rule("E1.accessor", "Grid, Cube, ImageBatch, Image, FlowFields, FlowField, DataTensor: a public method without trailing underscore "
                            "has no effect on the receiver (no attribute rebinding, no in-place tensor operation on the receiver or on a "
                            "tensor reachable from its attributes); underscore setters only rebind attributes (never mutate a stored tensor "
                            "in place), except the documented in-place data operations normalize_/rescale_ on the tensor itself")
    exported = _exported(ctx)
    n_core = sum(1 for _, f in exported if f.module.name.startswith("deepali.core"))
    ctx.require(n_core >= 100, f"only {n_core} functions resolved from deepali.core.functional (expected >= 100)")
    ctx.require(len(exported) - n_core >= 30, "losses.functional exports fewer than 30 functions")
    for name, fi in exported:
        ctx.fn(fi)
        s = E.summary(fi)
        bad = {}
        allowed_first = fi.name.endswith("_") and not fi.name.startswith("_")
        for e in s.effects:
            if e.target[0] != "P" or e.target[2].startswith("attr") or e.target[2] == "rebind":
                continue
            if e.target[1] == "memo":
                continue
            if allowed_first and fi.pos_params and e.target[1] == fi.pos_params[0]:
                continue
            bad.setdefault((e.target[1], e.op, e.via), e)
        ctx.ob("E1.pure", fi.key, not bad, {"function": fi.key, "returns": sorted(map(str, s.returns))[:4]})
        exported_keys = {f.key for _, f in exported}
        for (param, op, via), e in bad.items():
            if via in exported_keys:
                continue  # reported once, at the exported function that contains / first reaches the operation
            via_s = f" via {via}" if via else ""
            ctx.report("E1.pure", fi, f"param={param} op={op}{via_s}",
                       f"{fi.qualname}: in-place operation {op}{via_s} may modify the caller's tensor argument '{param}' "
                       f"(the operand may alias it)", e.node)
    ctx.extra["exceptions_used"] = sorted(map(str, E.exceptions_used))
    ctx.extra["exception_table"] = {f"{k[0]} {k[1]} {k[2]}": v[0] for k, v in EXCEPTIONS.items()}
    # accessors of value classes
    classes = [("deepali.core.grid", "Grid"), ("deepali.core.cube", "Cube"), ("deepali.data.image", "ImageBatch"),
               ("deepali.data.image", "Image"), ("deepali.data.flow", "FlowFields"), ("deepali.data.flow", "FlowField"),
               ("deepali.data.tensor", "DataTensor")]
    INPLACE_DATA_OK = {"normalize_", "rescale_"}
    for mod, cname in classes:
        ci = prog.cls(mod, cname)
        for n, m in ci.methods.items():
            if m.overloads and m.node in m.overloads:
                continue
            if n.startswith("__") and n not in ("__getitem__", "__iter__", "__copy__", "__deepcopy__", "__eq__", "__len__", "__repr__"):
                continue
            ctx.fn(m)
            s = E.summary(m)
            is_setter = n.endswith("_") and not n.startswith("__")
            bad = {}
            for e in s.effects:
                t = e.target
                if t[0] == "P" and t[1] == "memo":
                    continue
                if t[0] == "S":
                    if t[2] == "rebind":
                        if not is_setter and not n.startswith("_"):
                            bad.setdefault((f"self.{t[1]}", "attribute rebinding", e.via), e)
                    else:
                        if n in INPLACE_DATA_OK and t[1] == "":
                            continue
                        bad.setdefault((f"self.{t[1]}" if t[1] else "self", e.op, e.via), e)
                elif t[0] == "P" and not t[2].startswith("attr") and t[2] != "rebind":
                    bad.setdefault((t[1], e.op, e.via), e)
            ctx.ob("E1.accessor", m.key, not bad, None)
            for (what, op, via), e in bad.items():
                via_s = f" via {via}" if via else ""
                ctx.report("E1.accessor", m, f"target={what} op={op}{via_s}",
                           f"{m.qualname}: {op}{via_s} modifies {what} of the object it was called on / of an argument", e.node)
    ctx.floor("E1.accessor", 150)
    from ..tables import t15_isolation
    t15_isolation.run(ctx)
    t15_isolation.run_transforms(ctx)
    t15_isolation.run_transformer_accessors(ctx)
    with ctx.parallel():
        t15_isolation.run_copy_evaluation(ctx)
        t15_isolation.run_evaluation_pure(ctx)
    ctx.floor("T15.evaluation-pure", 18)
    ctx.floor("T15.copy-evaluation", 14)


def mutants(prog):
    """AST-computed edits: out-of-place op -> in-place twin on (an alias of) a tensor parameter; un-cloned deep copies."""
    import ast as _ast
    from .common import edit_function, source_sub
    twins = {"sub": "sub_", "add": "add_", "mul": "mul_", "div": "div_", "clamp": "clamp_", "square": "square_", "neg": "neg_",
             "abs": "abs_", "round": "round_", "pow": "pow_", "sqrt": "sqrt_", "exp": "exp_"}
    count = 0
    for modname in ("deepali.losses.functional", "deepali.core.flow", "deepali.core.image", "deepali.core.pointset", "deepali.core.math"):
        mi = prog.module(modname)
        for name, fi in sorted(mi.functions.items()):
            if count >= 14:
                break
            params = set(fi.params)

            def edit(fn, params=params):
                for n in _ast.walk(fn):
                    if isinstance(n, _ast.Call) and isinstance(n.func, _ast.Attribute) and n.func.attr in twins \
                            and isinstance(n.func.value, _ast.Name) and n.func.value.id in params:
                        n.func.attr = twins[n.func.attr]
                        return True
                return False
            ov = edit_function(prog, modname, name, edit)
            if ov is not None:
                count += 1
                yield (f"inplace twin in {modname.split('.')[-1]}.{name}", ov, "E1.pure")
    specs = [
        ("spatial_derivatives reshapes the caller's spacing", 'deepali.core.image', 'spatial_derivatives', 'spacing = spacing.unsqueeze(0)', 'spacing = spacing.unsqueeze_(0)', 'E1.pure'),
        ("grid deepcopy shares tensors", "deepali.core.grid", "Grid.clone", "setattr(grid, name, value.clone())", "setattr(grid, name, value)", "T15.deepcopy"),
        ("batch deepcopy shares grids", "deepali.data.image", "ImageBatch.__deepcopy__", "grid=tuple((grid.clone() for grid in self._grid)), ", "", "T15.deepcopy"),
        ("image deepcopy shares data", "deepali.data.image", "Image.__deepcopy__", "self.data.clone(memory_format=torch.preserve_format)", "self.data", "T15.deepcopy"),
        ("grid center mutates", "deepali.core.grid", "Grid.center", "shallow_copy(self).center_(arg, *args)", "self.center_(arg, *args)", "E1.accessor"),
        ("setter mutates stored tensor", "deepali.core.grid", "Grid.spacing_", "self._spacing = spacing", "self._spacing.copy_(spacing)", "E1.accessor"),
        ("float() alias then inplace", "deepali.core.flow", "normalize_flow", "data.mul(", "data.float().mul_(", "E1.pure"),
        ("image accessor mutates", "deepali.data.image", "ImageBatch.normalize", "U.normalize_image(self, ", "U.normalize_image(self, inplace=True, ", "E1.accessor"),
        ("svf inverse: buffer registered on the original", "deepali.spatial.nonrigid", "StationaryVelocityFieldTransform.inverse", "inv.register_buffer('u', u, persistent=False)", "self.register_buffer('u', u, persistent=False)", "T15.transform-accessor"),
        ("pyramid: in-place flag setter on the image's own grids", "deepali.data.image", "ImageBatch.pyramid", "grids = tuple((grid.align_corners(align_corners) for grid in self._grid))", "grids = tuple((grid.align_corners_(align_corners) for grid in self._grid))", "T15.accessor"),
        ("isotropic scaling: in-place reciprocal of the shared parameter", "deepali.spatial.linear", "IsotropicScaling.tensor", "scales = 1 / scales", "scales = scales.reciprocal_()", "T15.copy-evaluation"),
        ("translation: offset negated in place", "deepali.spatial.linear", "Translation.tensor", "offset = -offset", "offset = offset.neg_()", "T15.copy-evaluation"),
        ("multilevel: matrices summed into the first member's tensor", "deepali.spatial.composite", "MultiLevelTransform.tensor", "mat = mat + as_homogeneous_matrix(transform.tensor())", "mat += as_homogeneous_matrix(transform.tensor())", "T15.evaluation-pure"),
        ("transformer.condition: conditions the shared transform", "deepali.spatial.transformer", "SpatialTransformer.condition", "copy._transform = self._transform.condition(*args, **kwargs)\n        return copy", "return copy.condition_(*args, **kwargs)", "T15.transform-accessor"),
    ]
    for name, mod, fn, old, new, expect in specs:
        ov = source_sub(prog, mod, fn, old, new)
        yield (name if ov is not None else name + " [spec does not apply]", ov, expect)
