"""C06 — a spatial transform means one world-space map, however it is evaluated."""
from ..core import Ctx
from ..tables import t67_transforms as T
from ..tables import t5x_sampling as S


def run(ctx: Ctx) -> None:
    T.run_identity(ctx)
    T.run_views(ctx)
    T.run_composites(ctx)
    S.run_transformers(ctx)
