"""C06 — a spatial transform means one world-space map, however it is evaluated."""
from ..core import Ctx
from ..tables import t67_transforms as T
from ..tables import t5x_sampling as S


def run(ctx: Ctx) -> None:
    with ctx.parallel():  # every obligation of these tables builds its own environment: evaluated by worker processes
        T.run_identity(ctx)
        T.run_views(ctx)
        T.run_derived_views(ctx)
        T.run_param_matrix(ctx)
        T.run_composites(ctx)
        S.run_transformers(ctx)
        T.run_generic(ctx)
        T.run_point_vs_grid_route(ctx)
    from ..tables import t2_rot
    with ctx.only("T2.euler-matrix"):  # parameter -> matrix map of EulerRotation for every order and notation (shared with C08)
        t2_rot.run_euler(ctx)
    ctx.floor("T2.euler-matrix", 24)
    # "for any parameters": a dense model whose parameters are predicted serves the field of its *current* parameters through every
    # view (call, tensor, disp) after any short history of re-conditioning / replacing operations (shared with C09)
    from ..tables import t6_transforms
    t6_transforms.run_histories(ctx, max_len=2, only_classes=("DisplacementFieldTransform", "StationaryVelocityFieldTransform"),
                                only_kinds=("callable",))
    ctx.floor("T6x.call-fresh", 2)
    ctx.floor("T67.generic", 12)
    ctx.floor("T67.point-vs-grid", 2)
    ctx.floor("T12.identity", 40)
    ctx.floor("T67.views", 20)
    ctx.floor("T67.derived-views", 12)
    ctx.floor("T67.sequential", 10)
    ctx.floor("T67.warp", 12)
    ctx.floor("T67.pointset", 8)


def mutants(prog):
    from .common import source_sub
    B, L, C, P, T = ("deepali.spatial.base", "deepali.spatial.linear", "deepali.spatial.composite", "deepali.spatial.parametric",
                     "deepali.spatial.transformer")
    specs = [
        ("quaternion default", L, "QuaternionRotation.reset_parameters", "torch.tensor([1, 0, 0, 0]", "torch.tensor([0, 0, 0, 1]", "T12.identity"),
        ("homogeneous default", L, "HomogeneousTransform.reset_parameters", "torch.eye(D, D + 1,", "torch.zeros(D, D + 1,", "T12.identity"),
        ("parametric default one", P, "ParametricTransform.reset_parameters", "init.constant_(params, 0.0)", "init.constant_(params, 1.0)", "T12.identity"),
        ("points: leaves transform axes via input grid", B, "SpatialTransform.points", "points = self.grid().transform_points(points, axes=self.axes(), to_grid=to_grid, to_axes=to_axes, decimals=None)", "points = grid.transform_points(points, axes=self.axes(), to_grid=to_grid, to_axes=to_axes, decimals=None)", "T67.views"),
        ("points: input axes", B, "SpatialTransform.points", "points = grid.transform_points(points, axes=axes, to_grid=self.grid(), to_axes=self.axes(), decimals=None)", "points = grid.transform_points(points, axes=self.axes(), to_grid=self.grid(), to_axes=self.axes(), decimals=None)", "T67.views"),
        ("disp: no re-expression", B, "SpatialTransform.disp", "data = U.homogeneous_matmul(post, data, pre)", "data = data", "T67.views"),
        ("disp: pre/post swapped", B, "SpatialTransform.disp", "data = U.homogeneous_matmul(post, data, pre)", "data = U.homogeneous_matmul(pre, data, post)", "T67.views"),
        ("sequential tensor order", C, "SequentialTransform.tensor", "mat = homogeneous_matmul(transform.tensor(), mat)", "mat = homogeneous_matmul(mat, transform.tensor())", "T67.sequential"),
        ("sequential forward grid flag", C, "SequentialTransform.forward", "y = transform.forward(y, grid=grid and i == 0)", "y = transform.forward(y, grid=grid)", "T67.sequential-nonrigid"),
        ("sequential forward restarts", C, "SequentialTransform.forward", "y = transform.forward(y, grid=grid and i == 0)", "y = transform.forward(points, grid=grid and i == 0)", "T67.sequential-nonrigid"),
        ("multilevel composes", C, "MultiLevelTransform.forward", "u += y - x", "u = y - x", "T67.multilevel"),
        ("composite disp other grid", C, "CompositeTransform.disp", "u = y - x", "u = y", "T67.sequential"),
        ("affine member order", L, "AffineTransform.__init__", "transforms['scaling'] = AnisotropicScaling(grid, groups=groups, params=scaling)\n    transforms['rotation'] = EulerRotation(grid, groups=groups, params=rotation)", "transforms['rotation'] = EulerRotation(grid, groups=groups, params=rotation)\n    transforms['scaling'] = AnisotropicScaling(grid, groups=groups, params=scaling)", "T67.sequential"),
        ("translation sign", L, "Translation.tensor", "if self.invert:", "if not self.invert:", "T"),
        ("transformer: sampler target", T, "ImageTransformer.__init__", "SampleImage(target=transform.grid(), source=source,", "SampleImage(target=target, source=source,", "T67.warp"),
        ("transformer: coords convention", T, "ImageTransformer.__init__", "x = target.coords(align_corners=transform.align_corners(), device=device)", "x = target.coords(device=device)", "T67.warp"),
        ("transformer: no pre-map", T, "ImageTransformer.__init__", "x = target.transform_points(x, axes=transform.axes(), to_grid=transform.grid())", "x = x", "T67.warp"),
        ("transformer: flip before map", T, "ImageTransformer.__init__", "x = target.coords(align_corners=transform.align_corners(), device=device)", "x = target.coords(align_corners=transform.align_corners(), flip=flip_coords, device=device)", "T67.warp"),
        ("transformer: no flip back", T, "ImageTransformer.forward", "if self._flip_coords:", "if False:", "T67.warp"),
        ("pointset: output grid", T, "PointSetTransformer.forward", "to_grid=self._to_grid, to_axes=self._to_axes", "to_grid=self._grid, to_axes=self._to_axes", "T67.pointset"),
        ("generic: affine model not reversed", "deepali.spatial.generic", "GenericSpatialTransform.__init__", "for key in reversed(config.affine_model.replace(' o ', '')):", "for key in config.affine_model.replace(' o ', ''):", "T67.generic"),
        ("generic: non-rigid position", "deepali.spatial.generic", "GenericSpatialTransform.__init__", "if affine_first(config.transform):", "if not affine_first(config.transform):", "T67.generic"),
        ("generic: rotation order dropped", "deepali.spatial.generic", "GenericSpatialTransform.__init__", "kwargs['order'] = config.rotation_model", "pass", "T67.generic"),
        ("generic: affine_first looks at the head", "deepali.spatial.generic", "affine_first", "return components[-1] == 'Affine'", "return components[0] == 'Affine'", "T67.generic"),
        ("nonrigid disp: no axes conversion", B, "SpatialTransform.disp", "flow = flow.axes(Axes.from_grid(grid))", "flow = flow", "T67.nonrigid-disp"),
        ("nonrigid disp: no resampling", B, "SpatialTransform.disp", "flow = flow.sample(grid)", "flow = flow", "T67.nonrigid-disp"),
        ("warp_points drops convention", "deepali.core.flow", "warp_points", "sample_flow(flow, coords, align_corners=align_corners)", "sample_flow(flow, coords)", "T67.nonrigid-points"),
        ("pointset: input axes", T, "PointSetTransformer.forward", "points = self._grid.transform_points(points, axes=self._axes,", "points = self._grid.transform_points(points, axes=self._to_axes,", "T67.pointset"),
        ("transformer: default source is the transform grid", T, "ImageTransformer.__init__", "source = target", "source = transform.grid()", "T67.warp"),
        ("data(): buffers of the original cleared instead of the copy's", P, "ParametricTransform.data", "copy.clear_buffers()\n    return copy", "self.clear_buffers()\n    return copy", "T67.derived-views"),
        ("disp: flag-only difference not re-expressed", B, "SpatialTransform.disp", "if grid != self.grid() or grid.align_corners() != self.align_corners():", "if grid != self.grid():", "T67.views"),
        ("svf update: velocity evaluated before the predicted parameters are refreshed", "deepali.spatial.nonrigid", "StationaryVelocityFieldTransform.update", "super().update()\n    v = self.evaluate()", "v = self.evaluate()\n    super().update()", "T6x."),
        ("sample_flow: zero padding by default", "deepali.core.flow", "sample_flow", "padding = PaddingMode.BORDER", "padding = PaddingMode.ZEROS", "T67.point-vs-grid"),
    ]
    for name, mod, fn, old, new, expect in specs:
        ov = source_sub(prog, mod, fn, old, new)
        yield (name if ov is not None else name + " [spec does not apply]", ov, expect)
