"""C05 — resampling onto any oriented grid reads the samples an independent (ITK-style) resampler reads."""
from ..core import Ctx
from ..tables import t5x_sampling as T


def run(ctx: Ctx) -> None:
    with ctx.parallel():  # every obligation builds its own environment
        T.run_batch_sample(ctx)
        T.run_modules(ctx)
    ctx.floor("T5x.resample", 16)
    ctx.floor("T5x.modes", 12)
    ctx.floor("T5x.identity", 8)
    ctx.floor("T5x.modules", 30)


def mutants(prog):
    from .common import source_sub
    DI, CI, M, E = "deepali.data.image", "deepali.core.image", "deepali.modules.sample", "deepali.core.enum"
    specs = [
        ("batch: roles swapped", DI, "ImageBatch.sample", "grid_transform_points(p, grid, axes, to_grid, axes)", "grid_transform_points(p, to_grid, axes, grid, axes)", "T5x.resample"),
        ("batch: coords in target's own convention", DI, "ImageBatch.sample", "grid.coords(align_corners=align_corners, device=self.device)", "grid.coords(device=self.device)", "T5x.resample"),
        ("batch: flag dropped", DI, "ImageBatch.sample", "data = U.grid_sample(data, coords, mode=mode, padding=padding, align_corners=align_corners)", "data = U.grid_sample(data, coords, mode=mode, padding=padding)", "T5x."),
        ("batch: first source grid for all", DI, "ImageBatch.sample", "zip_longest_repeat_last(coords, arg, self._grid)], dim=0)", "zip_longest_repeat_last(coords, arg, self._grid[:1])], dim=0)", "T5x.resample"),
        ("batch: result grid", DI, "ImageBatch.sample", "return self._make_instance(data, arg)", "return self._make_instance(data, self._grid)", "T5x.resample"),
        ("batch: mode dropped", DI, "ImageBatch.sample", "data = U.grid_sample(data, coords, mode=mode, padding=padding, align_corners=align_corners)", "data = U.grid_sample(data, coords, padding=padding, align_corners=align_corners)", "T5x.modes"),
        ("batch: padding dropped (coords)", DI, "ImageBatch.sample", "return U.sample_image(data, arg, mode=mode, padding=padding, align_corners=align_corners)", "return U.sample_image(data, arg, mode=mode, padding=padding)", "T5x.identity"),
        ("grid_sample: constant not added back", CI, "grid_sample", "out = out.add_(padding_value)", "out = out", "T5x.modes"),
        ("grid_sample: constant not subtracted", CI, "grid_sample", "out = out.sub(padding_value)", "out = out", "T5x.modes"),
        ("grid_sample: border for constant", CI, "grid_sample", "padding_mode = 'zeros'\n        padding_value = float(padding or 0)", "padding_mode = 'border'\n        padding_value = float(padding or 0)", "T5x.modes"),
        ("grid_sample: flag", CI, "grid_sample", "padding_mode=padding_mode, align_corners=align_corners)", "padding_mode=padding_mode, align_corners=True)", "T5x."),
        ("enum: nearest->bilinear", E, "Sampling.grid_sample_mode", "return 'nearest'", "return 'bilinear'", "T5x.modes"),
        ("enum: border->zeros", E, "PaddingMode.grid_sample_mode", "return 'border'", "return 'zeros'", "T5x.modes"),
        ("sample_image: pseudo grid order", CI, "sample_image", "return data.reshape(data.shape[:2] + coords.shape[1:-1])", "return data.reshape(data.shape[:2] + coords.shape[1:-1][::-1])", "T5x.identity"),
        ("module: to_axes from source flag", M, "SampleImage._matrix", "to_axes = Axes.from_align_corners(align_corners)", "to_axes = Axes.from_align_corners(self._source.align_corners())", "T5x.modules"),
        ("module: roles swapped", M, "SampleImage._matrix", "grid_points_transform(self._target, self._axes, self._source, to_axes)", "grid_points_transform(self._source, self._axes, self._target, to_axes)", "T5x.modules"),
        ("module: axes ignored", M, "SampleImage._matrix", "grid_points_transform(self._target, self._axes, self._source, to_axes)", "grid_points_transform(self._target, to_axes, self._source, to_axes)", "T5x.modules"),
        ("module: center offset order", M, "SampleImage._matrix", "matrix = homogeneous_matmul(matrix, offset)", "matrix = homogeneous_matmul(offset, matrix)", "T5x.modules"),
        ("module: center of target", M, "SampleImage._matrix", "self._target.world_to_cube(self._source.center(), align_corners=align_corners)", "self._target.world_to_cube(self._target.center(), align_corners=align_corners)", "T5x.modules"),
        ("module: sampling flag of source", M, "SampleImage.align_corners", "return self._target.align_corners()", "return self._source.align_corners()", "T5x.modules"),
        ("module: options", M, "SampleImage._sample_source_image", "mode=self._sampling, padding=self._padding, align_corners=align_corners", "mode=self._sampling, align_corners=align_corners", "T5x.modules"),
        ("align: composition order", M, "AlignImage.forward", "homogeneous_matmul(composite_transform, transform)", "homogeneous_matmul(transform, composite_transform)", "T5x.modules"),
        ("transform: skips target->source", M, "TransformImage.forward", "grid = self._transform_target_to_source(grid)", "grid = grid", "T5x.modules"),
        ("grid: points_transform through world", "deepali.core.grid", "grid_points_transform", "return grid.transform(axes=axes, to_axes=to_axes, to_grid=to_grid, vectors=False)", "return to_grid.transform(axes=axes, to_axes=to_axes, to_grid=grid, vectors=False)", "T5x."),
        ("points(CUBE): grid's own flag", "deepali.core.grid", "Grid.points", "self.coords(normalize=axes is Axes.CUBE, align_corners=False, dtype=dtype, device=device)", "self.coords(normalize=axes is Axes.CUBE, dtype=dtype, device=device)", "T5x.modules"),
        ("apply_transform: same-domain shortcut", "deepali.core.grid", "Grid.apply_transform", "if to_grid is not None and to_grid != self or axes is not to_axes:", "if to_grid is not None and (not self.same_domain_as(to_grid)) or axes is not to_axes:", "T5x.resample"),
        ("hmm: translation written into the caller's matrix", "deepali.core.linalg", "homogeneous_matmul", "c = a.clone()", "c = a.contiguous()", "T5x.modules"),
    ]
    for name, mod, fn, old, new, expect in specs:
        ov = source_sub(prog, mod, fn, old, new)
        yield (name if ov is not None else name + " [spec does not apply]", ov, expect)
