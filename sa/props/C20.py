"""C20 — gradients reaching parameters and inputs are the true derivatives (necessary structural part: no gradient blocker on a
value path from a differentiable input to the result of a differentiable operation)."""
import ast
from typing import Any, Dict, List, Optional, Tuple

from ..core import Ctx
from ..gradflow import EMPTY, GradFlow
from ..index import AnalysisError, ClassInfo, FunctionInfo

FUNC_MODULES = ["deepali.core.flow", "deepali.core.image", "deepali.core.bspline", "deepali.core.affine", "deepali.core._kornia",
                "deepali.core.linalg", "deepali.core.pointset", "deepali.losses.functional"]
CLASS_MODULES = ["deepali.spatial.base", "deepali.spatial.linear", "deepali.spatial.nonrigid", "deepali.spatial.bspline",
                 "deepali.spatial.composite", "deepali.spatial.generic", "deepali.spatial.transformer", "deepali.modules.sample",
                 "deepali.modules.flow", "deepali.modules.image", "deepali.modules.lambd", "deepali.losses.image", "deepali.losses.flow",
                 "deepali.losses.bspline", "deepali.losses.pointset", "deepali.losses.params", "deepali.losses.base"]
CLASS_METHODS = ("forward", "tensor", "disp", "points", "update", "matrix", "angles", "scales", "offset", "quaternion", "loss",
                 "evaluate_spline")
EXTRA_METHODS = {  # (module, class) -> methods (differentiable mode: coordinates are not rounded)
    ("deepali.core.grid", "Grid"): ("apply_transform", "transform_points", "transform_vectors", "index_to_world", "world_to_index",
                                    "cube_to_world", "world_to_cube", "index_to_cube", "cube_to_index"),
    ("deepali.data.flow", "FlowFields"): ("exp", "warp_image", "axes", "sample", "curl"),
    ("deepali.data.flow", "FlowField"): ("exp", "warp_image", "axes", "curl"),
    ("deepali.data.image", "ImageBatch"): ("sample", "resample", "resize", "avg_pool", "conv"),
    ("deepali.data.image", "Image"): ("sample", "resample", "resize", "avg_pool", "conv"),
}
ENTRY_FLAGS = {"decimals": None}  # the coordinate API is differentiable only with rounding switched off (documented)

# discrete or geometric arguments: not inputs one differentiates with respect to
NONDIFF_PARAM_NAMES = {"size", "shape", "stride", "kernel_size", "dilation", "margin", "num", "dims", "dim", "order", "steps", "mode",
                       "padding", "output_padding", "spacing", "sigma", "which", "bins", "num_bins", "num_samples", "sample_ratio", "grid",
                       "kernel", "start", "length", "index", "indices", "offset_", "arg", "levels", "scale", "reduction", "axes", "value"}
# core.image: the sampling / derivative / filtering operations (intensity normalisation helpers are preprocessing, not optimised through)
IMAGE_FUNCS = ("grid_sample", "grid_sample_mask", "sample_image", "spatial_derivatives", "conv", "conv1d", "avg_pool", "grid_resize",
               "grid_resample", "grid_reshape", "finite_differences", "gaussian_pyramid", "image_slice", "crop", "pad", "center_crop",
               "center_pad", "flatten_channels", "dot_channels", "dot_batch", "circle_image", "downsample", "upsample", "fill_border")
NONDIFF_TYPES = ("int", "float", "bool", "str", "None", "tuple", "list", "dict", "callable")
NONDIFF_CLASSES = ("Grid", "Cube", "Axes", "Sampling", "PaddingMode", "SpatialDim", "FlowDerivativeKeys", "SpatialDerivativeKeys")

# (entry key or "*", origin or "*", substring of the blocker site) -> reason
EXCEPTIONS: Dict[Tuple[str, str, str], str] = {}


def _diff_param(ctx: Ctx, fi: FunctionInfo, name: str) -> bool:
    t = ctx.ti.env(fi).get(name, frozenset())
    if not t:
        return True
    for x in t:
        if isinstance(x, str) and x in NONDIFF_TYPES:
            continue
        if isinstance(x, tuple) and x and x[0] in ("type", "module"):
            continue
        if isinstance(x, ClassInfo) and (x.name in NONDIFF_CLASSES or (not ctx.ti.is_tensor_class(x) and not ctx.prog.is_module_class(x))):
            continue
        return True
    return False


def entries(ctx: Ctx) -> List[Tuple[FunctionInfo, Optional[ClassInfo]]]:
    prog = ctx.prog
    out: List[Tuple[FunctionInfo, Optional[ClassInfo]]] = []
    for mod in FUNC_MODULES:
        mi = prog.module(mod)
        for name, fi in sorted(mi.functions.items()):
            if name.startswith("_") or fi.module is not mi:
                continue
            if mod == "deepali.core.image" and name not in IMAGE_FUNCS:
                continue
            out.append((fi, None))
    for mod in CLASS_MODULES:
        if mod not in prog.modules:
            continue
        mi = prog.module(mod)
        for cname, ci in sorted(mi.classes.items()):
            if cname.startswith("_"):
                continue
            for m in CLASS_METHODS:
                fi = prog.find_method(ci, m)
                if fi is not None and not fi.is_static and not fi.is_classmethod and fi.module.name.startswith("deepali"):
                    out.append((fi, ci))
    for (mod, cname), methods in EXTRA_METHODS.items():
        ci = prog.cls(mod, cname)
        for m in methods:
            fi = prog.find_method(ci, m)
            if fi is None:
                raise AnalysisError(f"anchor vanished: {mod}:{cname}.{m}")
            out.append((fi, ci))
    return out


def run(ctx: Ctx) -> None:
    rule = "E8.gradient-path"
    ctx.rule(rule, "for every differentiable public operation (functions of core.flow/image/bspline/affine/_kornia/linalg/pointset and "
                   "losses.functional; forward/tensor/disp/points/update of every transform, transformer, sampler and loss module; the "
                   "coordinate API of Grid with rounding off; FlowFields/ImageBatch resampling): no value path from a tensor argument or "
                   "from the module's own state to the returned value passes a gradient blocker (detach, .data, item/tolist/numpy, "
                   "float()/int() of a tensor, torch.no_grad, requires_grad off, rounding to decimals) — through any resolved callee, "
                   "specialised on constant arguments such as decimals=None")
    eng = GradFlow(ctx)
    ents = entries(ctx)
    ctx.require(len(ents) >= 300, f"only {len(ents)} differentiable entry points found (expected >= 300)")
    n_inputs = 0
    jobs = []
    for fi, K in ents:
        ctx.fn(fi)
        flags = eng._default_flags(fi)
        for k, v in ENTRY_FLAGS.items():
            if k in fi.params:
                flags[k] = v
        jobs.append((fi, K, flags))
    results = eng.run(jobs)
    for i, (fi, K, flags) in enumerate(jobs):
        s = results[i]
        owner = f"{K.module.name}:{K.name}.{fi.name}" if K is not None else fi.key
        inputs = [p for p in fi.params if not (fi.cls is not None and not fi.is_static and p == fi.params[0]) and p not in flags
                  and p not in NONDIFF_PARAM_NAMES and _diff_param(ctx, fi, p)]
        if K is not None and ctx.prog.is_module_class(K) and K.module.name.startswith("deepali.spatial"):
            inputs.append("self")  # learnable state: only the transformation models (and transformers holding them) have parameters
        for p in inputs:
            n_inputs += 1
            origin = "S" if p == "self" else f"P:{p}"
            vias = sorted({v for o, v in s.returns if o == origin and v is not None})
            ok = True
            for via in vias:
                if any((ek in (owner, "*")) and (eo in (origin, "*")) and sub in via for (ek, eo, sub) in EXCEPTIONS):
                    continue
                ok = False
                ctx.report(rule, fi, f"entry={owner} input={p} blocker={via}",
                           f"the value returned by {owner} depends on input '{p}' through a gradient blocker at {via}: autograd's "
                           f"derivative with respect to '{p}' misses that dependence (zero or wrong gradient)")
            ctx.ob(rule, f"{owner}:{p}", ok)
    # positive controls: the engine must have seen the repo's legitimate blockers (a blind analysis would pass vacuously)
    ctx.require(any("round_decimals" in b for b in eng.blocker_sites), "positive control failed: Grid.apply_transform's default rounding was not seen")
    ctx.require(any(".item()" in b for b in eng.blocker_sites), "positive control failed: no .item() site seen anywhere in the analysed code")
    ctx.extra["gradflow"] = {"entries": len(ents), "inputs": n_inputs, "functions_analysed": len(eng.functions_seen),
                             "call_sites": eng.call_sites, "fixpoint_rounds": eng.rounds, "blocker_sites_seen": sorted(eng.blocker_sites),
                             "buffer_attributes_blocked": {f"{k[0]}.{k[1]}": v for k, v in eng.state.items() if v}}
    ctx.floor(rule, 450)
    # buffers registered on the evaluation path (u, v, p, ...) are observable state: regularisers read transform.v, inverses are built
    # from it. Each must carry the graph of the parameters it was computed from.
    brule = "E8.buffer-graph"
    ctx.rule(brule, "every buffer / attribute a transformation model writes on its evaluation path (update() and what forward / tensor / "
                    "disp reach) from its learnable state is written without a gradient blocker in between (detach, .data, no_grad, item, "
                    "rounding, re-leafing): transform.v, transform.u, transform.p stay connected to the parameters")
    for (cls_key, attr) in sorted(eng.state_seen | set(eng.state)):
        via = eng.state.get((cls_key, attr))
        ctx.ob(brule, f"{cls_key}.{attr}", not via)
        if via:
            fi_b = next((f for f in ctx.prog.modules[cls_key.split(":")[0]].classes[cls_key.split(":")[1]].methods.values() if f.name == "update"), None)
            ctx.report(brule, fi_b, f"class={cls_key} buffer={attr} blocker={via}",
                       f"{cls_key}.{attr} is written on the evaluation path from the module's parameters through a gradient blocker "
                       f"({via}): consumers of this buffer (regularisers on transform.{attr}, inverses built from it) get no gradient",
                       where=cls_key)
    ctx.floor(brule, 4)
    guard_placement(ctx, FUNC_MODULES + [m for m in CLASS_MODULES if m in ctx.prog.modules])
    from ..tables import t6_transforms
    t6_transforms.run_generic_leaf(ctx)
    ctx.floor("T20.generic-leaf", 4)
    from ..tables import t5_derivs
    with ctx.only("T5.dtype"):  # float64 fields are differentiated in float64 (no float32 intermediate: finite-difference checks of the gradients need it)
        t5_derivs.run_dtype(ctx)
    ctx.floor("T5.dtype", 8)
    from .. import autograd_lint
    autograd_lint.saved_inplace(ctx, FUNC_MODULES + [m for m in CLASS_MODULES if m in ctx.prog.modules])
    autograd_lint.scratch_reuse(ctx, FUNC_MODULES + [m for m in CLASS_MODULES if m in ctx.prog.modules])
    autograd_lint.hook_receiver(ctx, [m for m in CLASS_MODULES if m in ctx.prog.modules])
    autograd_lint.update_order(ctx, [m for m in CLASS_MODULES if m in ctx.prog.modules and m.startswith("deepali.spatial")])


def mutants(prog):
    from .common import source_sub
    B, T, C, G, F, L, N, S, LF, CI, BS, MF = ("deepali.spatial.base", "deepali.spatial.transformer", "deepali.spatial.composite",
                                              "deepali.core.grid", "deepali.core.flow", "deepali.spatial.linear", "deepali.spatial.nonrigid",
                                              "deepali.spatial.bspline", "deepali.losses.functional", "deepali.core.image",
                                              "deepali.core.bspline", "deepali.modules.flow")
    specs = [
        ("points: rounding on input map", B, "SpatialTransform.points", "to_grid=self.grid(), to_axes=self.axes(), decimals=None)", "to_grid=self.grid(), to_axes=self.axes())", "SpatialTransform.points"),
        ("points: rounding on output map", B, "SpatialTransform.points", "to_grid=to_grid, to_axes=to_axes, decimals=None)", "to_grid=to_grid, to_axes=to_axes)", "SpatialTransform.points"),
        ("pointset transformer: rounding", T, "PointSetTransformer.forward", "to_axes=transform.axes(), decimals=None)", "to_axes=transform.axes())", "PointSetTransformer.forward"),
        ("composite disp: rounding", C, "CompositeTransform.disp", "grid_transform_points(y, self.grid(), self.axes(), grid, axes, decimals=None)", "grid_transform_points(y, self.grid(), self.axes(), grid, axes)", "disp"),
        ("apply_transform rounds although decimals=None", G, "Grid.apply_transform", "if decimals == -1:", "if decimals == -1 or decimals is None:", "round_decimals"),
        ("expv detaches the running field", F, "expv", "flow=move_dim(disp, 1, -1)", "flow=move_dim(disp.detach(), 1, -1)", "expv"),
        ("expv under no_grad", F, "expv", "disp = flow * (scale / 2 ** steps)", "with torch.no_grad():\n        disp = flow * (scale / 2 ** steps)", "expv"),
        ("compose_flows .data", F, "compose_flows", "return u.add(v)", "return u.data.add(v)", "compose_flows"),
        ("warp_image detaches flow", F, "warp_image", "grid = grid + flow", "grid = grid + flow.detach()", "warp_image"),
        ("grid_sample via numpy", CI, "grid_sample", "out = data.type_as(grid)", "out = torch.from_numpy(data.type_as(grid).numpy())", "grid_sample"),
        ("euler angles detach", L, "EulerRotation.angles", "params = params.tanh().mul(math.pi)", "params = params.detach().tanh().mul(math.pi)", "EulerRotation"),
        ("scaling through item", L, "IsotropicScaling.scales", "params = params.sub(1).tanh().exp()", "params = torch.tensor(params.sub(1).tanh().exp().tolist())", "IsotropicScaling"),
        ("ddf buffer detached", N, "DisplacementFieldTransform.update", "u = self.evaluate()", "u = self.evaluate().detach()", "DisplacementFieldTransform"),
        ("svf exp under no_grad", N, "StationaryVelocityFieldTransform.update", "u = self.exp(v)", "with torch.no_grad():\n        u = self.exp(v)", "StationaryVelocityFieldTransform"),
        ("ffd buffer requires_grad off", S, "FreeFormDeformation.update", "u = self.evaluate_spline()", "u = self.evaluate_spline().requires_grad_(False)", "FreeFormDeformation"),
        ("svffd velocity detached", S, "StationaryVelocityFreeFormDeformation.update", "u = self.exp(v)", "u = self.exp(v.detach())", "StationaryVelocityFreeFormDeformation"),
        ("expflow scale", MF, "ExpFlow.forward", "return U.expv(x, scale=scale,", "return U.expv(x.detach(), scale=scale,", "ExpFlow.forward"),
        ("ssd via float()", LF, "ssd_loss", "loss = reduce_loss(loss, reduction, mask)", "loss = reduce_loss(loss, reduction, mask) * float(loss.mean()) / float(loss.mean())", "ssd_loss"),
        ("lcc local mean detached", LF, "lcc_loss", "x = source.sub(source_mean)", "x = source.sub(source_mean.detach())", "lcc_loss"),
        ("bspline evaluation .data", BS, "evaluate_cubic_bspline", "output = data\n", "output = data.data\n", "evaluate_cubic_bspline"),
        ("wlcc epsilon after sqrt", LF, "wlcc_loss", "loss = a.square_().div_(b.mul_(c).add_(epsilon)).neg_().add_(1)", "loss = a.div_(b.mul_(c).sqrt().add(epsilon)).square_().neg_().add_(1)", "E8.guard-placement"),
        ("ncc epsilon after sqrt", LF, "ncc_loss", "RETURN", "RETURN", "SKIP"),
        ("homogeneous_transform rounds", "deepali.core.linalg", "homogeneous_transform", "return ", "return torch.round(", "SKIP"),
        ("in-place reciprocal on the output of exp", "deepali.spatial.linear", "IsotropicScaling.tensor", "scales = 1 / scales", "scales = scales.reciprocal_()", "E8.saved-inplace"),
        ("in-place add on tanh output", "deepali.spatial.linear", "AnisotropicScaling.scales", "params = params.sub(1).tanh().exp()", "params = params.sub(1).tanh().mul_(1).exp()", "E8.saved-inplace"),
        ("update hook bound to the instance", "deepali.spatial.base", "SpatialTransform._update_hook", "@staticmethod\ndef _update_hook(transform: Module, *args, **kwargs) -> None:", "def _update_hook(transform, *args, **kwargs) -> None:", "E8.hook-receiver"),
        ("svf update: velocity buffer detached", "deepali.spatial.nonrigid", "StationaryVelocityFieldTransform.update", "self.register_buffer('v', v, persistent=False)", "self.register_buffer('v', v.detach(), persistent=False)", "E8.buffer-graph"),
        ("generic: affine components own their parameters although a network predicts them", "deepali.spatial.generic", "GenericSpatialTransform.__init__", "kwargs = dict(grid=grid, params=params if isinstance(params, bool) else None)", "kwargs = dict(grid=grid, params=params if isinstance(params, bool) else True)", "T20.generic-leaf"),
        ("generic update: predicted values detached", "deepali.spatial.generic", "GenericSpatialTransform.update", "transform.data_(p)", "transform.data_(p.detach())", "T20.generic-leaf"),
        ("conv1d: kernel always float32", CI, "conv1d", "if is_float_dtype(dtype):\n        kernel = kernel.type(dtype)", "if is_float_dtype(dtype):\n        kernel = kernel.type(torch.float)", "T5.dtype"),
        ("svffd update: spline evaluated before the parameter buffer is refreshed", S, "StationaryVelocityFreeFormDeformation.update", "super().update()\n    v = self.evaluate_spline()", "v = self.evaluate_spline()\n    super().update()", "E8.update-order"),
        ("ddf update: field evaluated before the parameter buffer is refreshed", N, "DisplacementFieldTransform.update", "super().update()\n    u = self.evaluate()", "u = self.evaluate()\n    super().update()", "E8.update-order"),
    ]
    for name, mod, fn, old, new, expect in specs:
        if expect == "SKIP":
            continue
        ov = source_sub(prog, mod, fn, old, new)
        yield (name if ov is not None else name + " [spec does not apply]", ov, expect)


# ------------------------------------------------------------------------------------------------ guard placement
SINGULAR = {"sqrt", "rsqrt", "log", "log2", "log10", "acos", "asin", "atanh", "reciprocal"}


def _is_singular_call(e: ast.AST) -> bool:
    if isinstance(e, ast.Call):
        f = e.func
        name = f.attr if isinstance(f, ast.Attribute) else (f.id if isinstance(f, ast.Name) else "")
        if name in SINGULAR:
            return True
        if name in ("pow", "pow_") and e.args and isinstance(e.args[-1], ast.Constant) and isinstance(e.args[-1].value, float) and 0 < e.args[-1].value < 1:
            return True
    if isinstance(e, ast.BinOp) and isinstance(e.op, ast.Pow) and isinstance(e.right, ast.Constant) and isinstance(e.right.value, float) \
            and 0 < e.right.value < 1:
        return True
    return False


def _is_epsilon(e: ast.AST) -> bool:
    if isinstance(e, ast.Name):
        return "eps" in e.id.lower()
    if isinstance(e, ast.Attribute):
        return "eps" in e.attr.lower()
    if isinstance(e, ast.Constant) and isinstance(e.value, float):
        return 0 < e.value <= 1e-3
    return False


def misplaced_guards(tree: ast.AST):
    """``sqrt(x) + eps`` / ``x.sqrt().add(eps)``: the epsilon guards the *value* (division by zero) but not the derivative of
    the singular operation at 0, which is what makes gradients non-finite; the guard belongs to the argument."""
    for n in ast.walk(tree):
        if isinstance(n, ast.BinOp) and isinstance(n.op, ast.Add):
            if (_is_singular_call(n.left) and _is_epsilon(n.right)) or (_is_singular_call(n.right) and _is_epsilon(n.left)):
                yield n
        elif isinstance(n, ast.Call) and isinstance(n.func, ast.Attribute) and n.func.attr in ("add", "add_") and n.args \
                and _is_singular_call(n.func.value) and _is_epsilon(n.args[0]):
            yield n


def guard_placement(ctx: Ctx, modules) -> None:
    rule = "E8.guard-placement"
    ctx.rule(rule, "an epsilon meant to guard a singular operation (sqrt, rsqrt, log, acos, asin, atanh, fractional power) is added to its "
                   "argument, not to its result: `sqrt(x) + eps` keeps the value finite but not the derivative at x = 0 (NaN gradients "
                   "through 0 * inf), which violates the finite-gradient clause wherever x can vanish (e.g. under masks)")
    # positive control: the matcher must recognise both spellings of the pattern
    probe = ast.parse("def f(a, b, eps):\n    y = a.div(b.sqrt().add(eps))\n    z = torch.sqrt(b) + eps\n    w = (b + eps).sqrt()\n    return y, z, w\n")
    ctx.require(len(list(misplaced_guards(probe))) == 2, "positive control failed: E8.guard-placement matcher does not fire on its own example")
    n = 0
    for mod in modules:
        mi = ctx.prog.module(mod)
        funcs = list(mi.functions.values()) + [m for c in mi.classes.values() for m in c.methods.values()]
        for fi in funcs:
            if fi.overloads and fi.node in fi.overloads:
                continue
            n += 1
            hits = list(misplaced_guards(fi.node))
            for h in hits:
                ctx.report(rule, fi, f"expr={' '.join(ast.unparse(h).split())[:80]}",
                           f"{fi.qualname}(): epsilon is added after the singular operation in `{ast.unparse(h)[:80]}`; the derivative "
                           f"is unbounded where the argument vanishes", node=h)
            ctx.ob(rule, fi.key, not hits)
    ctx.floor(rule, 100)
