"""Helpers shared by property modules."""
from __future__ import annotations

import ast
from typing import Dict, Iterable, Iterator, List, Optional, Tuple

from ..core import Ctx
from ..index import AnalysisError, ClassInfo, FunctionInfo, Program
from .. import crash


def e4(ctx: Ctx, modules: Iterable[str], only=None) -> None:
    """Certain-crash lint over the given modules; ``only(fi) -> bool`` restricts ownership to some functions."""
    crash.run_all(ctx, modules, only)


def funcs_of(ctx: Ctx, module: str, names: Iterable[str]) -> List[FunctionInfo]:
    return [ctx.prog.func(module, n) for n in names]


def methods_of(ci: ClassInfo) -> List[FunctionInfo]:
    return [m for m in ci.methods.values() if not (m.overloads and m.node in m.overloads)]


def classes_of(ctx: Ctx, module: str) -> List[ClassInfo]:
    return list(ctx.prog.module(module).classes.values())


# ------------------------------------------------------------------ mutant helpers (AST-computed edits)
def replace_source(prog: Program, module: str, transform) -> Optional[Dict[str, str]]:
    """Apply ``transform(tree) -> bool`` to a fresh AST of ``module``; return overlay or None when not applicable."""
    mi = prog.module(module)
    tree = ast.parse(mi.source)
    if not transform(tree):
        return None
    ast.fix_missing_locations(tree)
    return {mi.relpath: ast.unparse(tree)}


def find_def(tree: ast.Module, qualname: str):
    parts = qualname.split(".")
    body = tree.body
    node = None
    for i, p in enumerate(parts):
        found = None
        for st in body:
            if isinstance(st, (ast.FunctionDef, ast.ClassDef)) and st.name == p:
                if isinstance(st, ast.FunctionDef) and any(
                        (isinstance(d, ast.Name) and d.id == "overload") for d in st.decorator_list):
                    continue
                found = st
        if found is None:
            return None
        node = found
        body = found.body
    return node


def drop_keyword(prog: Program, module: str, qualname: str, callee_attr: str, kw: str, nth: int = 0):
    """Mutant: delete keyword ``kw`` from the nth call to ``*.callee_attr`` / ``callee_attr`` inside ``qualname``."""
    def tr(tree):
        fn = find_def(tree, qualname)
        if fn is None:
            return False
        k = 0
        for n in ast.walk(fn):
            if isinstance(n, ast.Call):
                f = n.func
                name = f.attr if isinstance(f, ast.Attribute) else (f.id if isinstance(f, ast.Name) else None)
                if name == callee_attr and any(x.arg == kw for x in n.keywords):
                    if k == nth:
                        n.keywords = [x for x in n.keywords if x.arg != kw]
                        return True
                    k += 1
        return False
    return replace_source(prog, module, tr)


def set_keyword(prog: Program, module: str, qualname: str, callee_attr: str, kw: str, value_src: str, nth: int = 0):
    def tr(tree):
        fn = find_def(tree, qualname)
        if fn is None:
            return False
        k = 0
        for n in ast.walk(fn):
            if isinstance(n, ast.Call):
                f = n.func
                name = f.attr if isinstance(f, ast.Attribute) else (f.id if isinstance(f, ast.Name) else None)
                if name == callee_attr and any(x.arg == kw for x in n.keywords):
                    if k == nth:
                        for x in n.keywords:
                            if x.arg == kw:
                                x.value = ast.parse(value_src, mode="eval").body
                        return True
                    k += 1
        return False
    return replace_source(prog, module, tr)


def edit_function(prog: Program, module: str, qualname: str, edit):
    """Mutant: ``edit(fn_node) -> bool`` on the function's AST."""
    def tr(tree):
        fn = find_def(tree, qualname)
        return fn is not None and bool(edit(fn))
    return replace_source(prog, module, tr)


def source_sub(prog: Program, module: str, qualname: str, old: str, new: str, count: int = 1):
    """Mutant by normalised-source substitution inside one function (old/new are ast.unparse-normalised snippets)."""
    mi = prog.module(module)
    tree = ast.parse(mi.source)
    fn = find_def(tree, qualname)
    if fn is None:
        return None
    src = ast.unparse(fn)
    if old not in src:
        return None
    new_src = src.replace(old, new, count)
    try:
        new_fn = ast.parse(new_src).body[0]
    except SyntaxError:
        return None
    # splice
    def splice(body):
        for i, st in enumerate(body):
            if st is fn:
                body[i] = new_fn
                return True
            if isinstance(st, ast.ClassDef) and splice(st.body):
                return True
        return False
    if not splice(tree.body):
        return None
    ast.fix_missing_locations(tree)
    return {mi.relpath: ast.unparse(tree)}
