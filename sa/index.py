"""E0: program index — parse every module of deepali, build symbol tables, resolve imports and the class hierarchy.

No module of deepali is ever imported; everything is derived from ``ast``.
"""
from __future__ import annotations

import ast
import os
from dataclasses import dataclass, field
from typing import Dict, Iterator, List, Optional, Tuple, Union

REPO_ROOT = os.environ.get("VERIF_REPO", "/repo")
SRC_ROOT = os.path.join(REPO_ROOT, "src")
PKG = "deepali"


class AnalysisError(Exception):
    """Raised when the analyser cannot decide (vanished anchor, construct outside vocabulary).

    Mapped to exit code 2 (``ANALYSIS-ERROR``), never to a violation.
    """


@dataclass
class FunctionInfo:
    module: "ModuleInfo"
    name: str
    qualname: str  # "Class.method" or "func" or "outer.<locals>.inner"
    node: Union[ast.FunctionDef, ast.AsyncFunctionDef]
    cls: Optional["ClassInfo"] = None
    decorators: Tuple[str, ...] = ()
    overloads: List[ast.FunctionDef] = field(default_factory=list)

    @property
    def key(self) -> str:
        return f"{self.module.name}:{self.qualname}"

    @property
    def is_static(self) -> bool:
        return "staticmethod" in self.decorators

    @property
    def is_classmethod(self) -> bool:
        return "classmethod" in self.decorators

    @property
    def is_property(self) -> bool:
        return "property" in self.decorators

    @property
    def params(self) -> List[str]:
        a = self.node.args
        return [x.arg for x in a.posonlyargs + a.args] + [x.arg for x in a.kwonlyargs]

    @property
    def pos_params(self) -> List[str]:
        a = self.node.args
        return [x.arg for x in a.posonlyargs + a.args]

    @property
    def has_varargs(self) -> bool:
        return self.node.args.vararg is not None

    @property
    def has_varkw(self) -> bool:
        return self.node.args.kwarg is not None

    def param_defaults(self) -> Dict[str, ast.expr]:
        a = self.node.args
        pos = a.posonlyargs + a.args
        out: Dict[str, ast.expr] = {}
        for p, d in zip(pos[len(pos) - len(a.defaults):], a.defaults):
            out[p.arg] = d
        for p, d in zip(a.kwonlyargs, a.kw_defaults):
            if d is not None:
                out[p.arg] = d
        return out

    def param_annotation(self, name: str) -> Optional[ast.expr]:
        a = self.node.args
        for p in a.posonlyargs + a.args + a.kwonlyargs:
            if p.arg == name:
                return p.annotation
        return None

    @property
    def rel(self) -> str:
        return f"{self.module.relpath}:{self.node.lineno}"

    def __repr__(self) -> str:
        return f"<Function {self.key}>"

    def __hash__(self) -> int:
        return hash(self.key)

    def __eq__(self, other) -> bool:
        return isinstance(other, FunctionInfo) and other.key == self.key


@dataclass
class ClassInfo:
    module: "ModuleInfo"
    name: str
    node: ast.ClassDef
    methods: Dict[str, FunctionInfo] = field(default_factory=dict)
    class_attrs: Dict[str, ast.expr] = field(default_factory=dict)
    base_exprs: List[ast.expr] = field(default_factory=list)
    _bases: Optional[List["ClassInfo"]] = None
    _mro: Optional[List["ClassInfo"]] = None
    external_bases: List[str] = field(default_factory=list)

    @property
    def key(self) -> str:
        return f"{self.module.name}:{self.name}"

    def __repr__(self) -> str:
        return f"<Class {self.key}>"

    def __hash__(self) -> int:
        return hash(self.key)

    def __eq__(self, other) -> bool:
        return isinstance(other, ClassInfo) and other.key == self.key


@dataclass
class ModuleInfo:
    name: str
    path: str
    relpath: str
    source: str
    tree: ast.Module
    is_pkg: bool
    functions: Dict[str, FunctionInfo] = field(default_factory=dict)
    classes: Dict[str, ClassInfo] = field(default_factory=dict)
    imports: Dict[str, Tuple[str, Optional[str]]] = field(default_factory=dict)  # local -> (module, attr|None)
    consts: Dict[str, ast.expr] = field(default_factory=dict)
    all_names: Optional[List[str]] = None

    def __repr__(self) -> str:
        return f"<Module {self.name}>"


def _decorator_names(node) -> Tuple[str, ...]:
    out = []
    for d in node.decorator_list:
        if isinstance(d, ast.Call):
            d = d.func
        if isinstance(d, ast.Name):
            out.append(d.id)
        elif isinstance(d, ast.Attribute):
            out.append(dotted(d) or d.attr)
    return tuple(out)


def dotted(node: ast.AST) -> Optional[str]:
    if isinstance(node, ast.Name):
        return node.id
    if isinstance(node, ast.Attribute):
        b = dotted(node.value)
        return None if b is None else b + "." + node.attr
    return None


class Program:
    """All parsed modules of the package plus resolution helpers."""

    def __init__(self, src_root: str = SRC_ROOT, overlay: Optional[Dict[str, str]] = None):
        self.src_root = src_root
        self.overlay = overlay or {}
        self.modules: Dict[str, ModuleInfo] = {}
        self._subclasses: Optional[Dict[str, List[ClassInfo]]] = None
        self._load()

    # ------------------------------------------------------------------ loading
    def _load(self) -> None:
        pkg_root = os.path.join(self.src_root, PKG)
        if not os.path.isdir(pkg_root):
            raise AnalysisError(f"package root {pkg_root} not found")
        for dirpath, dirnames, filenames in os.walk(pkg_root):
            dirnames.sort()
            for fn in sorted(filenames):
                if not fn.endswith(".py"):
                    continue
                path = os.path.join(dirpath, fn)
                rel = os.path.relpath(path, self.src_root)
                parts = rel[:-3].split(os.sep)
                is_pkg = parts[-1] == "__init__"
                if is_pkg:
                    parts = parts[:-1]
                name = ".".join(parts)
                relpath = os.path.relpath(path, os.path.dirname(self.src_root))
                if relpath in self.overlay:
                    source = self.overlay[relpath]
                else:
                    with open(path, "r", encoding="utf-8") as f:
                        source = f.read()
                try:
                    tree = ast.parse(source, filename=path)
                except SyntaxError as e:
                    raise AnalysisError(f"cannot parse {relpath}: {e}")
                mi = ModuleInfo(name, path, relpath, source, tree, is_pkg)
                self.modules[name] = mi
                self._index_module(mi)

    def _index_module(self, mi: ModuleInfo) -> None:
        def visit_body(body, in_try=False):
            for st in body:
                if isinstance(st, (ast.FunctionDef, ast.AsyncFunctionDef)):
                    decos = _decorator_names(st)
                    if "overload" in decos or "typing.overload" in decos:
                        prev = mi.functions.get(st.name)
                        if prev is None:
                            mi.functions[st.name] = FunctionInfo(mi, st.name, st.name, st, None, decos, [st])
                        else:
                            prev.overloads.append(st)
                        continue
                    fi = FunctionInfo(mi, st.name, st.name, st, None, decos)
                    prev = mi.functions.get(st.name)
                    if prev is not None and prev.overloads:
                        fi.overloads = prev.overloads
                    mi.functions[st.name] = fi
                elif isinstance(st, ast.ClassDef):
                    mi.classes[st.name] = self._index_class(mi, st)
                elif isinstance(st, ast.Import):
                    for al in st.names:
                        if al.asname:
                            mi.imports[al.asname] = (al.name, None)
                        else:
                            top = al.name.split(".")[0]
                            mi.imports[top] = (top, None)
                elif isinstance(st, ast.ImportFrom):
                    base = self._resolve_relative(mi, st.module, st.level)
                    for al in st.names:
                        if al.name == "*":
                            continue
                        mi.imports[al.asname or al.name] = (base, al.name)
                elif isinstance(st, ast.Assign):
                    for t in st.targets:
                        if isinstance(t, ast.Name):
                            mi.consts[t.id] = st.value
                            if t.id == "__all__":
                                mi.all_names = _literal_str_list(st.value)
                elif isinstance(st, ast.AnnAssign) and isinstance(st.target, ast.Name) and st.value is not None:
                    mi.consts[st.target.id] = st.value
                elif isinstance(st, ast.Try):
                    visit_body(st.body, True)
                    for h in st.handlers:
                        visit_body(h.body, True)
                    visit_body(st.orelse, True)
                elif isinstance(st, ast.If):
                    visit_body(st.body, True)
                    visit_body(st.orelse, True)

        visit_body(mi.tree.body)

    def _index_class(self, mi: ModuleInfo, node: ast.ClassDef) -> ClassInfo:
        ci = ClassInfo(mi, node.name, node, base_exprs=list(node.bases))
        for st in node.body:
            if isinstance(st, (ast.FunctionDef, ast.AsyncFunctionDef)):
                decos = _decorator_names(st)
                qn = f"{node.name}.{st.name}"
                if "overload" in decos:
                    prev = ci.methods.get(st.name)
                    if prev is None:
                        ci.methods[st.name] = FunctionInfo(mi, st.name, qn, st, ci, decos, [st])
                    else:
                        prev.overloads.append(st)
                    continue
                if any(d.endswith(".setter") for d in decos):
                    ci.methods[st.name + ".setter"] = FunctionInfo(mi, st.name, qn + ".setter", st, ci, decos)
                    continue
                fi = FunctionInfo(mi, st.name, qn, st, ci, decos)
                prev = ci.methods.get(st.name)
                if prev is not None and prev.overloads:
                    fi.overloads = prev.overloads
                ci.methods[st.name] = fi
            elif isinstance(st, ast.Assign):
                for t in st.targets:
                    if isinstance(t, ast.Name):
                        ci.class_attrs[t.id] = st.value
            elif isinstance(st, ast.AnnAssign) and isinstance(st.target, ast.Name) and st.value is not None:
                ci.class_attrs[st.target.id] = st.value
        return ci

    def _resolve_relative(self, mi: ModuleInfo, module: Optional[str], level: int) -> str:
        if level == 0:
            return module or ""
        parts = mi.name.split(".")
        if not mi.is_pkg:
            parts = parts[:-1]
        if level > 1:
            parts = parts[: len(parts) - (level - 1)]
        if module:
            parts = parts + module.split(".")
        return ".".join(parts)

    # ------------------------------------------------------------------ lookup
    def module(self, name: str) -> ModuleInfo:
        if not name.startswith(PKG):
            name = f"{PKG}.{name}"
        try:
            return self.modules[name]
        except KeyError:
            raise AnalysisError(f"anchor module {name} not found")

    def func(self, module: str, qualname: str) -> FunctionInfo:
        mi = self.module(module)
        if "." in qualname:
            cname, mname = qualname.split(".", 1)
            ci = mi.classes.get(cname)
            if ci is None:
                raise AnalysisError(f"anchor class {module}:{cname} not found")
            fi = ci.methods.get(mname)
            if fi is None or (fi.overloads and fi.node in fi.overloads):
                raise AnalysisError(f"anchor method {module}:{qualname} not found")
            return fi
        fi = mi.functions.get(qualname)
        if fi is None or (fi.overloads and fi.node in fi.overloads):
            raise AnalysisError(f"anchor function {module}:{qualname} not found")
        return fi

    def try_func(self, module: str, qualname: str) -> Optional[FunctionInfo]:
        try:
            return self.func(module, qualname)
        except AnalysisError:
            return None

    def cls(self, module: str, name: str) -> ClassInfo:
        mi = self.module(module)
        ci = mi.classes.get(name)
        if ci is None:
            raise AnalysisError(f"anchor class {module}:{name} not found")
        return ci

    def all_functions(self) -> Iterator[FunctionInfo]:
        for mi in self.modules.values():
            for fi in mi.functions.values():
                if not (fi.overloads and fi.node in fi.overloads):
                    yield fi
            for ci in mi.classes.values():
                for fi in ci.methods.values():
                    if not (fi.overloads and fi.node in fi.overloads):
                        yield fi

    def all_classes(self) -> Iterator[ClassInfo]:
        for mi in self.modules.values():
            yield from mi.classes.values()

    # ------------------------------------------------------------------ name resolution
    def resolve_global(self, mi: ModuleInfo, name: str, _depth: int = 0):
        """Resolve a module-level name to FunctionInfo | ClassInfo | ModuleInfo | ('const', ModuleInfo, expr) |
        ('external', dotted) | None."""
        if _depth > 12:
            return None
        if name in mi.functions:
            return mi.functions[name]
        if name in mi.classes:
            return mi.classes[name]
        if name in mi.imports:
            modname, attr = mi.imports[name]
            if attr is None:
                if modname in self.modules:
                    return self.modules[modname]
                return ("external", modname)
            target = self.modules.get(modname)
            if target is None:
                # maybe "from . import affine" where modname is a package and attr a submodule
                sub = f"{modname}.{attr}" if modname else attr
                if sub in self.modules:
                    return self.modules[sub]
                return ("external", f"{modname}.{attr}")
            sub = f"{modname}.{attr}"
            if sub in self.modules and attr not in target.functions and attr not in target.classes \
                    and attr not in target.imports and attr not in target.consts:
                return self.modules[sub]
            r = self.resolve_global(target, attr, _depth + 1)
            if r is None and sub in self.modules:
                return self.modules[sub]
            return r
        if name in mi.consts:
            return ("const", mi, mi.consts[name])
        return None

    def resolve_expr(self, mi: ModuleInfo, node: ast.AST):
        """Resolve a Name / dotted Attribute expression at module scope."""
        if isinstance(node, ast.Name):
            return self.resolve_global(mi, node.id)
        if isinstance(node, ast.Attribute):
            base = self.resolve_expr(mi, node.value)
            if isinstance(base, ModuleInfo):
                r = self.resolve_global(base, node.attr)
                if r is None:
                    sub = f"{base.name}.{node.attr}"
                    if sub in self.modules:
                        return self.modules[sub]
                return r
            if isinstance(base, ClassInfo):
                m = self.find_method(base, node.attr)
                if m is not None:
                    return m
                for c in self.mro(base):
                    if node.attr in c.class_attrs:
                        return ("classattr", c, node.attr)
                return None
            if isinstance(base, tuple) and base[0] == "external":
                return ("external", base[1] + "." + node.attr)
        return None

    # ------------------------------------------------------------------ classes
    def bases(self, ci: ClassInfo) -> List[ClassInfo]:
        if ci._bases is None:
            out = []
            ext = []
            for b in ci.base_exprs:
                if isinstance(b, ast.Subscript):
                    b = b.value
                r = self.resolve_expr(ci.module, b)
                if isinstance(r, ClassInfo):
                    out.append(r)
                else:
                    d = dotted(b)
                    if isinstance(r, tuple) and r[0] == "external":
                        d = r[1]
                    if d:
                        ext.append(d)
            ci._bases = out
            ci.external_bases = ext
        return ci._bases

    def mro(self, ci: ClassInfo) -> List[ClassInfo]:
        if ci._mro is None:
            ci._mro = self._c3(ci)
        return ci._mro

    def _c3(self, ci: ClassInfo) -> List[ClassInfo]:
        bases = self.bases(ci)
        seqs = [list(self.mro(b)) for b in bases] + [list(bases)]
        out = [ci]
        while True:
            seqs = [s for s in seqs if s]
            if not seqs:
                return out
            for s in seqs:
                cand = s[0]
                if not any(cand in t[1:] for t in seqs):
                    break
            else:
                raise AnalysisError(f"inconsistent MRO for {ci.key}")
            out.append(cand)
            for s in seqs:
                if s and s[0] == cand:
                    del s[0]

    def all_external_bases(self, ci: ClassInfo) -> List[str]:
        out = []
        for c in self.mro(ci):
            self.bases(c)
            out.extend(c.external_bases)
        return out

    def is_module_class(self, ci: ClassInfo) -> bool:
        """Whether class derives from torch.nn.Module."""
        return any(e.endswith("nn.Module") or e == "Module" or e.endswith(".Module") for e in self.all_external_bases(ci))

    def is_subclass(self, ci: ClassInfo, other: ClassInfo) -> bool:
        return other in self.mro(ci)

    def subclasses(self, ci: ClassInfo, strict: bool = False) -> List[ClassInfo]:
        out = []
        for c in self.all_classes():
            if ci in self.mro(c) and (not strict or c != ci):
                out.append(c)
        return out

    def find_method(self, ci: ClassInfo, name: str, after: Optional[ClassInfo] = None) -> Optional[FunctionInfo]:
        mro = self.mro(ci)
        if after is not None:
            if after in mro:
                mro = mro[mro.index(after) + 1:]
            else:
                mro = self.mro(after)[1:]
        for c in mro:
            fi = c.methods.get(name)
            if fi is not None and not (fi.overloads and fi.node in fi.overloads):
                return fi
        return None

    def overrides(self, ci: ClassInfo, name: str) -> List[FunctionInfo]:
        """All implementations of method ``name`` visible on ``ci`` or any subclass."""
        seen = []
        for c in self.subclasses(ci):
            fi = self.find_method(c, name)
            if fi is not None and fi not in seen:
                seen.append(fi)
        return seen

    def is_abstract(self, ci: ClassInfo) -> bool:
        """Conservative: a class is abstract if some method visible on it is decorated abstractmethod."""
        seen = set()
        for c in self.mro(ci):
            for n, fi in c.methods.items():
                if n in seen:
                    continue
                seen.add(n)
                if "abstractmethod" in fi.decorators:
                    return True
        return False


def _literal_str_list(node: ast.expr) -> Optional[List[str]]:
    if isinstance(node, (ast.Tuple, ast.List)):
        out = []
        for e in node.elts:
            if isinstance(e, ast.Constant) and isinstance(e.value, str):
                out.append(e.value)
            else:
                return None
        return out
    return None


def walk_no_nested(node: ast.AST) -> Iterator[ast.AST]:
    """Walk a function body without descending into nested function/class definitions (lambdas are descended)."""
    stack = list(ast.iter_child_nodes(node))
    while stack:
        n = stack.pop()
        yield n
        if isinstance(n, (ast.FunctionDef, ast.AsyncFunctionDef, ast.ClassDef)):
            continue
        stack.extend(ast.iter_child_nodes(n))


def norm_src(node: ast.AST) -> str:
    """Normalised source text of a node (formatting-independent)."""
    return ast.unparse(node)


_PROGRAM_CACHE: Dict[int, Program] = {}


def load_program(overlay: Optional[Dict[str, str]] = None) -> Program:
    return Program(SRC_ROOT, overlay)
