"""Host model of ``torch.nn.Module`` semantics for the abstract evaluator (trusted base; documented torch behaviour).

Implements exactly what deepali's transform/module code relies on: ``Module.__init__`` containers, ``__setattr__`` /
``__getattr__`` / ``__delattr__`` routing between ``_parameters`` / ``_buffers`` / ``_modules`` / ``__dict__`` (including
the TypeErrors torch raises for kind conflicts), ``register_buffer``, forward pre-hooks and ``__call__``, parameter/buffer
iteration, ``ModuleDict`` / ``ModuleList``, and ``torch.nn.Parameter``.
"""
from __future__ import annotations

from collections import OrderedDict
from typing import Any, Callable, Dict, Iterator, List, Optional, Tuple

from .symt import InterpError, STensor, Unsupported


class Param(STensor):
    """torch.nn.Parameter: a tensor that shares storage with its data and is registered in ``_parameters`` on assignment."""

    __slots__ = ()

    def __init__(self, data: STensor, requires_grad: bool = True):
        STensor.__init__(self, data.store, list(data.idx), data.shape, data.dtype)
        self.requires_grad = bool(requires_grad)

    def __repr__(self):
        return f"Parameter({self.tolist()})"


def make_parameter(data=None, requires_grad=True):
    if not isinstance(data, STensor):
        raise Unsupported("Parameter() of non-tensor")
    return Param(data, requires_grad)


class HookHandle:
    def __init__(self, table: "OrderedDict", key: int):
        self.table = table
        self.key = key

    def remove(self):
        self.table.pop(self.key, None)


class HModuleDict:
    """torch.nn.ModuleDict"""

    is_module = True

    def __init__(self, modules=None):
        self._modules: "OrderedDict[str, Any]" = OrderedDict()
        if modules is not None:
            self.update(modules)

    def update(self, modules):
        items = modules.items() if hasattr(modules, "items") else modules
        for k, v in items:
            self[k] = v

    def __setitem__(self, k, v):
        if not isinstance(k, str):
            raise InterpError("TypeError", f"module name should be a string. Got {type(k).__name__}")
        self._modules[k] = v

    def __getitem__(self, k):
        try:
            return self._modules[k]
        except KeyError:
            raise InterpError("KeyError", str(k))

    def __delitem__(self, k):
        del self._modules[k]

    def __contains__(self, k):
        return k in self._modules

    def __len__(self):
        return len(self._modules)

    def __iter__(self):
        return iter(self._modules)

    def keys(self):
        return self._modules.keys()

    def values(self):
        return self._modules.values()

    def items(self):
        return self._modules.items()

    def pop(self, k):
        return self._modules.pop(k)

    def __copy__(self):
        c = HModuleDict()
        c._modules = self._modules  # nn.Module has no __copy__: copy.copy shares the container dicts
        return c


class HModuleList:
    """torch.nn.ModuleList"""

    is_module = True

    def __init__(self, modules=None):
        self._list: List[Any] = list(modules) if modules is not None else []

    @property
    def _modules(self):
        return OrderedDict((str(i), m) for i, m in enumerate(self._list))

    def append(self, m):
        self._list.append(m)
        return self

    def extend(self, ms):
        self._list.extend(ms)
        return self

    def __getitem__(self, i):
        return self._list[i]

    def __len__(self):
        return len(self._list)

    def __iter__(self):
        return iter(self._list)


MODULE_CONTAINERS = ("_parameters", "_buffers", "_non_persistent_buffers_set", "_modules", "_forward_pre_hooks", "_forward_hooks")


def module_init(obj) -> None:
    """torch.nn.Module.__init__"""
    a = obj.attrs
    a["training"] = True
    a["_parameters"] = OrderedDict()
    a["_buffers"] = OrderedDict()
    a["_non_persistent_buffers_set"] = set()
    a["_modules"] = OrderedDict()
    a["_forward_pre_hooks"] = OrderedDict()
    a["_forward_hooks"] = OrderedDict()


def is_module_value(v) -> bool:
    return getattr(v, "is_module", False) is True


def module_setattr(obj, name: str, value) -> None:
    """torch.nn.Module.__setattr__ (documented routing and errors)."""
    a = obj.attrs
    params = a.get("_parameters")

    def remove_from(*names):
        for n in names:
            c = a.get(n)
            if c is None:
                continue
            if isinstance(c, set):
                c.discard(name)
            elif name in c:
                del c[name]
        a.pop(name, None) if "__dict__" in names else None

    tname = type(obj).__name__
    if isinstance(value, Param):
        if params is None:
            raise InterpError("AttributeError", "cannot assign parameters before Module.__init__() call")
        if name in a:
            del a[name]
        remove_from("_buffers", "_modules", "_non_persistent_buffers_set")
        params[name] = value
        return
    if params is not None and name in params:
        if value is not None:
            raise InterpError("TypeError", f"cannot assign '{_tn(value)}' as parameter '{name}' (torch.nn.Parameter or None expected)")
        params[name] = None
        return
    modules = a.get("_modules")
    if is_module_value(value):
        if modules is None:
            raise InterpError("AttributeError", "cannot assign module before Module.__init__() call")
        if name in a:
            del a[name]
        remove_from("_parameters", "_buffers", "_non_persistent_buffers_set")
        modules[name] = value
        return
    if modules is not None and name in modules:
        if value is not None:
            raise InterpError("TypeError", f"cannot assign '{_tn(value)}' as child module '{name}' (torch.nn.Module or None expected)")
        modules[name] = None
        return
    buffers = a.get("_buffers")
    if buffers is not None and name in buffers:
        if value is not None and not isinstance(value, STensor):
            raise InterpError("TypeError", f"cannot assign '{_tn(value)}' as buffer '{name}' (torch.Tensor or None expected)")
        buffers[name] = value
        return
    a[name] = value


def _tn(v) -> str:
    return type(v).__name__


_MISSING = object()


def module_getattr_fallback(obj, name: str):
    """torch.nn.Module.__getattr__: consulted after normal lookup failed."""
    a = obj.attrs
    for c in ("_parameters", "_buffers", "_modules"):
        d = a.get(c)
        if d is not None and name in d:
            return d[name]
    return _MISSING


def module_delattr(obj, name: str) -> None:
    a = obj.attrs
    p, b, m = a.get("_parameters"), a.get("_buffers"), a.get("_modules")
    if p is not None and name in p:
        del p[name]
    elif b is not None and name in b:
        del b[name]
        a.get("_non_persistent_buffers_set", set()).discard(name)
    elif m is not None and name in m:
        del m[name]
    elif name in a:
        del a[name]
    else:
        raise InterpError("AttributeError", name)


def register_buffer(obj, name: str, tensor, persistent: bool = True) -> None:
    a = obj.attrs
    if "_buffers" not in a:
        raise InterpError("AttributeError", "cannot assign buffer before Module.__init__() call")
    if not isinstance(name, str):
        raise InterpError("TypeError", "buffer name should be a string")
    if name in a or name in a["_parameters"] or name in a["_modules"]:
        if name not in a["_buffers"]:
            raise InterpError("KeyError", f"attribute '{name}' already exists")
    if tensor is not None and not isinstance(tensor, STensor):
        raise InterpError("TypeError", f"cannot assign '{_tn(tensor)}' object to buffer '{name}' (torch Tensor or None required)")
    a["_buffers"][name] = tensor
    if persistent:
        a["_non_persistent_buffers_set"].discard(name)
    else:
        a["_non_persistent_buffers_set"].add(name)


def register_parameter(obj, name: str, param) -> None:
    a = obj.attrs
    if "_parameters" not in a:
        raise InterpError("AttributeError", "cannot assign parameter before Module.__init__() call")
    if param is not None and not isinstance(param, Param):
        raise InterpError("TypeError", f"cannot assign '{_tn(param)}' object to parameter '{name}'")
    if name in a and name not in a["_parameters"]:
        raise InterpError("KeyError", f"attribute '{name}' already exists")
    a["_parameters"][name] = param


def children(obj) -> Iterator[Tuple[str, Any]]:
    mods = obj.attrs.get("_modules") if hasattr(obj, "attrs") else getattr(obj, "_modules", None)
    for k, m in (mods or {}).items():
        if m is not None:
            yield k, m


def named_members(obj, which: str, prefix: str = "", seen=None, recurse: bool = True, _mods=None) -> Iterator[Tuple[str, Any]]:
    seen = seen if seen is not None else set()
    _mods = _mods if _mods is not None else set()
    if id(obj) in _mods:  # torch walks named_modules() with a memo: a module reachable twice (or from itself) is visited once
        return
    _mods.add(id(obj))
    if hasattr(obj, "attrs"):
        for k, v in (obj.attrs.get(which) or {}).items():
            if v is None or id(v) in seen:
                continue
            seen.add(id(v))
            yield prefix + k, v
    if recurse:
        for k, m in children(obj):
            yield from named_members(m, which, prefix + k + ".", seen, True, _mods)


def named_modules(obj, prefix: str = "", seen=None) -> Iterator[Tuple[str, Any]]:
    seen = seen if seen is not None else set()
    if id(obj) in seen:
        return
    seen.add(id(obj))
    yield prefix, obj
    for k, m in children(obj):
        yield from named_modules(m, (prefix + "." if prefix else "") + k, seen)
