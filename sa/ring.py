"""E5: exact ring normal forms.

``Poly``  — sparse multivariate polynomials over ``Fraction`` in named atoms, normalised modulo a table of
square relations ``atom**2 -> polynomial`` (``sin**2 -> 1 - cos**2``, ``sqrt(P)**2 -> P``, unit-norm relations).
``Rat``   — rational functions ``num/den`` compared by cross multiplication; denominators are kept small by exact
division against the factors that were actually divided by.

Own code on purpose (no sympy): small, deterministic, and clearly a canonicaliser rather than a solver.
"""
from __future__ import annotations

import functools
from fractions import Fraction
from typing import Dict, Iterable, List, Optional, Tuple, Union

Mono = Tuple[Tuple[str, int], ...]  # sorted ((atom, exp), ...)
Num = Union[int, Fraction]

# atom -> Poly that atom**2 rewrites to (set through ``declare_square``)
_SQUARE: Dict[str, "Poly"] = {}


def declare_square(atom: str, value: "Poly") -> None:
    _SQUARE[atom] = value


_RESET_HOOKS = []


def reset_relations() -> None:
    """Start a fresh symbolic session: forget all relations and every cache that depends on them."""
    _SQUARE.clear()
    for h in _RESET_HOOKS:
        h()


def _mono_mul(a: Mono, b: Mono) -> Mono:
    if not a:
        return b
    if not b:
        return a
    d = dict(a)
    for k, e in b:
        d[k] = d.get(k, 0) + e
    return tuple(sorted(d.items()))


class Poly:
    __slots__ = ("terms",)

    def __init__(self, terms: Optional[Dict[Mono, Fraction]] = None):
        self.terms: Dict[Mono, Fraction] = terms or {}

    # ---- constructors
    @staticmethod
    def const(c: Num) -> "Poly":
        c = Fraction(c)
        return Poly({(): c} if c != 0 else {})

    @staticmethod
    def atom(name: str) -> "Poly":
        return Poly({((name, 1),): Fraction(1)})

    # ---- queries
    def is_zero(self) -> bool:
        return not self.terms

    def is_const(self) -> bool:
        return not self.terms or (len(self.terms) == 1 and () in self.terms)

    def const_value(self) -> Fraction:
        return self.terms.get((), Fraction(0))

    def atoms(self) -> set:
        return {a for m in self.terms for a, _ in m}

    def degree(self) -> int:
        return max((sum(e for _, e in m) for m in self.terms), default=0)

    # ---- arithmetic
    def __add__(self, o: "Poly") -> "Poly":
        t = dict(self.terms)
        for m, c in o.terms.items():
            v = t.get(m, 0) + c
            if v == 0:
                t.pop(m, None)
            else:
                t[m] = v
        return Poly(t)

    def __neg__(self) -> "Poly":
        return Poly({m: -c for m, c in self.terms.items()})

    def __sub__(self, o: "Poly") -> "Poly":
        return self + (-o)

    def scale(self, c: Num) -> "Poly":
        c = Fraction(c)
        if c == 0:
            return Poly()
        return Poly({m: v * c for m, v in self.terms.items()})

    def __mul__(self, o: "Poly") -> "Poly":
        if not self.terms or not o.terms:
            return Poly()
        t: Dict[Mono, Fraction] = {}
        for m1, c1 in self.terms.items():
            for m2, c2 in o.terms.items():
                m = _mono_mul(m1, m2)
                v = t.get(m, 0) + c1 * c2
                if v == 0:
                    t.pop(m, None)
                else:
                    t[m] = v
        return Poly(t).reduce()

    def __pow__(self, n: int) -> "Poly":
        assert n >= 0
        r = Poly.const(1)
        b = self
        while n:
            if n & 1:
                r = r * b
            b = b * b if n > 1 else b
            n >>= 1
        return r

    def reduce(self) -> "Poly":
        """Normalise modulo the declared square relations (work-list over offending monomials only)."""
        if not _SQUARE:
            return self
        sq = _SQUARE
        work = []
        out: Dict[Mono, Fraction] = {}
        for m, c in self.terms.items():
            for a, e in m:
                if e >= 2 and a in sq:
                    work.append((m, c))
                    break
            else:
                out[m] = c
        if not work:
            return self
        guard = 0
        while work:
            guard += 1
            if guard > 2000000:
                raise ArithmeticError("relation reduction did not terminate")
            m, c = work.pop()
            for i, (a, e) in enumerate(m):
                if e >= 2 and a in sq:
                    rest = m[:i] + (((a, e - 2),) if e > 2 else ()) + m[i + 1:]
                    for m2, c2 in sq[a].terms.items():
                        work.append((_mono_mul(rest, m2), c * c2))
                    break
            else:
                v = out.get(m, 0) + c
                if v == 0:
                    out.pop(m, None)
                else:
                    out[m] = v
        return Poly(out)

    def __eq__(self, o) -> bool:
        return isinstance(o, Poly) and self.terms == o.terms

    def __hash__(self) -> int:
        return hash(frozenset(self.terms.items()))

    def key(self) -> Tuple:
        return tuple(sorted(self.terms.items()))

    # ---- leading term (lex order on sorted monomials) and exact division
    def lead(self) -> Tuple[Mono, Fraction]:
        m = min(self.terms, key=_lexkey)
        return m, self.terms[m]

    def divexact(self, d: "Poly") -> Optional["Poly"]:
        """Quotient if ``d`` divides ``self`` exactly (as plain polynomials), else None."""
        if d.is_zero():
            return None
        if d.is_const():
            return self.scale(1 / d.const_value())
        if self.is_zero():
            return Poly()
        q = Poly()
        r = Poly(dict(self.terms))
        dm, dc = d.lead()
        guard = 0
        while not r.is_zero():
            guard += 1
            if guard > 20000:
                return None
            rm, rc = r.lead()
            qm = _mono_div(rm, dm)
            if qm is None:
                return None
            t = Poly({qm: rc / dc})
            q = q + t
            r = r - _raw_mul(t, d)
        return q

    def content_normalised(self) -> Tuple["Poly", Fraction]:
        """Return (p / lc, lc) where lc is the leading coefficient (so that factors compare up to scalar)."""
        if self.is_zero():
            return self, Fraction(1)
        _, c = self.lead()
        return self.scale(1 / c), c

    def subs(self, mapping: Dict[str, "Poly"]) -> "Poly":
        out = Poly()
        for m, c in self.terms.items():
            t = Poly.const(c)
            for a, e in m:
                t = t * ((mapping[a] if a in mapping else Poly.atom(a)) ** e)
            out = out + t
        return out.reduce()

    def __repr__(self) -> str:
        return poly_str(self)


def _raw_mul(a: Poly, b: Poly) -> Poly:
    t: Dict[Mono, Fraction] = {}
    for m1, c1 in a.terms.items():
        for m2, c2 in b.terms.items():
            m = _mono_mul(m1, m2)
            v = t.get(m, 0) + c1 * c2
            if v == 0:
                t.pop(m, None)
            else:
                t[m] = v
    return Poly(t)


@functools.lru_cache(maxsize=1 << 20)
def _lexkey(m: Mono):
    """Graded lexicographic monomial order (a valid admissible order): the *smallest* key is the leading monomial."""
    exp = []
    for a, e in m:
        exp.extend([a] * e)
    return (-len(exp), tuple(exp))


def _mono_div(a: Mono, b: Mono) -> Optional[Mono]:
    d = dict(a)
    for k, e in b:
        if d.get(k, 0) < e:
            return None
        d[k] -= e
        if d[k] == 0:
            del d[k]
    return tuple(sorted(d.items()))


def poly_str(p: Poly) -> str:
    if p.is_zero():
        return "0"
    parts = []
    for m, c in sorted(p.terms.items(), key=lambda x: _lexkey(x[0])):
        mon = "*".join(a if e == 1 else f"{a}^{e}" for a, e in m)
        if not mon:
            parts.append(str(c))
        elif c == 1:
            parts.append(mon)
        elif c == -1:
            parts.append("-" + mon)
        else:
            parts.append(f"{c}*{mon}")
    return " + ".join(parts).replace("+ -", "- ")


class Rat:
    """Rational function num/den (den non-zero polynomial, kept monic-normalised where cheap)."""

    __slots__ = ("num", "den")

    def __init__(self, num: Poly, den: Optional[Poly] = None):
        if den is None:
            den = Poly.const(1)
        if den.is_zero():
            raise ZeroDivisionError("symbolic division by zero")
        if den.is_const():
            c = den.const_value()
            if c != 1:
                num = num.scale(1 / c)
                den = Poly.const(1)
        elif num.is_zero():
            den = Poly.const(1)
        else:
            q = num.divexact(den)
            if q is not None and not _SQUARE_atoms_in(den):
                num, den = q, Poly.const(1)
            else:
                den, c = den.content_normalised()
                if c != 1:
                    num = num.scale(1 / c)
        self.num = num
        self.den = den

    @staticmethod
    def of(x) -> "Rat":
        if isinstance(x, Rat):
            return x
        if isinstance(x, Poly):
            return Rat(x)
        if isinstance(x, bool):
            return Rat(Poly.const(int(x)))
        if isinstance(x, (int, Fraction)):
            return Rat(Poly.const(x))
        if isinstance(x, float):
            return Rat(Poly.const(float_to_fraction(x)))
        raise TypeError(f"cannot make Rat from {type(x).__name__}")

    @staticmethod
    def atom(name: str) -> "Rat":
        return Rat(Poly.atom(name))

    def is_const(self) -> bool:
        return self.den.is_const() and self.num.is_const()

    def const_value(self) -> Fraction:
        return self.num.const_value() / self.den.const_value()

    def is_zero(self) -> bool:
        return self.num.is_zero()

    def __add__(self, o) -> "Rat":
        o = Rat.of(o)
        if self.den == o.den:
            return Rat(self.num + o.num, self.den)
        # try lcm when one denominator divides the other
        q = self.den.divexact(o.den) if not o.den.is_const() else None
        if o.den.is_const():
            return Rat(self.num + o.num * self.den, self.den)
        if self.den.is_const():
            return Rat(self.num * o.den + o.num, o.den)
        if q is not None:
            return Rat(self.num + o.num * q, self.den)
        q2 = o.den.divexact(self.den)
        if q2 is not None:
            return Rat(self.num * q2 + o.num, o.den)
        return Rat(self.num * o.den + o.num * self.den, self.den * o.den)

    __radd__ = __add__

    def __neg__(self) -> "Rat":
        return Rat(-self.num, self.den)

    def __sub__(self, o) -> "Rat":
        return self + (-Rat.of(o))

    def __rsub__(self, o) -> "Rat":
        return Rat.of(o) + (-self)

    def __mul__(self, o) -> "Rat":
        o = Rat.of(o)
        n1, d1, n2, d2 = self.num, self.den, o.num, o.den
        # cross-cancel
        if not d2.is_const():
            q = n1.divexact(d2)
            if q is not None and not _SQUARE_atoms_in(d2):
                n1, d2 = q, Poly.const(1)
        if not d1.is_const():
            q = n2.divexact(d1)
            if q is not None and not _SQUARE_atoms_in(d1):
                n2, d1 = q, Poly.const(1)
        return Rat(n1 * n2, d1 * d2)

    __rmul__ = __mul__

    def inv(self) -> "Rat":
        if self.num.is_zero():
            raise ZeroDivisionError("symbolic division by zero")
        return Rat(self.den, self.num)

    def __truediv__(self, o) -> "Rat":
        return self * Rat.of(o).inv()

    def __rtruediv__(self, o) -> "Rat":
        return Rat.of(o) * self.inv()

    def __pow__(self, n) -> "Rat":
        if isinstance(n, Rat):
            if not n.is_const():
                raise TypeError("symbolic exponent")
            n = n.const_value()
        n = Fraction(n)
        if n.denominator != 1:
            raise TypeError("non-integer exponent")
        n = int(n)
        if n >= 0:
            return Rat(self.num ** n, self.den ** n)
        return Rat(self.den ** (-n), self.num ** (-n))

    def equals(self, o) -> bool:
        o = Rat.of(o)
        if self.den.terms == o.den.terms:
            return self.num.terms == o.num.terms
        return (self.num * o.den - o.num * self.den).is_zero()

    def __eq__(self, o) -> bool:
        try:
            return self.equals(o)
        except TypeError:
            return False

    def __hash__(self) -> int:
        return hash((self.num, self.den))

    def atoms(self) -> set:
        return self.num.atoms() | self.den.atoms()

    def subs(self, mapping: Dict[str, "Rat"]) -> "Rat":
        """Substitute atoms by rational functions."""
        def sub_poly(p: Poly) -> Rat:
            out = Rat.of(0)
            for m, c in p.terms.items():
                t = Rat.of(c)
                for a, e in m:
                    t = t * ((mapping[a] if a in mapping else Rat.atom(a)) ** e)
                out = out + t
            return out
        return sub_poly(self.num) / sub_poly(self.den)

    def __repr__(self) -> str:
        if self.den.is_const() and self.den.const_value() == 1:
            return poly_str(self.num)
        return f"({poly_str(self.num)})/({poly_str(self.den)})"


def _SQUARE_atoms_in(p: Poly) -> bool:
    return bool(_SQUARE) and any(a in _SQUARE for a in p.atoms())


def float_to_fraction(x: float) -> Fraction:
    """Read a float literal as the exact rational its shortest repr denotes (0.1 -> 1/10)."""
    if x != x or x in (float("inf"), float("-inf")):
        raise ValueError("non-finite float")
    return Fraction(repr(x))
