"""E8 — gradient-flow (taint) analysis: does the value a differentiable operation returns depend on one of its differentiable
inputs (tensor arguments; a module's parameters) through an operation that cuts or falsifies the autograd graph?

Gradient blockers (autograd's result differs from the true derivative even at generic inputs):
  .detach() / .detach_() / .data / .item() / .tolist() / .numpy() / float(t) / int(t) / requires_grad_(False) / requires_grad = False,
  code under ``torch.no_grad()`` (context manager or decorator), rounding to decimals (deepali.core.math.round_decimals with a
  non-zero number of decimals, torch.round(..., decimals=k)): the rounded function is piecewise constant at a scale far below any
  finite-difference step, so autograd returns 0 where the function has slope 1.
NOT blockers (piecewise constant at the sample scale: derivative 0 almost everywhere, which autograd reports correctly): round to
integer, floor, ceil, trunc, sign, comparisons, argmax/argmin, integer casts.

The analysis is a flow-sensitive walk of each function with summaries over resolved repo callees (specialised on constant
arguments, e.g. ``decimals=None``), field-insensitive for containers, and with a per-concrete-class table of buffer attributes
that are computed from the module state through a blocker (``update()`` writes, ``tensor()`` reads).  Only *value* dependence is
tracked: shapes, dtypes, sizes, comparisons and control conditions carry no taint.
"""
from __future__ import annotations

import ast
from dataclasses import dataclass, field
from typing import Any, Dict, FrozenSet, Iterable, List, Optional, Set, Tuple

from .core import Ctx
from .index import AnalysisError, ClassInfo, FunctionInfo, Program, dotted, walk_no_nested

Elem = Tuple[str, Optional[str]]  # (origin, via): origin "P:<param>" or "S" (module state); via = blocker site or None
Taint = FrozenSet[Elem]
EMPTY: Taint = frozenset()

BLOCK_METHODS = {"detach", "detach_", "item", "tolist", "numpy", "_make_subclass"}  # (_make_subclass: new autograd leaf on shared storage)
NONVALUE_ATTRS = {"shape", "ndim", "dtype", "device", "requires_grad", "is_cuda", "is_leaf", "layout", "names", "grad_fn", "__class__",
                  "__name__", "training", "is_sparse", "indices"}
NONVALUE_METHODS = {"size", "dim", "numel", "nelement", "is_floating_point", "is_contiguous", "is_complex", "element_size", "stride",
                    "storage_offset", "data_ptr", "get_device", "is_pinned", "ndimension", "type_as_str", "keys", "startswith", "endswith",
                    "lower", "upper", "strip", "format", "join", "isnan_any", "has_parameters", "align_corners", "ndim", "is_same_size"}
VALUE_FREE_FUNCS = {"zeros", "ones", "empty", "zeros_like", "ones_like", "empty_like", "rand", "randn", "rand_like",
                    "randn_like", "eye", "meshgrid", "triu_indices", "tril_indices", "device", "Size", "finfo", "iinfo",
                    "is_tensor", "is_floating_point", "is_grad_enabled", "get_default_dtype", "manual_seed", "broadcast_shapes",
                    "promote_types", "result_type", "numel"}
PASS_BUILTINS = {"max", "min", "sum", "abs", "zip", "enumerate", "reversed", "sorted", "list", "tuple", "dict", "set", "iter", "next",
                 "map", "filter", "pow", "round", "divmod", "cast", "slice", "frozenset"}
NONVALUE_BUILTINS = {"len", "isinstance", "issubclass", "type", "range", "hasattr", "callable", "id", "str", "repr", "print", "bool",
                     "super", "vars", "dir", "hash", "ord", "chr", "any", "all", "open", "format", "object"}
SCALAR_BUILTINS = {"float", "int", "complex"}
INDEX_METHODS = {"argmin", "argmax", "argsort", "nonzero", "long", "int", "bool", "byte", "short", "char", "isnan", "isinf", "isfinite",
                 "lt", "le", "gt", "ge", "eq", "ne", "logical_and", "logical_or", "logical_not", "sign", "floor", "ceil", "trunc",
                 "count_nonzero", "any", "all", "allclose", "equal"}  # integer / boolean valued: derivative 0 a.e., no gradient carried
INT_DTYPES = {"int", "long", "int8", "int16", "int32", "int64", "uint8", "bool", "short"}
NONDIFF_ATTR_TYPES = ("bool", "str", "None")  # (python numbers may have been extracted from tensors: they keep their taint)
NONDIFF_CLASSES = ("Grid", "Cube", "Axes", "Sampling", "PaddingMode", "SpatialDim", "FlowDerivativeKeys", "SpatialDerivativeKeys")
BLOCKER_FUNCS = {"deepali.core.math:round_decimals": "decimals"}  # blocks unless the named argument is the constant 0 / None

# constant arguments on which summaries are specialised (kept small: every flag multiplies the number of summaries)
FLAG_NAMES = {"decimals"}

UNKNOWN = object()


def block(t: Taint, via: str) -> Taint:
    return frozenset((o, v if v is not None else via) for o, v in t)


def join(*ts: Taint) -> Taint:
    if len(ts) == 1:
        return ts[0]
    out: Set[Elem] = set()
    for t in ts:
        out |= t
    if len(out) <= 8:
        return frozenset(out)
    # keep at most four blocker sites per origin (deterministic choice) plus the unblocked element
    per: Dict[str, List[str]] = {}
    res: Set[Elem] = set()
    for o, v in sorted(out, key=lambda e: (e[0], e[1] or "")):
        if v is None:
            res.add((o, None))
        else:
            lst = per.setdefault(o, [])
            if len(lst) < 4:
                lst.append(v)
                res.add((o, v))
    return frozenset(res)


@dataclass
class Summary:
    returns: Taint = EMPTY
    self_writes: Dict[str, Taint] = field(default_factory=dict)
    nograd: bool = False


def _const(node: ast.AST):
    if isinstance(node, ast.Constant):
        return node.value
    if isinstance(node, ast.UnaryOp) and isinstance(node.op, ast.USub) and isinstance(node.operand, ast.Constant) \
            and isinstance(node.operand.value, (int, float)):
        return -node.operand.value
    return UNKNOWN


def _is_nograd_decorated(fi: FunctionInfo) -> bool:
    for d in fi.node.decorator_list:
        t = d.func if isinstance(d, ast.Call) else d
        n = dotted(t) or ""
        if n.endswith("no_grad"):
            return True
    return False


class GradFlow:
    def __init__(self, ctx: Ctx):
        self.ctx = ctx
        self.prog: Program = ctx.prog
        self.ti = ctx.ti
        self.summaries: Dict[Tuple, Summary] = {}
        self._in_progress: Set[Tuple] = set()
        self.prev: Dict[Tuple, Summary] = {}
        self._touching: Set[str] = set()
        self.changed = False
        self.rounds = 0
        self.state: Dict[Tuple[str, str], Optional[str]] = {}  # (class key, attr) -> blocker via (or absent)
        self.state_seen: set = set()  # (class key, attr) written on the evaluation path from the module's own state (blocked or not)
        self._state_done: Set[str] = set()
        self.functions_seen: Set[str] = set()
        self.call_sites = 0
        self.blocker_sites: Set[str] = set()

    def is_enum(self, ci: ClassInfo) -> bool:
        return any(c.name in ("Enum", "IntEnum", "Flag") for c in self.prog.mro(ci)) or \
            any((dotted(b) or "").split(".")[-1] in ("Enum", "IntEnum", "Flag") for c in self.prog.mro(ci) for b in c.node.bases)

    def eval_path_methods(self, K: ClassInfo) -> List[FunctionInfo]:
        """Methods of K on the differentiable evaluation path: forward/tensor/... and update, closed under self-calls."""
        start = ["forward", "tensor", "disp", "points", "update", "matrix", "angles", "scales", "offset", "quaternion", "flow", "loss",
                 "evaluate_spline", "__call__", "data", "_data"]
        todo = [n for n in start if self.prog.find_method(K, n) is not None]
        seen: Dict[str, FunctionInfo] = {}
        while todo:
            n = todo.pop()
            if n in seen:
                continue
            candidates = []
            m = self.prog.find_method(K, n)
            while m is not None:
                candidates.append(m)
                m = self.prog.find_method(K, n, after=m.cls)
            if not candidates:
                continue
            seen[n] = candidates[0]
            for m in candidates:
                if m.is_static or m.is_classmethod:
                    continue
                args = m.node.args.posonlyargs + m.node.args.args
                if not args:
                    continue
                sn = args[0].arg
                for node in walk_no_nested(m.node):
                    if isinstance(node, ast.Attribute) and isinstance(node.value, ast.Name) and node.value.id == sn:
                        mm = self.prog.find_method(K, node.attr)
                        if mm is not None and node.attr not in seen:
                            todo.append(node.attr)
                    elif isinstance(node, ast.Call) and isinstance(node.func, ast.Attribute) and isinstance(node.func.value, ast.Call) \
                            and dotted(node.func.value.func) == "super" and node.func.attr not in seen:
                        todo.append(node.func.attr)
        out = []
        for n, m in seen.items():
            mm = m
            while mm is not None:
                out.append(mm)
                mm = self.prog.find_method(K, n, after=mm.cls)
        return out

    # ------------------------------------------------------------------ class state
    def prepare_class(self, K: ClassInfo) -> None:
        """(Per round) analyse the evaluation-path methods of concrete class K and record buffer attributes that are written
        from the module state through a blocker."""
        if K.key in self._state_done or K.key in self._touching:
            return
        self._touching.add(K.key)
        try:
            methods = [m for m in self.eval_path_methods(K) if not m.is_static and not m.is_classmethod]
            for m in methods:
                s = self._analyse(m, K, self._default_flags(m))
                for attr, t in s.self_writes.items():
                    if any(o == "S" for o, v in t):
                        self.state_seen.add((K.key, attr))
                    vias = sorted(v for o, v in t if v is not None and o == "S")
                    if vias and self.state.get((K.key, attr)) is None:
                        self.state[(K.key, attr)] = vias[0]
                        self.changed = True
        finally:
            self._touching.discard(K.key)
        self._state_done.add(K.key)

    # ------------------------------------------------------------------ summaries
    def _default_flags(self, fi: FunctionInfo) -> Dict[str, Any]:
        flags: Dict[str, Any] = {}
        a = fi.node.args
        pos = a.posonlyargs + a.args
        for p, d in zip(pos[len(pos) - len(a.defaults):], a.defaults):
            c = _const(d)
            if p.arg in FLAG_NAMES and c is not UNKNOWN and (c is None or isinstance(c, (bool, int, str))):
                flags[p.arg] = c
        for p, d in zip(a.kwonlyargs, a.kw_defaults):
            if d is not None:
                c = _const(d)
                if p.arg in FLAG_NAMES and c is not UNKNOWN and (c is None or isinstance(c, (bool, int, str))):
                    flags[p.arg] = c
        return flags

    def summary(self, fi: FunctionInfo, K: Optional[ClassInfo], flags: Dict[str, Any]) -> Summary:
        return self._analyse(fi, K, flags)

    def _analyse(self, fi: FunctionInfo, K: Optional[ClassInfo], flags: Dict[str, Any], store: bool = True) -> Summary:
        key = (fi.key, K.key if K is not None else "", tuple(sorted((k, repr(v)) for k, v in flags.items())))
        if key in self.summaries:
            return self.summaries[key]
        if key in self._in_progress:
            # recursion: answer with the previous round's summary (global fixpoint iteration, see run())
            return self.prev.get(key, Summary())
        self._in_progress.add(key)
        self.functions_seen.add(fi.key)
        try:
            s = _FunctionWalk(self, fi, K, flags).run()
        finally:
            self._in_progress.discard(key)
        self.summaries[key] = s
        return s

    def run(self, entries: List[Tuple[FunctionInfo, Optional[ClassInfo], Dict[str, Any]]], max_rounds: int = 8) -> Dict[int, Summary]:
        """Analyse all entries to a global fixpoint of the summary table and of the class-state table."""
        out: Dict[int, Summary] = {}
        for rnd in range(max_rounds):
            self.summaries = {}
            self._state_done = set()
            self.changed = False
            for i, (fi, K, flags) in enumerate(entries):
                if K is not None:
                    self.prepare_class(K)
                out[i] = self._analyse(fi, K, flags)
            same = not self.changed and set(self.summaries) == set(self.prev) and all(
                self.summaries[k].returns == self.prev[k].returns and self.summaries[k].self_writes == self.prev[k].self_writes
                for k in self.summaries)
            self.rounds = rnd + 1
            self.prev = self.summaries
            if same:
                return out
        raise AnalysisError(f"gradient-flow summaries did not converge in {max_rounds} rounds")


class _FunctionWalk:
    def __init__(self, eng: GradFlow, fi: FunctionInfo, K: Optional[ClassInfo], flags: Dict[str, Any]):
        self.eng = eng
        self.fi = fi
        self.K = K if K is not None else fi.cls
        self.prog = eng.prog
        self.ti = eng.ti
        self.tenv = self.ti.env(fi)
        a = fi.node.args
        self.params = [x.arg for x in a.posonlyargs + a.args + a.kwonlyargs]
        self.selfname = self.params[0] if (fi.cls is not None and not fi.is_static and self.params) else None
        self.flags = {k: v for k, v in flags.items() if k in self.params}
        self.returns: Taint = EMPTY
        self.self_writes: Dict[str, Taint] = {}
        self.local_state: Dict[str, Taint] = {}
        self.nested: Dict[str, ast.FunctionDef] = {}
        self.funcvals: Dict[str, List[FunctionInfo]] = {}
        self.nograd = 1 if _is_nograd_decorated(fi) else 0
        self._free: Dict[str, List[str]] = {}
        self._inline_cache: Dict[Tuple, Taint] = {}
        self.depth = 0
        self.cur_stmt: Optional[ast.stmt] = None
        self.vararg = a.vararg.arg if a.vararg else None
        self.kwarg = a.kwarg.arg if a.kwarg else None

    def site(self, what: str) -> str:
        s = f"{self.fi.key} {what}"
        self.eng.blocker_sites.add(s)
        return s

    # ------------------------------------------------------------------ driver
    def run(self) -> Summary:
        env: Dict[str, Taint] = {}
        for p in self.params:
            if p == self.selfname:
                env[p] = frozenset([("S", None)]) if not self.fi.is_classmethod else EMPTY
            elif p in self.flags:
                env[p] = EMPTY
            else:
                env[p] = frozenset([(f"P:{p}", None)])
        if self.vararg:
            env[self.vararg] = frozenset([(f"P:{self.vararg}", None)])
        if self.kwarg:
            env[self.kwarg] = frozenset([(f"P:{self.kwarg}", None)])
        self.block(self.fi.node.body, env)
        return Summary(self.returns, dict(self.self_writes), bool(self.nograd))

    def guard(self, t: Taint, what: str = "torch.no_grad()") -> Taint:
        return block(t, self.site(what)) if self.nograd and t else t

    # ------------------------------------------------------------------ statements
    def block(self, body: List[ast.stmt], env: Dict[str, Taint]) -> bool:
        for st in body:
            if not self.stmt(st, env):
                return False
        return True

    def stmt(self, st: ast.stmt, env: Dict[str, Taint]) -> bool:
        self.cur_stmt = st
        if isinstance(st, ast.Return):
            if st.value is not None:
                self.returns = join(self.returns, self.guard(self.expr(st.value, env)))
            return False
        if isinstance(st, ast.Raise):
            return False
        if isinstance(st, ast.Expr):
            if isinstance(st.value, (ast.Yield, ast.YieldFrom)) and st.value.value is not None:
                self.returns = join(self.returns, self.guard(self.expr(st.value.value, env)))
            else:
                self.expr(st.value, env)
            return True
        if isinstance(st, ast.Assign):
            v = self.guard(self.expr(st.value, env))
            for t in st.targets:
                self.assign(t, v, st.value, env)
            return True
        if isinstance(st, ast.AnnAssign):
            if st.value is not None:
                self.assign(st.target, self.guard(self.expr(st.value, env)), st.value, env)
            return True
        if isinstance(st, ast.AugAssign):
            v = self.guard(join(self.expr(st.target, env), self.expr(st.value, env)))
            self.assign(st.target, v, None, env)
            return True
        if isinstance(st, ast.If):
            c = self.const_test(st.test)
            if c is True:
                return self.block(st.body, env)
            if c is False:
                return self.block(st.orelse, env)
            self.expr(st.test, env)
            e1, e2 = dict(env), dict(env)
            f1, f2 = dict(self.flags), dict(self.flags)
            self.flags = f1
            r1 = self.block(st.body, e1)
            f1 = self.flags
            self.flags = f2
            r2 = self.block(st.orelse, e2)
            f2 = self.flags
            self.flags = {k: v for k, v in f1.items() if k in f2 and f2[k] == v} if (r1 and r2) else (f1 if r1 else f2)
            if r1 and r2:
                for k in set(e1) | set(e2):
                    env[k] = join(e1.get(k, EMPTY), e2.get(k, EMPTY))
            elif r1:
                env.clear()
                env.update(e1)
            elif r2:
                env.clear()
                env.update(e2)
            return r1 or r2
        if isinstance(st, (ast.For, ast.AsyncFor)):
            it = self.expr(st.iter, env)
            for _ in range(2):
                self.bind(st.target, it, env)
                e = dict(env)
                try:
                    self.block(st.body, e)
                except _LoopExit:
                    pass
                for k in e:
                    env[k] = join(env.get(k, EMPTY), e[k])
            self.block(st.orelse, env)
            return True
        if isinstance(st, ast.While):
            self.expr(st.test, env)
            for _ in range(2):
                e = dict(env)
                self.block(st.body, e)
                for k in e:
                    env[k] = join(env.get(k, EMPTY), e[k])
            return True
        if isinstance(st, (ast.With, ast.AsyncWith)):
            ng = 0
            for item in st.items:
                ce = item.context_expr
                n = dotted(ce.func) if isinstance(ce, ast.Call) else dotted(ce)
                if n and n.endswith("no_grad"):
                    ng += 1
                elif n and n.endswith("set_grad_enabled") and isinstance(ce, ast.Call) and ce.args and _const(ce.args[0]) is False:
                    ng += 1
                else:
                    v = self.expr(ce, env)
                    if item.optional_vars is not None:
                        self.bind(item.optional_vars, v, env)
            self.nograd += ng
            try:
                r = self.block(st.body, env)
            finally:
                self.nograd -= ng
            return r
        if isinstance(st, ast.Try):
            r = self.block(st.body, env)
            for h in st.handlers:
                e = dict(env)
                if self.block(h.body, e):
                    for k in e:
                        env[k] = join(env.get(k, EMPTY), e[k])
                    r = True
            if r:
                self.block(st.orelse, env)
            self.block(st.finalbody, env)
            return r
        if isinstance(st, (ast.FunctionDef, ast.AsyncFunctionDef)):
            self.nested[st.name] = st
            return True
        if isinstance(st, ast.Assert):
            # an assertion that is false for the concrete class under analysis marks an infeasible path
            return self.const_test(st.test) is not False
        return True  # pass, del, global, import, class, break, continue

    def bind(self, t: ast.AST, v: Taint, env: Dict[str, Taint]) -> None:
        if isinstance(t, ast.Name):
            env[t.id] = v
            self.flags.pop(t.id, None)
        elif isinstance(t, (ast.Tuple, ast.List)):
            for e in t.elts:
                self.bind(e.value if isinstance(e, ast.Starred) else e, v, env)
        else:
            self.assign(t, v, None, env)

    def assign(self, t: ast.AST, v: Taint, value_node: Optional[ast.AST], env: Dict[str, Taint]) -> None:
        if isinstance(t, ast.Name):
            env[t.id] = v
            c = _const(value_node) if value_node is not None else UNKNOWN
            if t.id in self.params and t.id in FLAG_NAMES and c is not UNKNOWN and (c is None or isinstance(c, (bool, int, str))):
                self.flags[t.id] = c
            else:
                self.flags.pop(t.id, None)
            # local names bound to repo functions (``apply = U.transform_grid if grid else U.transform_points``)
            if value_node is not None:
                fv = self.func_values(value_node)
                if fv:
                    self.funcvals[t.id] = fv
                else:
                    self.funcvals.pop(t.id, None)
            return
        if isinstance(t, (ast.Tuple, ast.List)):
            for e in t.elts:
                self.assign(e.value if isinstance(e, ast.Starred) else e, v, None, env)
            return
        if isinstance(t, ast.Attribute):
            if isinstance(t.value, ast.Name) and t.value.id == self.selfname:
                if t.attr == "requires_grad":
                    return
                self.write_self(t.attr, v)
            else:
                if t.attr == "requires_grad" and value_node is not None and _const(value_node) is False:
                    b = dotted(t.value)
                    if b and b in env:
                        env[b] = block(env[b], self.site("requires_grad = False"))
                    return
                b = t.value
                while isinstance(b, (ast.Attribute, ast.Subscript)):
                    b = b.value
                if isinstance(b, ast.Name):
                    env[b.id] = join(env.get(b.id, EMPTY), v)
            return
        if isinstance(t, ast.Subscript):
            b = t.value
            while isinstance(b, (ast.Attribute, ast.Subscript)):
                if isinstance(b, ast.Attribute) and isinstance(b.value, ast.Name) and b.value.id == self.selfname:
                    self.write_self(b.attr, join(self.read_self(b.attr), v))
                    return
                b = b.value
            if isinstance(b, ast.Name):
                env[b.id] = join(env.get(b.id, EMPTY), v)

    def write_self(self, attr: str, v: Taint) -> None:
        self.local_state[attr] = v
        self.self_writes[attr] = join(self.self_writes.get(attr, EMPTY), v)

    def nondiff_types(self, types) -> bool:
        if not types:
            return False
        for x in types:
            if isinstance(x, str) and x in NONDIFF_ATTR_TYPES:
                continue
            if isinstance(x, ClassInfo) and (x.name in NONDIFF_CLASSES or self.eng.is_enum(x)):
                continue
            if isinstance(x, tuple) and x and x[0] in ("type", "module"):
                continue
            return False
        return True

    def nondiff_expr(self, e: ast.AST) -> bool:
        try:
            return self.nondiff_types(self.ti.infer(self.fi, e, self.tenv))
        except Exception:
            return False

    def read_self(self, attr: str) -> Taint:
        if attr in self.local_state:
            return self.local_state[attr]
        if self.K is not None:
            at = self.ti.attr_types(self.K).get(attr, frozenset())
            # numbers stored on a module are configuration, not learnable state
            if at and self.nondiff_types(frozenset(x for x in at if not (isinstance(x, str) and x in ("int", "float", "callable")))
                                         or frozenset(["None"])):
                return EMPTY
        via = self.eng.state.get((self.K.key, attr)) if self.K is not None else None
        return frozenset([("S", via)])

    # ------------------------------------------------------------------ tests on flags
    def const_test(self, test: ast.expr) -> Optional[bool]:
        if isinstance(test, ast.Call):
            n = dotted(test.func) or ""
            if n.split(".")[-1] in ("is_floating_point", "is_float_dtype"):
                return True  # differentiable inputs are floating point tensors (integer-data clean-up branches are not analysed)
        if isinstance(test, ast.Name) and test.id in self.flags:
            return bool(self.flags[test.id])
        if isinstance(test, ast.Attribute) and isinstance(test.value, ast.Name) and test.value.id == self.selfname and self.K is not None:
            return self.const_property(test.attr, 0)
        if isinstance(test, ast.Call) and isinstance(test.func, ast.Name) and test.func.id == "isinstance" and len(test.args) == 2 \
                and isinstance(test.args[0], ast.Name) and test.args[0].id == self.selfname and self.K is not None:
            r = self.prog.resolve_expr(self.fi.module, test.args[1]) if isinstance(test.args[1], (ast.Name, ast.Attribute)) else None
            if isinstance(r, ClassInfo):
                return r in self.prog.mro(self.K)
            return None
        if isinstance(test, ast.UnaryOp) and isinstance(test.op, ast.Not):
            v = self.const_test(test.operand)
            return None if v is None else not v
        if isinstance(test, ast.BoolOp):
            vals = [self.const_test(v) for v in test.values]
            if isinstance(test.op, ast.And):
                if any(v is False for v in vals):
                    # sound only if the operands before the first False are decidable (short circuit has no side effects here)
                    return False
                return True if all(v is True for v in vals) else None
            if any(v is True for v in vals):
                return True
            return False if all(v is False for v in vals) else None
        if isinstance(test, ast.Compare) and len(test.ops) == 1 and isinstance(test.left, ast.Name) and test.left.id in self.flags:
            r = _const(test.comparators[0])
            if r is UNKNOWN:
                return None
            v = self.flags[test.left.id]
            op = test.ops[0]
            try:
                if isinstance(op, ast.Is):
                    return v is r if (r is None or isinstance(r, bool)) else None
                if isinstance(op, ast.IsNot):
                    return v is not r if (r is None or isinstance(r, bool)) else None
                if isinstance(op, ast.Eq):
                    return v == r
                if isinstance(op, ast.NotEq):
                    return v != r
                if v is None or r is None:
                    return None
                if isinstance(op, ast.Lt):
                    return v < r
                if isinstance(op, ast.LtE):
                    return v <= r
                if isinstance(op, ast.Gt):
                    return v > r
                if isinstance(op, ast.GtE):
                    return v >= r
            except TypeError:
                return None
        return None

    def const_property(self, name: str, depth: int) -> Optional[bool]:
        """Value of a boolean property of the concrete class under analysis when its body is a class-membership test
        (``return isinstance(self, X)``), the negation of such a property, or a constant."""
        if depth > 3 or self.K is None:
            return None
        m = self.prog.find_method(self.K, name)
        if m is None or not m.is_property:
            return None
        body = [st for st in m.node.body if not (isinstance(st, ast.Expr) and isinstance(st.value, ast.Constant))]
        if len(body) != 1 or not isinstance(body[0], ast.Return) or body[0].value is None:
            return None
        v = body[0].value
        sn = m.node.args.args[0].arg if m.node.args.args else "self"
        if isinstance(v, ast.Constant) and isinstance(v.value, bool):
            return v.value
        if isinstance(v, ast.UnaryOp) and isinstance(v.op, ast.Not) and isinstance(v.operand, ast.Attribute) \
                and isinstance(v.operand.value, ast.Name) and v.operand.value.id == sn:
            r = self.const_property(v.operand.attr, depth + 1)
            return None if r is None else not r
        if isinstance(v, ast.Call) and isinstance(v.func, ast.Name) and v.func.id == "isinstance" and len(v.args) == 2 \
                and isinstance(v.args[0], ast.Name) and v.args[0].id == sn and isinstance(v.args[1], (ast.Name, ast.Attribute)):
            r = self.prog.resolve_expr(m.module, v.args[1])
            if isinstance(r, ClassInfo):
                return r in self.prog.mro(self.K)
        return None

    # ------------------------------------------------------------------ expressions
    def func_values(self, node: ast.AST) -> List[FunctionInfo]:
        if isinstance(node, ast.IfExp):
            a, b = self.func_values(node.body), self.func_values(node.orelse)
            return a + b if a and b else []
        if isinstance(node, ast.Name):
            if node.id in self.funcvals:
                return list(self.funcvals[node.id])
            r = self.prog.resolve_global(self.fi.module, node.id)
            return [r] if isinstance(r, FunctionInfo) else []
        if isinstance(node, ast.Attribute):
            r = self.prog.resolve_expr(self.fi.module, node) if hasattr(self.prog, "resolve_expr") else None
            return [r] if isinstance(r, FunctionInfo) else []
        return []

    def expr(self, e: Optional[ast.AST], env: Dict[str, Taint]) -> Taint:
        if e is None or isinstance(e, (ast.Constant, ast.JoinedStr, ast.Lambda, ast.Compare)):
            if isinstance(e, ast.Compare):
                self.expr(e.left, env)
                for c in e.comparators:
                    self.expr(c, env)
            return EMPTY
        if isinstance(e, ast.Name):
            t = env.get(e.id, EMPTY)
            if t and e.id != self.selfname and self.nondiff_expr(e):
                return EMPTY
            return t
        if isinstance(e, ast.Attribute):
            if e.attr in NONVALUE_ATTRS:
                self.expr(e.value, env)
                return EMPTY
            if isinstance(e.value, ast.Name) and e.value.id == self.selfname:
                # property?
                if self.K is not None:
                    m = self.prog.find_method(self.K, e.attr)
                    if m is not None and m.is_property:
                        return self.apply(m, [env.get(self.selfname, EMPTY)], {}, [], {}, e, bound=True, same_self=True)
                    if m is not None:
                        return EMPTY  # bound method object
                return self.read_self(e.attr)
            base = self.expr(e.value, env)
            if e.attr == "data" and base:
                bt = self.ti.infer(self.fi, e.value, self.tenv)
                if not any(isinstance(t, ClassInfo) and self.prog.find_method(t, "data") is not None for t in bt):
                    return block(base, self.site(".data"))
            if e.attr in ("T", "mT", "real", "grad"):
                return base
            return base
        if isinstance(e, ast.Subscript):
            self.expr(e.slice, env)
            return self.expr(e.value, env)
        if isinstance(e, ast.BinOp):
            return join(self.expr(e.left, env), self.expr(e.right, env))
        if isinstance(e, ast.UnaryOp):
            if isinstance(e.op, ast.Not):
                self.expr(e.operand, env)
                return EMPTY
            return self.expr(e.operand, env)
        if isinstance(e, ast.BoolOp):
            return join(*[self.expr(v, env) for v in e.values])
        if isinstance(e, ast.IfExp):
            c = self.const_test(e.test)
            if c is True:
                return self.expr(e.body, env)
            if c is False:
                return self.expr(e.orelse, env)
            self.expr(e.test, env)
            return join(self.expr(e.body, env), self.expr(e.orelse, env))
        if isinstance(e, (ast.Tuple, ast.List, ast.Set)):
            return join(*[self.expr(x.value if isinstance(x, ast.Starred) else x, env) for x in e.elts])
        if isinstance(e, ast.Dict):
            return join(*[self.expr(v, env) for v in e.values if v is not None])
        if isinstance(e, (ast.ListComp, ast.SetComp, ast.GeneratorExp, ast.DictComp)):
            env2 = dict(env)
            for g in e.generators:
                self.bind(g.target, self.expr(g.iter, env2), env2)
                for c in g.ifs:
                    self.expr(c, env2)
            if isinstance(e, ast.DictComp):
                return self.expr(e.value, env2)
            return self.expr(e.elt, env2)
        if isinstance(e, ast.Starred):
            return self.expr(e.value, env)
        if isinstance(e, ast.Call):
            return self.call(e, env)
        if isinstance(e, ast.NamedExpr):
            v = self.expr(e.value, env)
            self.assign(e.target, v, e.value, env)
            return v
        if isinstance(e, (ast.Yield, ast.YieldFrom, ast.Await)):
            return self.expr(e.value, env) if e.value is not None else EMPTY
        if isinstance(e, ast.Slice):
            for x in (e.lower, e.upper, e.step):
                self.expr(x, env)
            return EMPTY
        if isinstance(e, ast.FormattedValue):
            return EMPTY
        return EMPTY

    # ------------------------------------------------------------------ calls
    def call(self, c: ast.Call, env: Dict[str, Taint]) -> Taint:
        self.eng.call_sites += 1
        args = [self.expr(a.value if isinstance(a, ast.Starred) else a, env) for a in c.args]
        kwargs = {k.arg: self.expr(k.value, env) for k in c.keywords}
        allargs = join(*args, *kwargs.values())
        f = c.func
        d = dotted(f)
        # conversion to an integer / boolean dtype: integer valued, derivative 0 a.e., carries no gradient
        for node in list(c.args) + [k.value for k in c.keywords if k.arg in ("dtype", None)]:
            n = dotted(node) or ""
            if n.split(".")[-1] in INT_DTYPES and (n.startswith("torch.") or n in INT_DTYPES):
                return EMPTY
        # nested / local function values
        if isinstance(f, ast.Name):
            if f.id in self.nested:
                return self.inline(self.nested[f.id], c, args, kwargs, env)
            if f.id in self.funcvals:
                return join(*[self.apply(fi, args, kwargs, c.args, c.keywords, c, bound=False) for fi in self.funcvals[f.id]])
            if f.id in env and f.id not in self.params:
                return join(env[f.id], allargs)
            if f.id in SCALAR_BUILTINS:
                return block(allargs, self.site(f"{f.id}()")) if allargs else EMPTY
            if f.id in NONVALUE_BUILTINS:
                return EMPTY
            if f.id in PASS_BUILTINS:
                return allargs
            if f.id == "getattr" and len(c.args) >= 2:
                if isinstance(c.args[0], ast.Name) and c.args[0].id == self.selfname and isinstance(c.args[1], ast.Constant):
                    return self.read_self(str(c.args[1].value))
                return join(*args)
            if f.id == "setattr" and len(c.args) == 3:
                if isinstance(c.args[0], ast.Name) and c.args[0].id == self.selfname and isinstance(c.args[1], ast.Constant):
                    self.write_self(str(c.args[1].value), self.guard(args[2]))
                return EMPTY
        # resolved repo callees (methods of the own object are looked up in the concrete class under analysis)
        callees = None
        if isinstance(f, ast.Attribute) and self.K is not None and self.selfname is not None:
            if isinstance(f.value, ast.Name) and f.value.id == self.selfname:
                m = self.prog.find_method(self.K, f.attr)
                if m is not None and not m.is_property:
                    callees = [m]
            elif isinstance(f.value, ast.Call) and dotted(f.value.func) == "super" and self.fi.cls is not None:
                m = self.prog.find_method(self.K, f.attr, after=self.fi.cls)
                if m is not None:
                    callees = [m]
        if callees is None:
            callees = self.ti.resolve_call(self.fi, c, self.tenv)
        if not callees and isinstance(f, ast.Attribute) and isinstance(f.value, ast.Name) and f.value.id == self.selfname and self.K is not None:
            # self.<submodule>(...) -> forward of the attribute's class
            at = self.ti.attr_types(self.K).get(f.attr, frozenset())
            mods = [t for t in at if isinstance(t, ClassInfo) and self.prog.is_module_class(t)]
            if mods and len(mods) == len([t for t in at if t != "None"]):
                outs = []
                for mcls in mods:
                    fw = self.prog.find_method(mcls, "forward")
                    if fw is not None:
                        self.eng.prepare_class(mcls)
                        outs.append(self.apply(fw, [self.read_self(f.attr)] + args, kwargs, c.args, c.keywords, c, bound=True, K=mcls))
                if outs:
                    return join(*outs)
        if callees:
            outs = []
            for callee in callees:
                if isinstance(callee, ClassInfo):
                    nw = self.prog.find_method(callee, "__new__")
                    if nw is not None and nw.module.name.startswith("deepali") and self.ti.is_tensor_class(callee):
                        # tensor subclasses are created in __new__ (DataTensor: Tensor._make_subclass)
                        outs.append(self.apply(nw, [EMPTY] + args, kwargs, c.args, c.keywords, c, bound=True, K=callee))
                    else:
                        outs.append(allargs)
                    continue
                bound = callee.cls is not None and not callee.is_static
                recv: Taint = EMPTY
                same_self = False
                K = None
                if bound:
                    if isinstance(f, ast.Attribute):
                        if isinstance(f.value, ast.Call) and dotted(f.value.func) == "super":
                            recv, same_self = env.get(self.selfname or "", EMPTY), True
                        elif isinstance(f.value, ast.Name) and f.value.id == self.selfname:
                            recv, same_self = env.get(self.selfname, EMPTY), True
                        else:
                            bt = self.ti.infer(self.fi, f.value, self.tenv)
                            if any(isinstance(t, tuple) and t[0] == "type" for t in bt) and not callee.is_classmethod:
                                bound = False
                            else:
                                recv = EMPTY if self.nondiff_types(bt) else self.expr(f.value, env)
                                cands = [t for t in bt if isinstance(t, ClassInfo)]
                                if len(cands) == 1:
                                    K = cands[0]
                    if callee.is_classmethod:
                        recv = EMPTY
                outs.append(self.apply(callee, ([recv] if bound else []) + args, kwargs, c.args, c.keywords, c, bound=bound,
                                       same_self=same_self, K=K))
            return join(*outs)
        # method call on a value
        if isinstance(f, ast.Attribute):
            name = f.attr
            root = d.split(".")[0] if d else None
            if name == "_make_subclass":
                return block(allargs, self.site("Tensor._make_subclass()")) if allargs else EMPTY
            is_lib = root in ("torch", "F", "np", "math", "nn", "init", "warnings", "re", "os", "sitk", "_sitk", "nib", "itertools",
                              "functools", "operator", "copy") and root not in env
            if not is_lib:
                recv = self.expr(f.value, env)
                if name in BLOCK_METHODS:
                    t = join(recv, allargs)
                    return block(t, self.site(f".{name}()")) if t else EMPTY
                if name == "requires_grad_":
                    if (c.args and _const(c.args[0]) is False) or any(k.arg == "requires_grad" and _const(k.value) is False for k in c.keywords):
                        return block(recv, self.site(".requires_grad_(False)"))
                    return recv
                if name in NONVALUE_METHODS or name in INDEX_METHODS:
                    return EMPTY
                if name in ("register_buffer", "register_parameter") and isinstance(f.value, ast.Name) and f.value.id == self.selfname \
                        and c.args and isinstance(c.args[0], ast.Constant):
                    v = args[1] if len(args) > 1 else kwargs.get("tensor", kwargs.get("param", EMPTY))
                    self.write_self(str(c.args[0].value), self.guard(v))
                    return EMPTY
                if name in ("append", "extend", "insert", "update", "add", "setdefault", "__setitem__"):
                    # container mutation (list/dict/set); ``add`` / ``update`` may also be tensor / dict value operations
                    b = f.value
                    while isinstance(b, (ast.Attribute, ast.Subscript)):
                        b = b.value
                    if isinstance(b, ast.Name) and b.id != self.selfname and not (name == "add" and recv):
                        env[b.id] = join(env.get(b.id, EMPTY), self.guard(allargs))
                    return join(recv, allargs) if name in ("add", "update") else EMPTY
                out = join(recv, allargs)
                if name.endswith("_") and not name.startswith("_"):
                    # in-place tensor method: the receiver now also depends on the arguments
                    b = f.value
                    while isinstance(b, (ast.Subscript,)):
                        b = b.value
                    if isinstance(b, ast.Name):
                        env[b.id] = join(env.get(b.id, EMPTY), self.guard(out))
                    elif isinstance(b, ast.Attribute) and isinstance(b.value, ast.Name) and b.value.id == self.selfname:
                        self.write_self(b.attr, join(self.read_self(b.attr), self.guard(out)))
                return out
            # library function
            if name in VALUE_FREE_FUNCS or name in INDEX_METHODS:
                return EMPTY
            if name == "round" and any(k.arg == "decimals" and _const(k.value) not in (0, None) for k in c.keywords):
                return block(allargs, self.site("torch.round(decimals=...)"))
            if name in ("no_grad", "enable_grad", "set_grad_enabled"):
                return EMPTY
            if "out" in kwargs and isinstance(next(k for k in c.keywords if k.arg == "out").value, ast.Name):
                nm = next(k for k in c.keywords if k.arg == "out").value.id
                env[nm] = join(env.get(nm, EMPTY), self.guard(allargs))
            return allargs
        if isinstance(f, ast.Call) or isinstance(f, ast.Subscript):
            return join(self.expr(f, env), allargs)
        return allargs

    def inline(self, fn: ast.FunctionDef, c: ast.Call, args: List[Taint], kwargs: Dict[str, Taint], env: Dict[str, Taint]) -> Taint:
        if self.depth > 3:
            return join(*args, *kwargs.values())
        free = self._free.get(fn.name)
        if free is None:
            free = self._free[fn.name] = sorted({n.id for n in ast.walk(fn) if isinstance(n, ast.Name)})
        ck = (fn.name, tuple(args), tuple(sorted(kwargs.items())), tuple((n, env.get(n, EMPTY)) for n in free), self.nograd,
              tuple(sorted((k, repr(v)) for k, v in self.flags.items())))
        if ck in self._inline_cache:
            return self._inline_cache[ck]
        out = self._inline(fn, c, args, kwargs, env)
        self._inline_cache[ck] = out
        return out

    def _inline(self, fn: ast.FunctionDef, c: ast.Call, args: List[Taint], kwargs: Dict[str, Taint], env: Dict[str, Taint]) -> Taint:
        a = fn.args
        names = [x.arg for x in a.posonlyargs + a.args]
        e2 = dict(env)
        for n, v in zip(names, args):
            e2[n] = v
        for n in names[len(args):] + [x.arg for x in a.kwonlyargs]:
            e2[n] = kwargs.get(n, EMPTY)
        if a.vararg:
            e2[a.vararg.arg] = join(*args[len(names):])
        saved, self.returns = self.returns, EMPTY
        self.depth += 1
        try:
            self.block(fn.body, e2)
        finally:
            self.depth -= 1
        out, self.returns = self.returns, saved
        return out

    def apply(self, callee: FunctionInfo, args: List[Taint], kwargs: Dict[str, Taint], arg_nodes, kw_nodes, c: ast.AST, bound: bool,
              same_self: bool = False, K: Optional[ClassInfo] = None) -> Taint:
        """Instantiate the callee's summary (specialised on constant arguments) with the caller's argument taints."""
        a = callee.node.args
        pnames = [x.arg for x in a.posonlyargs + a.args]
        kwonly = [x.arg for x in a.kwonlyargs]
        binding: Dict[str, Taint] = {}
        flags = self.eng._default_flags(callee)
        nodes: List[Optional[ast.AST]] = ([None] if bound else []) + [n for n in arg_nodes]
        has_star = any(isinstance(n, ast.Starred) for n in arg_nodes) or any(k.arg is None for k in kw_nodes)
        for i, t in enumerate(args):
            if i < len(pnames):
                binding[pnames[i]] = t
                node = nodes[i] if i < len(nodes) else None
                cv = _const(node) if node is not None and not isinstance(node, ast.Starred) else UNKNOWN
                if node is not None and isinstance(node, ast.Name) and node.id in self.flags:
                    cv = self.flags[node.id]
                if pnames[i] in FLAG_NAMES and cv is not UNKNOWN and (cv is None or isinstance(cv, (bool, int, str))):
                    flags[pnames[i]] = cv
                else:
                    flags.pop(pnames[i], None)
            elif a.vararg:
                binding[a.vararg.arg] = join(binding.get(a.vararg.arg, EMPTY), t)
        for k in kw_nodes:
            if k.arg is None:
                continue
            t = kwargs.get(k.arg, EMPTY)
            if k.arg in pnames or k.arg in kwonly:
                binding[k.arg] = t
                cv = _const(k.value)
                if isinstance(k.value, ast.Name) and k.value.id in self.flags:
                    cv = self.flags[k.value.id]
                if k.arg in FLAG_NAMES and cv is not UNKNOWN and (cv is None or isinstance(cv, (bool, int, str))):
                    flags[k.arg] = cv
                else:
                    flags.pop(k.arg, None)
            elif a.kwarg:
                binding[a.kwarg.arg] = join(binding.get(a.kwarg.arg, EMPTY), t)
        if has_star:
            # *seq spreads over the positional parameters from its position on; **mapping over the parameters not bound otherwise
            off = 1 if bound else 0
            for i, n in enumerate(arg_nodes):
                if isinstance(n, ast.Starred) and i + off < len(args):
                    for pn in pnames[i + off:]:
                        binding[pn] = join(binding.get(pn, EMPTY), args[i + off])
                        flags.pop(pn, None)
            if None in kwargs:
                explicit = {k.arg for k in kw_nodes if k.arg is not None}
                npos = len(args)
                for j, pn in enumerate(pnames + kwonly):
                    if pn in explicit or (j < npos and pn in pnames):
                        continue
                    binding[pn] = join(binding.get(pn, EMPTY), kwargs[None])
                    flags.pop(pn, None)
        # declared blocker functions
        bk = BLOCKER_FUNCS.get(callee.key)
        if bk is not None:
            v = flags.get(bk, UNKNOWN)
            allt = join(*binding.values())
            if v is UNKNOWN or v not in (0, None):
                return block(allt, self.site(f"calls {callee.name}"))
            return allt
        Kc = (self.K if same_self else K) if bound else None
        if Kc is None and bound:
            Kc = callee.cls
        if bound and Kc is not None and not same_self:
            self.eng.prepare_class(Kc)
        s = self.eng.summary(callee, Kc, flags)
        out: Set[Elem] = set()
        selfname = pnames[0] if bound and pnames else None
        for o, v in s.returns:
            if o == "S":
                src = binding.get(selfname, EMPTY) if selfname else EMPTY
            else:
                src = binding.get(o[2:], EMPTY)
            if v is not None and " <- " not in v and isinstance(c, ast.Call):
                # name the call (normalised text) through which the blocked value first entered a caller
                st = self.cur_stmt
                txt = " ".join(ast.unparse(st).split())[:110] if st is not None and not isinstance(st, (ast.If, ast.For, ast.While, ast.With, ast.Try)) \
                    else f"{ast.unparse(c.func)}(...)"
                # occurrences of the same statement text in one function are told apart by their order
                if st is not None:
                    same = [n for n in ast.walk(self.fi.node) if isinstance(n, ast.stmt) and type(n) is type(st)
                            and " ".join(ast.unparse(n).split())[:110] == txt]
                    same.sort(key=lambda n: (n.lineno, n.col_offset))
                    if len(same) > 1 and st in same:
                        txt += f" #{same.index(st) + 1}"
                v = f"{v} <- {self.fi.qualname}: {txt}"
            out |= (block(src, v) if v is not None else src)
        # writes to the receiver's state made by the callee on our own object
        if bound and same_self:
            for attr, t in s.self_writes.items():
                tt: Set[Elem] = set()
                for o, v in t:
                    src = (binding.get(selfname, EMPTY) if o == "S" else binding.get(o[2:], EMPTY))
                    tt |= (block(src, v) if v is not None else src)
                self.write_self(attr, self.guard(frozenset(tt)))
        return join(frozenset(out))


class _LoopExit(Exception):
    pass
