"""E0: tiny type lattice + flow-insensitive local type inference, and call resolution built on it.

A type is a frozenset of tags; a tag is a ``ClassInfo`` (repo class) or one of the strings
``Tensor int float bool str None tuple list dict callable module:<name> type:<ClassKey> Any``.
The empty set means "unknown" (top).  Purpose: tell ``Grid.reshape`` from ``Tensor.reshape``, resolve ``x.m()``.
"""
from __future__ import annotations

import ast
from typing import Dict, FrozenSet, List, Optional, Set, Tuple

from .index import AnalysisError, ClassInfo, FunctionInfo, ModuleInfo, Program, dotted, walk_no_nested

Type = FrozenSet[object]
TOP: Type = frozenset()

TENSOR = "Tensor"
_BUILTIN_ANN = {
    "Tensor": TENSOR, "torch.Tensor": TENSOR, "Array": TENSOR, "Parameter": TENSOR, "torch.nn.Parameter": TENSOR,
    "nn.Parameter": TENSOR, "Scalar": "float", "ScalarOrTuple": "tuple", "Size": "tuple", "Shape": "tuple",
    "int": "int", "float": "float", "bool": "bool", "str": "str", "None": "None", "dict": "dict", "Dict": "dict",
    "list": "list", "List": "list", "tuple": "tuple", "Tuple": "tuple", "Sequence": "tuple", "Mapping": "dict",
    "Callable": "callable", "torch.Size": "tuple", "TensorCollection": "dict",
}

_TENSOR_RETURNING_TORCH = None  # anything torch.* call is assumed Tensor unless listed below
_TORCH_NON_TENSOR = {"torch.is_tensor": "bool", "torch.is_floating_point": "bool", "torch.device": "Any",
                     "torch.Size": "tuple", "torch.no_grad": "Any", "torch.is_grad_enabled": "bool",
                     "torch.finfo": "Any", "torch.iinfo": "Any", "torch.Generator": "Any"}


# element types of container attributes that carry no annotation (validated: attribute must still be assigned in class)
ELEM_HINTS = {
    ("ImageBatch", "_grid"): ("deepali.data.image", "Grid") if False else ("deepali.core.grid", "Grid"),
    ("FlowFields", "_grid"): ("deepali.core.grid", "Grid"),
}


def T(*tags) -> Type:
    return frozenset(tags)


class TypeInfer:
    """Per-function local type environment (flow-insensitive union over assignments)."""

    def __init__(self, prog: Program):
        self.prog = prog
        self._env_cache: Dict[str, Dict[str, Type]] = {}
        self._attr_cache: Dict[str, Dict[str, Type]] = {}
        self._busy: Set[str] = set()
        self._seq_elem: Dict[Tuple[str, str], Type] = {}
        self._comp_names: Dict[int, Type] = {}

    # ------------------------------------------------------------ annotations
    def ann_type(self, mi: ModuleInfo, ann: Optional[ast.expr]) -> Type:
        if ann is None:
            return TOP
        if isinstance(ann, ast.Constant):
            if ann.value is None:
                return T("None")
            if isinstance(ann.value, str):
                try:
                    return self.ann_type(mi, ast.parse(ann.value, mode="eval").body)
                except SyntaxError:
                    return TOP
            return TOP
        if isinstance(ann, ast.Subscript):
            head = dotted(ann.value) or ""
            short = head.split(".")[-1]
            if short in ("Optional", "Union"):
                elts = ann.slice.elts if isinstance(ann.slice, ast.Tuple) else [ann.slice]
                out: Set[object] = set()
                for e in elts:
                    t = self.ann_type(mi, e)
                    if not t:
                        return TOP if short == "Union" and False else (frozenset(out | {"Any"}))
                    out |= t
                if short == "Optional":
                    out.add("None")
                return frozenset(out)
            if short in ("Type",):
                return T("Any")
            return self.ann_type(mi, ann.value)
        if isinstance(ann, ast.BinOp) and isinstance(ann.op, ast.BitOr):
            a, b = self.ann_type(mi, ann.left), self.ann_type(mi, ann.right)
            return frozenset(a | b) if a and b else TOP
        d = dotted(ann)
        if d is None:
            return TOP
        r = self.prog.resolve_expr(mi, ann)
        if isinstance(r, ClassInfo):
            return T(r)
        if isinstance(r, tuple) and r[0] == "const":
            # type alias such as ``TSpatialTransform = TypeVar(..., bound=...)`` or Union[...] alias
            _, cmi, expr = r
            if isinstance(expr, ast.Call) and (dotted(expr.func) or "").endswith("TypeVar"):
                for kw in expr.keywords:
                    if kw.arg == "bound":
                        return self.ann_type(cmi, kw.value)
                return TOP
            if isinstance(expr, (ast.Subscript, ast.Name, ast.Attribute)):
                return self.ann_type(cmi, expr)
            return TOP
        if d in _BUILTIN_ANN:
            return T(_BUILTIN_ANN[d])
        short = d.split(".")[-1]
        if short in _BUILTIN_ANN:
            return T(_BUILTIN_ANN[short])
        if isinstance(r, tuple) and r[0] == "external":
            if r[1] in _BUILTIN_ANN:
                return T(_BUILTIN_ANN[r[1]])
            return T("Any")
        return TOP

    # ------------------------------------------------------------ environment
    def env(self, fi: FunctionInfo) -> Dict[str, Type]:
        if fi.key in self._env_cache:
            return self._env_cache[fi.key]
        env: Dict[str, Type] = {}
        self._env_cache[fi.key] = env  # guards recursion
        a = fi.node.args
        allp = a.posonlyargs + a.args + a.kwonlyargs
        for i, p in enumerate(allp):
            if i == 0 and fi.cls is not None and not fi.is_static and p in (a.posonlyargs + a.args):
                env[p.arg] = T(("type", fi.cls)) if fi.is_classmethod else T(fi.cls)
                continue
            env[p.arg] = self.ann_type(fi.module, p.annotation)
        # two passes so that later assignments can feed earlier uses
        for _ in range(2):
            for n in walk_no_nested(fi.node):
                if isinstance(n, ast.Assign):
                    t = self.infer(fi, n.value, env)
                    for tgt in n.targets:
                        self._bind(fi, tgt, t, n.value, env)
                        if isinstance(tgt, ast.Name):
                            et = self._seq_elem_of(fi, n.value, env)
                            if et:
                                self._seq_elem[(fi.key, tgt.id)] = et
                elif isinstance(n, ast.AnnAssign) and isinstance(n.target, ast.Name):
                    t = self.ann_type(fi.module, n.annotation)
                    if not t and n.value is not None:
                        t = self.infer(fi, n.value, env)
                    self._merge(env, n.target.id, t)
                elif isinstance(n, ast.For):
                    it = self.infer(fi, n.iter, env)
                    self._bind_iter(fi, n.target, n.iter, env)
                elif isinstance(n, ast.NamedExpr) and isinstance(n.target, ast.Name):
                    self._merge(env, n.target.id, self.infer(fi, n.value, env))
                elif isinstance(n, ast.withitem) and n.optional_vars is not None and isinstance(n.optional_vars, ast.Name):
                    self._merge(env, n.optional_vars.id, self.infer(fi, n.context_expr, env))
        # comprehension variables live in their own scope: map Name nodes inside the comprehension to the element type
        for n in walk_no_nested(fi.node):
            if isinstance(n, (ast.ListComp, ast.GeneratorExp, ast.SetComp, ast.DictComp)):
                for g in n.generators:
                    names = {}
                    if isinstance(g.target, ast.Name):
                        names[g.target.id] = self.elem_type(fi, g.iter, env)
                    else:
                        # zip(a, b, ...) / zip_longest_repeat_last(a, b, ...) with tuple target
                        if isinstance(g.target, ast.Tuple) and isinstance(g.iter, ast.Call) and \
                                (dotted(g.iter.func) or "").split(".")[-1] in ("zip", "zip_longest_repeat_last") and \
                                len(g.iter.args) == len(g.target.elts):
                            for t, a in zip(g.target.elts, g.iter.args):
                                if isinstance(t, ast.Name):
                                    names[t.id] = self.elem_type(fi, a, env)
                        for t in ast.walk(g.target):
                            if isinstance(t, ast.Name):
                                names.setdefault(t.id, TOP)
                    for sub in ast.walk(n):
                        if isinstance(sub, ast.Name) and sub.id in names and isinstance(sub.ctx, ast.Load):
                            self._comp_names[id(sub)] = names[sub.id]
        return env

    def _seq_elem_of(self, fi, value, env) -> Type:
        """Element type of ``tuple(<elt> for ...)`` / ``[<elt> for ...]`` / ``(a, b)`` expressions."""
        v = value
        if isinstance(v, ast.Call) and dotted(v.func) in ("tuple", "list") and len(v.args) == 1:
            v = v.args[0]
        if isinstance(v, (ast.GeneratorExp, ast.ListComp)):
            for g in v.generators:
                self._bind_iter(fi, g.target, g.iter, env)
            return self.infer(fi, v.elt, env)
        if isinstance(v, ast.Attribute):
            return self.elem_type(fi, v, env)
        if isinstance(v, (ast.Tuple, ast.List)) and v.elts:
            ts = [self.infer(fi, e, env) for e in v.elts]
            if all(ts) and all(t == ts[0] for t in ts):
                return ts[0]
        return TOP

    def _merge(self, env: Dict[str, Type], name: str, t: Type) -> None:
        if name not in env:
            env[name] = t
        else:
            old = env[name]
            if not old or not t:
                # unknown joins to unknown, except an annotated parameter keeps its annotation (assignments refine)
                env[name] = old if old else t
                if old and not t:
                    env[name] = frozenset(old | {"Any"})
            else:
                env[name] = frozenset(old | t)

    def _bind(self, fi, tgt, t: Type, value, env) -> None:
        if isinstance(tgt, ast.Name):
            self._merge(env, tgt.id, t)
        elif isinstance(tgt, (ast.Tuple, ast.List)):
            if isinstance(value, (ast.Tuple, ast.List)) and len(value.elts) == len(tgt.elts):
                for a, b in zip(tgt.elts, value.elts):
                    self._bind(fi, a, self.infer(fi, b, env), b, env)
            else:
                for a in tgt.elts:
                    if isinstance(a, ast.Name):
                        self._merge(env, a.id, TOP)

    def _bind_iter(self, fi, tgt, it, env) -> None:
        # for x in self.transforms(): ...   — element types of a few known iterables
        et = self.elem_type(fi, it, env)
        if isinstance(tgt, ast.Name):
            self._merge(env, tgt.id, et)
        elif isinstance(tgt, (ast.Tuple, ast.List)):
            for a in ast.walk(tgt):
                if isinstance(a, ast.Name):
                    self._merge(env, a.id, TOP)

    def elem_type(self, fi, it, env) -> Type:
        if isinstance(it, ast.Attribute):
            bt = self.infer(fi, it.value, env)
            out = set()
            for tag in bt:
                if isinstance(tag, ClassInfo):
                    for c in self.prog.mro(tag):
                        hint = ELEM_HINTS.get((c.name, it.attr))
                        if hint is not None:
                            out.add(self.prog.cls(*hint))
                            break
            return frozenset(out)
        if isinstance(it, ast.Name) and it.id in env:
            # a local built as tuple/list of a repo class by a comprehension over a typed iterable is not tracked
            return self._seq_elem.get((fi.key, it.id), TOP)
        if isinstance(it, ast.Call):
            callees = self.resolve_call(fi, it, env)
            out: Set[object] = set()
            for c in callees or []:
                if isinstance(c, FunctionInfo) and c.node.returns is not None:
                    r = c.node.returns
                    if isinstance(r, ast.Subscript):
                        head = (dotted(r.value) or "").split(".")[-1]
                        if head in ("Iterable", "Iterator", "Sequence", "List", "Tuple", "Generator", "ValuesView"):
                            sl = r.slice
                            if isinstance(sl, ast.Tuple):
                                sl = sl.elts[0]
                            out |= self.ann_type(c.module, sl)
            return frozenset(out)
        return TOP

    # ------------------------------------------------------------ attribute types of repo classes
    def attr_types(self, ci: ClassInfo) -> Dict[str, Type]:
        if ci.key in self._attr_cache:
            return self._attr_cache[ci.key]
        out: Dict[str, Type] = {}
        self._attr_cache[ci.key] = out
        for c in reversed(self.prog.mro(ci)):
            for st in c.node.body:
                if isinstance(st, ast.AnnAssign) and isinstance(st.target, ast.Name):
                    out[st.target.id] = self.ann_type(c.module, st.annotation)
            for m in c.methods.values():
                if m.is_static or m.is_classmethod:
                    continue
                args = m.node.args.posonlyargs + m.node.args.args
                if not args:
                    continue
                selfname = args[0].arg
                env = None
                for n in walk_no_nested(m.node):
                    tgt = val = None
                    if isinstance(n, ast.Assign):
                        for t in n.targets:
                            if isinstance(t, ast.Attribute) and isinstance(t.value, ast.Name) and t.value.id == selfname:
                                tgt, val = t, n.value
                    elif isinstance(n, ast.AnnAssign):
                        t = n.target
                        if isinstance(t, ast.Attribute) and isinstance(t.value, ast.Name) and t.value.id == selfname:
                            at = self.ann_type(c.module, n.annotation)
                            if at:
                                out[t.attr] = frozenset(out.get(t.attr, frozenset()) | at)
                            continue
                    if tgt is None:
                        continue
                    if env is None:
                        env = self.env(m)
                    vt = self.infer(m, val, env)
                    if vt:
                        out[tgt.attr] = frozenset(out.get(tgt.attr, frozenset()) | vt)
        return out

    # ------------------------------------------------------------ expression types
    def infer(self, fi: FunctionInfo, e: ast.expr, env: Optional[Dict[str, Type]] = None) -> Type:
        if env is None:
            env = self.env(fi)
        prog = self.prog
        if isinstance(e, ast.Constant):
            v = e.value
            if v is None:
                return T("None")
            return T(type(v).__name__)
        if isinstance(e, ast.Name):
            if id(e) in self._comp_names:
                return self._comp_names[id(e)]
            if e.id in env:
                return env[e.id]
            r = prog.resolve_global(fi.module, e.id)
            if isinstance(r, ClassInfo):
                return T(("type", r))
            if isinstance(r, ModuleInfo):
                return T(("module", r.name))
            if isinstance(r, FunctionInfo):
                return T("callable")
            return TOP
        if isinstance(e, (ast.Tuple,)):
            return T("tuple")
        if isinstance(e, (ast.List, ast.ListComp)):
            return T("list")
        if isinstance(e, (ast.Dict, ast.DictComp)):
            return T("dict")
        if isinstance(e, ast.JoinedStr):
            return T("str")
        if isinstance(e, ast.Compare):
            return T("bool")
        if isinstance(e, ast.BoolOp):
            out: Set[object] = set()
            for v in e.values:
                t = self.infer(fi, v, env)
                if not t:
                    return TOP
                out |= t
            return frozenset(out)
        if isinstance(e, ast.UnaryOp):
            if isinstance(e.op, ast.Not):
                return T("bool")
            return self.infer(fi, e.operand, env)
        if isinstance(e, ast.IfExp):
            a, b = self.infer(fi, e.body, env), self.infer(fi, e.orelse, env)
            return frozenset(a | b) if a and b else TOP
        if isinstance(e, ast.BinOp):
            a, b = self.infer(fi, e.left, env), self.infer(fi, e.right, env)
            if TENSOR in a or TENSOR in b:
                return T(TENSOR)
            num = {"int", "float", "bool"}
            if a and b and a <= num and b <= num:
                if isinstance(e.op, ast.Div) or "float" in a or "float" in b:
                    return T("float")
                return T("int")
            if a and a <= {"str"}:
                return T("str")
            return TOP
        if isinstance(e, ast.Attribute):
            bt = self.infer(fi, e.value, env)
            out = set()
            for tag in bt:
                if isinstance(tag, ClassInfo):
                    m = prog.find_method(tag, e.attr)
                    if m is not None:
                        if m.is_property:
                            out |= self.ann_type(m.module, m.node.returns) or {"Any"}
                        else:
                            out.add("callable")
                        continue
                    at = self.attr_types(tag).get(e.attr)
                    if at:
                        out |= at
                    else:
                        out.add("Any")
                elif isinstance(tag, tuple) and tag[0] == "module":
                    r = prog.resolve_global(prog.modules[tag[1]], e.attr)
                    if isinstance(r, ClassInfo):
                        out.add(("type", r))
                    elif isinstance(r, ModuleInfo):
                        out.add(("module", r.name))
                    elif isinstance(r, FunctionInfo):
                        out.add("callable")
                    else:
                        out.add("Any")
                elif isinstance(tag, tuple) and tag[0] == "type":
                    ci = tag[1]
                    if e.attr in {a for c in prog.mro(ci) for a in c.class_attrs}:
                        # enum members / class constants
                        if self._is_enum(ci):
                            out.add(ci)
                        else:
                            out.add("Any")
                    else:
                        out.add("callable")
                elif tag == TENSOR:
                    if e.attr in ("shape",):
                        out.add("tuple")
                    elif e.attr in ("ndim",):
                        out.add("int")
                    elif e.attr in ("dtype", "device"):
                        out.add("Any")
                    elif e.attr in ("T", "mT", "data", "real", "grad"):
                        out.add(TENSOR)
                    else:
                        out.add("callable")
                else:
                    out.add("Any")
            return frozenset(out)
        if isinstance(e, ast.Subscript):
            bt = self.infer(fi, e.value, env)
            if bt and all(t == TENSOR or (isinstance(t, ClassInfo) and self.is_tensor_class(t)) for t in bt):
                return bt if all(isinstance(t, ClassInfo) for t in bt) else T(TENSOR)
            return TOP
        if isinstance(e, ast.Call):
            return self.call_type(fi, e, env)
        if isinstance(e, ast.Lambda):
            return T("callable")
        return TOP

    def _is_enum(self, ci: ClassInfo) -> bool:
        return any(x.split(".")[-1] in ("Enum", "IntEnum", "Flag") for x in self.prog.all_external_bases(ci))

    def is_tensor_class(self, ci: ClassInfo) -> bool:
        return any(x in ("Tensor", "torch.Tensor") for x in self.prog.all_external_bases(ci))

    def call_type(self, fi: FunctionInfo, call: ast.Call, env: Dict[str, Type]) -> Type:
        f = call.func
        d = dotted(f)
        if d in ("int", "len", "round"):
            return T("int")
        if d == "float":
            return T("float")
        if d == "bool" or d == "isinstance" or d == "callable" or d == "hasattr":
            return T("bool")
        if d == "str":
            return T("str")
        if d in ("tuple",):
            return T("tuple")
        if d in ("list", "sorted"):
            return T("list")
        if d in ("dict",):
            return T("dict")
        if d in ("shallow_copy", "copy.copy", "deepcopy", "copy.deepcopy", "copy") and call.args:
            return self.infer(fi, call.args[0], env)
        if d in ("cast", "typing.cast") and len(call.args) == 2:
            return self.ann_type(fi.module, call.args[0]) or self.infer(fi, call.args[1], env)
        if d == "super":
            return TOP
        callees = self.resolve_call(fi, call, env)
        if callees:
            out: Set[object] = set()
            for c in callees:
                if isinstance(c, ClassInfo):
                    out.add(c)
                elif isinstance(c, FunctionInfo):
                    rt = self._return_type(c, call)
                    if not rt:
                        return TOP
                    # ``-> TypeVar bound to X`` on a method called on a subclass instance: keep receiver's class
                    out |= rt
            return frozenset(out)
        if d and (d.startswith("torch.") or d.startswith("F.")):
            full = d
            if full in _TORCH_NON_TENSOR:
                return T(_TORCH_NON_TENSOR[full])
            return T(TENSOR)
        if isinstance(f, ast.Attribute):
            bt = self.infer(fi, f.value, env)
            if bt and bt <= {TENSOR}:
                if f.attr in ("item",):
                    return T("float")
                if f.attr in ("tolist",):
                    return T("list")
                if f.attr in ("size",):
                    return T("tuple") if not call.args else T("int")
                if f.attr in ("dim", "numel", "nelement"):
                    return T("int")
                if f.attr in ("is_floating_point", "is_contiguous", "is_cuda"):
                    return T("bool")
                if f.attr in ("numpy",):
                    return T("Any")
                if f.attr in ("split", "chunk", "unbind", "tensor_split"):
                    return T("tuple")
                return T(TENSOR)
        return TOP

    def _return_type(self, c: FunctionInfo, call: ast.Call) -> Type:
        nodes = [c.node]
        if c.overloads:
            nargs = len(call.args) + len(call.keywords)
            cands = []
            for o in c.overloads:
                a = o.args
                pos = a.posonlyargs + a.args
                if c.cls is not None and not c.is_static:
                    pos = pos[1:]
                req = len(pos) - len(a.defaults) + sum(1 for d in a.kw_defaults if d is None)
                mx = len(pos) + len(a.kwonlyargs)
                if a.vararg is not None or a.kwarg is not None:
                    mx = 10 ** 6
                if req <= nargs <= mx:
                    cands.append(o)
            if cands:
                nodes = cands
        out: Set[object] = set()
        for n in nodes:
            t = self.ann_type(c.module, n.returns)
            if not t:
                return TOP
            out |= t
        return frozenset(out)

    # ------------------------------------------------------------ call resolution
    def resolve_call(self, fi: FunctionInfo, call: ast.Call, env: Optional[Dict[str, Type]] = None):
        """Return list of callee FunctionInfo/ClassInfo (may-set), or None when not a repo callee / unknown."""
        if env is None:
            env = self.env(fi)
        prog = self.prog
        f = call.func
        if isinstance(f, ast.Name):
            if f.id in env and f.id not in ("self",):
                # local variable holding a callable: unknown unless type says class object
                t = env[f.id]
                out = [tag[1] for tag in t if isinstance(tag, tuple) and tag[0] == "type"]
                return out or None
            r = prog.resolve_global(fi.module, f.id)
            if isinstance(r, (FunctionInfo, ClassInfo)):
                return [r]
            return None
        if isinstance(f, ast.Attribute):
            # super().m(...)
            if isinstance(f.value, ast.Call) and isinstance(f.value.func, ast.Name) and f.value.func.id == "super":
                if fi.cls is None:
                    return None
                m = prog.find_method(fi.cls, f.attr, after=fi.cls)
                return [m] if m is not None else None
            bt = self.infer(fi, f.value, env)
            if not bt:
                return None
            out = []
            unknown = False
            for tag in bt:
                if isinstance(tag, ClassInfo):
                    m = prog.find_method(tag, f.attr)
                    if m is not None:
                        if m not in out:
                            out.append(m)
                    else:
                        unknown = True
                elif isinstance(tag, tuple) and tag[0] == "type":
                    m = prog.find_method(tag[1], f.attr)
                    if m is not None and m not in out:
                        out.append(m)
                    elif m is None:
                        unknown = True
                elif isinstance(tag, tuple) and tag[0] == "module":
                    r = prog.resolve_global(prog.modules[tag[1]], f.attr)
                    if isinstance(r, (FunctionInfo, ClassInfo)):
                        if r not in out:
                            out.append(r)
                    else:
                        unknown = True
                elif tag == "None":
                    continue
                else:
                    unknown = True
            if unknown and out:
                # partially resolved: report only when every non-None alternative resolved
                return None
            return out or None
        return None

    def resolve_call_unique(self, fi: FunctionInfo, call: ast.Call) -> Optional[FunctionInfo]:
        r = self.resolve_call(fi, call)
        if r and len(r) == 1:
            c = r[0]
            if isinstance(c, ClassInfo):
                init = self.prog.find_method(c, "__init__")
                return init
            return c
        return None


def iter_calls(fi: FunctionInfo):
    for n in walk_no_nested(fi.node):
        if isinstance(n, ast.Call):
            yield n
