"""Command line driver shared by all property checks."""
from __future__ import annotations

import argparse
import importlib
import json
import os
import sys
import time
import traceback
from typing import Any, Dict, List, Optional, Tuple

from .core import Ctx, EVIDENCE_DIR, Finding, load_known, write_evidence
from .index import AnalysisError, Program, SRC_ROOT


def run_property(prop: str, tier: str, overlay: Optional[Dict[str, str]] = None, holder: Optional[list] = None,
                 stop_when=None, focus: Optional[str] = None) -> Ctx:
    mod = importlib.import_module(f"sa.props.{prop}")
    prog = Program(SRC_ROOT, overlay)
    ctx = Ctx(prop, tier, prog)
    ctx.stop_when = stop_when
    ctx.focus = focus  # mutation self-test: evaluate only the table obligations of the rule (prefix) expected to report the mutant
    if holder is not None:
        holder.append(ctx)
    # cross-cutting rule on the property's anchor files: options are handed on to callees (sa/siblings.py::option_forward)
    from . import siblings
    late = None
    try:
        mod.run(ctx)
    except AnalysisError as e:
        late = e
    siblings.option_forward(ctx, anchor_modules(prop, prog))
    siblings.module_state(ctx, anchor_modules(prop, prog))
    if late is not None:
        raise late
    return ctx


def anchor_modules(prop: str, prog: Program) -> List[str]:
    """Module names of the files listed under anchors.files of the property (properties.jsonl)."""
    import json
    here = os.path.dirname(os.path.dirname(os.path.abspath(__file__)))
    out: List[str] = []
    with open(os.path.join(here, "properties.jsonl")) as fh:
        for line in fh:
            d = json.loads(line)
            if d["id"] != prop:
                continue
            for f in d["anchors"]["files"]:
                if not f.startswith("src/") or not f.endswith(".py"):
                    continue
                name = f[4:-3].replace("/", ".")
                if name.endswith(".__init__"):
                    name = name[:-9]
                if name not in prog.modules:
                    raise AnalysisError(f"anchor file vanished: {f}")
                out.append(name)
    if not out:
        raise AnalysisError(f"property {prop} has no anchor files")
    return out


def _mutant_worker(args) -> Tuple[str, bool, List[str], str]:
    prop, name, overlay, expect, baseline_keys = args
    try:
        holder: list = []
        from .core import EarlyStop
        stop = (lambda f: f.key not in baseline_keys and (expect in f.key if expect else True))
        try:
            import re
            focus = expect if expect and re.match(r"^[TE]\d+x?\.", expect) else None
            ctx = run_property(prop, "quick", overlay, holder, stop_when=stop, focus=focus)
        except EarlyStop:
            ctx = holder[0]
        except AnalysisError:
            if holder and holder[0].findings:
                ctx = holder[0]
            else:
                raise
        new = [f.key for f in ctx.findings if f.key not in baseline_keys]
        killed = any(expect in k for k in new) if expect else bool(new)
        return name, killed, new[:5], ""
    except AnalysisError as e:
        # a mutant that makes the analyser fail closed is detected (exit 2 on that tree), but not as violation
        return name, False, [], f"analysis-error: {e}"
    except Exception as e:  # pragma: no cover
        return name, False, [], f"crash: {type(e).__name__}: {e}"


def _mutant_child(job, conn) -> None:
    try:
        conn.send(_mutant_worker(job))
    except BaseException as e:  # pragma: no cover
        try:
            conn.send((job[1], False, [], f"crash: {type(e).__name__}: {e}"))
        except Exception:
            pass
    finally:
        conn.close()
        os._exit(0)


def selftest(prop: str, ctx: Ctx) -> Dict[str, Any]:
    """Thorough tier: AST-computed single edits of today's source must each be reported by this property's rules."""
    mod = importlib.import_module(f"sa.props.{prop}")
    gen = getattr(mod, "mutants", None)
    if gen is None:
        return {"programs": 0, "disagreements_checked": 0, "mutants": []}
    muts = list(gen(ctx.prog))
    only = os.environ.get("VERIF_MUTANT_ONLY")  # development aid: substring filter on mutant names (never set by registered commands)
    if only:
        muts = [m for m in muts if any(o in m[0] for o in only.split("|"))]
    baseline = {f.key for f in ctx.findings}
    jobs = [(prop, name, overlay, expect, baseline) for (name, overlay, expect) in muts]
    results = []
    if jobs:
        # one forked process per mutant, at most 16 at a time, each with a wall-clock budget: a mutant that makes the analysis
        # diverge (e.g. a broken identity blowing up the normal forms) or crash is recorded as "not killed", never hangs the run
        import multiprocessing as mp
        mpc = mp.get_context("fork")
        budget = float(os.environ.get("VERIF_MUTANT_TIMEOUT", "1800"))
        pending = list(enumerate(jobs))
        running: Dict[int, Any] = {}
        out: Dict[int, Any] = {}
        while pending or running:
            while pending and len(running) < 16:
                i, job = pending.pop(0)
                rd, wr = mpc.Pipe(duplex=False)
                pr = mpc.Process(target=_mutant_child, args=(job, wr))
                pr.start()
                wr.close()
                running[i] = (pr, rd, time.time(), job[1])
            for i in list(running):
                pr, rd, t0, name = running[i]
                if rd.poll(0.05):
                    try:
                        out[i] = rd.recv()
                    except EOFError:
                        out[i] = (name, False, [], "worker died")
                    pr.join(5)
                    del running[i]
                elif not pr.is_alive():
                    out[i] = (name, False, [], f"worker exited with code {pr.exitcode}")
                    del running[i]
                elif time.time() - t0 > budget:
                    pr.kill()
                    pr.join(5)
                    out[i] = (name, False, [], f"analysis of the mutant exceeded {int(budget)} s")
                    del running[i]
        results = [out[i] for i in sorted(out)]
    killed = [r for r in results if r[1]]
    survived = [r for r in results if not r[1]]
    return {
        "programs": len(results),
        "disagreements_checked": len(killed),
        "mutants_killed": len(killed),
        "mutants_survived": [{"name": r[0], "note": r[3]} for r in survived],
        "mutant_samples": [{"name": r[0], "reported": r[2]} for r in killed[:12]],
    }


def main(argv: List[str]) -> None:
    ap = argparse.ArgumentParser(prog="check")
    ap.add_argument("prop")
    ap.add_argument("--tier", default=os.environ.get("VERIF_TIER", "quick"), choices=["quick", "thorough"])
    ap.add_argument("--replay", default=None)
    ap.add_argument("--explain", default=None)
    ap.add_argument("--no-evidence", action="store_true")
    args = ap.parse_args(argv)
    prop = args.prop
    t0 = time.time()
    ctx: Optional[Ctx] = None
    holder: list = []
    try:
        late_error = None
        try:
            ctx = run_property(prop, args.tier, holder=holder)
        except AnalysisError as e:
            # a violation already established by an earlier rule stands even if a later rule fails closed
            if holder and holder[0].findings:
                ctx = holder[0]
                late_error = str(e)
                ctx.notes.append("ANALYSIS-ERROR after findings: " + late_error)
                print(f"note: analysis stopped early ({late_error}); reporting findings established before that")
            else:
                raise
        if os.environ.get("VERIF_COVERAGE"):  # development audit (tools/coverage_audit.py): which repo functions the interpreter executed
            from . import tae as _tae
            with open(os.environ["VERIF_COVERAGE"], "w") as fh:
                json.dump(sorted(_tae.EXECUTED or ()), fh)
        extra: Dict[str, Any] = {}
        if args.tier == "thorough" and not args.replay:
            extra = selftest(prop, ctx)
        known = load_known()
        known_keys = {k["key"]: k for k in known.get("known", []) if k.get("property") == prop}
        hits, new = [], []
        for f in ctx.findings:
            (hits if f.key in known_keys else new).append(f)
        if late_error is not None and not new and not args.replay:
            # only recorded findings were established before the analysis failed: that is an incomplete run, not a pass
            raise AnalysisError(late_error)
        if args.replay:
            with open(args.replay) as fh:
                rep = json.load(fh)
            want = rep.get("key")
            cur = [f for f in ctx.findings if f.key == want]
            if cur:
                f = cur[0]
                print(f"REPLAY reproduced: {f.file}:{f.line} [{f.rule}] {f.where} {f.construct}: {f.message}")
                print(f"VIOLATION property={prop} replay={args.replay}")
                sys.exit(1)
            print(f"REPLAY: finding {want} no longer reported on the current tree")
            sys.exit(0)
        for f in hits:
            print(f"KNOWN-FINDING: property={prop} {f.rule} {f.where} {f.construct}: {known_keys[f.key].get('what', f.message)}")
        stale = [k for k in known_keys if k not in {f.key for f in hits}]
        for k in stale:
            print(f"note: known finding no longer reported (repaired?): {k}")
        replay_paths = []
        if new:
            os.makedirs(os.path.join(EVIDENCE_DIR, "replay"), exist_ok=True)
            for i, f in enumerate(new):
                rp = os.path.join(EVIDENCE_DIR, "replay", f"{prop}-{i}.json")
                d = f.as_dict()
                d["explain_cmd"] = f"./check {prop} --replay {rp}"
                with open(rp, "w") as fh:
                    json.dump(d, fh, indent=1, default=str)
                replay_paths.append(rp)
        if not args.no_evidence:
            write_evidence(ctx, time.time() - t0, len(new), [f.key for f in hits], extra)
        print(f"{prop} [{args.tier}]: {ctx.obligations} obligations, {ctx.discharged} discharged, "
              f"{len(ctx.functions_analysed)} functions, {len(new)} new findings, {len(hits)} known"
              + (f", mutants {extra.get('mutants_killed')}/{extra.get('programs')} killed" if extra.get("programs") else ""))
        for s in (extra.get("mutants_survived") or []):
            print(f"SELFTEST-SURVIVOR: {s['name']} {s['note']}")
        if new:
            for f, rp in zip(new, replay_paths):
                print(f"  {f.file}:{f.line}: [{f.rule}] {f.where} {f.construct}: {f.message}")
                print(f"VIOLATION property={prop} replay={rp}")
            sys.exit(1)
        sys.exit(0)
    except AnalysisError as e:
        if os.environ.get("VERIF_TRACE"):
            traceback.print_exc()
        print(f"ANALYSIS-ERROR property={prop}: {e}")
        _err_evidence(prop, args.tier, ctx, t0, str(e), holder)
        sys.exit(2)
    except SystemExit:
        raise
    except BaseException as e:
        traceback.print_exc()
        print(f"ANALYSIS-ERROR property={prop}: internal {type(e).__name__}: {e}")
        _err_evidence(prop, args.tier, ctx, t0, f"internal {type(e).__name__}: {e}", holder)
        sys.exit(2)


def _err_evidence(prop, tier, ctx, t0, msg, holder=None) -> None:
    try:
        if ctx is None and holder:
            ctx = holder[0]
        if ctx is None:
            from .index import load_program
            ctx = Ctx.__new__(Ctx)
            Ctx.__init__(ctx, prop, tier)
        ctx.notes.append("ANALYSIS-ERROR: " + msg)
        write_evidence(ctx, time.time() - t0, 0, [], status="analysis-error")
    except Exception:
        pass
