"""T11x: scaling-and-squaring pipeline (C11) evaluated over the ring domain with torch's grid_sample uninterpreted.

Every call that reaches torch.nn.functional.grid_sample is recorded; obligations are stated on the recorded arguments
(what is sampled, where, with which convention) and on the algebraic shape of the result.
"""
from __future__ import annotations

from fractions import Fraction
from typing import Any, Dict, List, Optional, Tuple

from .. import symt, tae
from ..core import Ctx
from ..index import AnalysisError
from ..ring import Rat, reset_relations
from ..symt import InterpError, STensor, Unsupported, to_rat
from ..tae import Interp, Obj
from .gridsym import fresh_facts
from .t1_grid import _guard, make_interp, teq, tstr


def identity_coords(shape: Tuple[int, ...], align_corners: bool) -> STensor:
    """Reference normalised coordinates of the sample lattice, (…, X, D) with (x, y, z) channel order (own formula)."""
    import itertools
    D = len(shape)
    vals = []
    for ix in itertools.product(*[range(n) for n in shape]):
        for d in range(D):  # coordinate d = x first -> last tensor dim
            n = shape[D - 1 - d]
            i = ix[D - 1 - d]
            if n == 1:
                vals.append(Rat.of(0))
            elif align_corners:
                vals.append(Rat.of(Fraction(2 * i, n - 1) - 1))
            else:
                vals.append(Rat.of(Fraction(2 * i + 1, n) - 1))
    return STensor.from_flat(vals, list(shape) + [D])


def run_expv(ctx: Ctx) -> None:
    prog = ctx.prog
    fX = prog.func("deepali.core.flow", "expv")
    fW = prog.func("deepali.core.flow", "warp_image")
    fG = prog.func("deepali.core.image", "grid_sample")
    for f in (fX, fW, fG, prog.func("deepali.core.image", "check_sample_grid"), prog.func("deepali.core.tensor", "move_dim")):
        ctx.fn(f)
    ctx.rule("T11x.expv", "expv(v, scale, steps, align_corners, inverse): exactly `steps` sampling calls; call k samples the running field "
                          "d_k at identity_coords(convention) + d_k (channels last) with torch's align_corners equal to the given flag and "
                          "border padding; d_0 = v * (+/-scale) / 2^steps; d_{k+1} = d_k + sample_k; result = d_steps; steps = 0 returns v * scale; "
                          "inverse=True equals scale -> -scale")
    for D, shape in ((2, (3, 4)), (3, (2, 3, 2))):
        for ac in (True, False):
            for steps in (0, 1, 3):
                for scale, inverse in ((None, False), (Fraction(3, 5), False), (Fraction(3, 5), True), (-2, False), (1, True)):
                    tag = f"D={D}:ac={ac}:steps={steps}:scale={scale}:inverse={inverse}"

                    def th(D=D, shape=shape, ac=ac, steps=steps, scale=scale, inverse=inverse):
                        reset_relations()
                        fresh_facts()
                        it = make_interp(ctx)
                        v = STensor.symbols("v", [2, D] + list(shape))
                        del symt.GRID_SAMPLE_CALLS[:]
                        out = it.call(fX, v, scale=scale, steps=steps, align_corners=ac, inverse=inverse)
                        calls = list(symt.GRID_SAMPLE_CALLS)
                        eff = (1 if scale is None else scale) * (-1 if inverse else 1)
                        if len(calls) != steps:
                            return False, f"{len(calls)} sampling calls for steps={steps}"
                        d = v.mul(Fraction(eff) / 2 ** steps)
                        ident = identity_coords(shape, ac)
                        for k, c in enumerate(calls):
                            if c["align_corners"] is not ac and c["align_corners"] != ac:
                                return False, f"call {k}: torch grid_sample align_corners={c['align_corners']} but expv was given {ac}"
                            if c["padding_mode"] != "border" or c["mode"] != "bilinear":
                                return False, f"call {k}: mode={c['mode']} padding_mode={c['padding_mode']} (defaults are linear/border)"
                            if not teq(c["input"], d):
                                return False, f"call {k}: sampled field is not the running field d_{k}"
                            want_grid = ident.unsqueeze(0).add(_channels_last(d))
                            if not teq(c["grid"], want_grid):
                                return False, (f"call {k}: sampling positions are not identity_coords(align_corners={ac}) + d_{k}: "
                                               f"first point {tstr(c['grid'].reshape([-1, D])[0])} expected {tstr(want_grid.reshape([-1, D])[0])}")
                            d = d.add(_replay(k, c))
                        if not teq(out, d):
                            return False, "result is not d_0 + sum of sampled increments"
                        return True, ""
                    _guard(ctx, "T11x.expv", tag, fX, f"expv {tag}", th)

    ctx.rule("T11x.dtype", "expv on a float64 (float32) field works in that precision throughout: the sampled field and the sampling "
                           "positions handed to torch.grid_sample are of the field's dtype, no tensor computed in a narrower float type "
                           "enters the arithmetic (type-promotion events of the dtype-tracking interpreter), and the result has the field's dtype")
    for D, shape in ((2, (3, 4)), (3, (2, 3, 2))):
        for ac in (True, False):
            for dtype in (symt.DOUBLE, symt.FLOAT):
                def thd(D=D, shape=shape, ac=ac, dtype=dtype):
                    reset_relations()
                    fresh_facts()
                    it = make_interp(ctx)
                    v0 = STensor.symbols("v", [1, D] + list(shape))
                    v = STensor(list(v0.flat()), list(range(v0.numel())), list(v0.shape), dtype)
                    del symt.GRID_SAMPLE_CALLS[:]
                    del symt.PRECISION_EVENTS[:]
                    out = it.call(fX, v, steps=2, align_corners=ac)
                    calls = list(symt.GRID_SAMPLE_CALLS)
                    if len(calls) != 2:
                        raise AnalysisError(f"dtype scenario: {len(calls)} sampling calls")
                    for k, c in enumerate(calls):
                        if c["input"].dtype.name != dtype.name or c["grid"].dtype.name != dtype.name:
                            return False, (f"call {k}: torch.grid_sample gets a {c['input'].dtype.name} field and {c['grid'].dtype.name} "
                                           f"positions for a {dtype.name} velocity field")
                    if symt.PRECISION_EVENTS:
                        n, w = symt.PRECISION_EVENTS[0]
                        return False, (f"a {n} tensor is mixed into {w} arithmetic ({len(symt.PRECISION_EVENTS)} promotion events): part of the "
                                       f"computation on a {dtype.name} field is carried out in {n} precision")
                    if out.dtype.name != dtype.name:
                        return False, f"result dtype {out.dtype.name} for a {dtype.name} field"
                    return True, ""
                _guard(ctx, "T11x.dtype", f"D={D}:ac={ac}:{dtype.name}", fX, f"expv dtype={dtype.name} D={D} align_corners={ac}", thd)


def _channels_last(t: STensor) -> STensor:
    nd = t.ndim
    return t.permute([0] + list(range(2, nd)) + [1])


def _replay(k: int, c: Dict[str, Any]) -> STensor:
    """Recompute what the grid_sample model returned for recorded call k (opaque values are named by argument digest)."""
    saved = list(symt.GRID_SAMPLE_CALLS)
    try:
        return symt.grid_sample(c["input"], c["grid"], c["mode"], c["padding_mode"], c["align_corners"])
    finally:
        del symt.GRID_SAMPLE_CALLS[:]
        symt.GRID_SAMPLE_CALLS.extend(saved)


def run_expflow(ctx: Ctx) -> None:
    prog = ctx.prog
    E = prog.cls("deepali.modules.flow", "ExpFlow")
    fF = prog.func("deepali.modules.flow", "ExpFlow.forward")
    fX = prog.func("deepali.core.flow", "expv")
    ctx.fn(fF)
    ctx.fn(prog.func("deepali.modules.flow", "ExpFlow.inverse"))
    ctx.rule("T11x.expflow", "ExpFlow(scale, steps, align_corners): forward(x, inverse) reaches expv with net scale = scale * (-1 if inverse), "
                             "the stored steps and align_corners; inverse()/inv negate the scale exactly once on a copy (original unchanged); "
                             "inverse().inverse() restores it")
    for scale in (None, Fraction(1, 2), -3):
        for steps in (None, 0, 2):  # (0 is a legal value that must not be mistaken for "not given")
            for ac in (True, False):
                def th(scale=scale, steps=steps, ac=ac):
                    reset_relations()
                    fresh_facts()
                    it = make_interp(ctx)
                    rec: List[Dict[str, Any]] = []

                    def fake_expv(interp, args, kwargs):
                        names = fX.pos_params
                        b = dict(zip(names, args))
                        b.update(kwargs)
                        sc = b.get("scale")
                        sc = 1 if sc is None else sc
                        rec.append({"flow": b.get("flow"), "net": Fraction(sc) * (-1 if b.get("inverse", False) else 1),
                                    "steps": 5 if b.get("steps") is None else b.get("steps"),
                                    "align_corners": b.get("align_corners", True)})
                        return b.get("flow")
                    it.overrides[fX.key] = fake_expv
                    m = it.new(E, scale=scale, steps=steps, align_corners=ac)
                    x = STensor.symbols("x", [1, 2, 2, 2])
                    s0 = Fraction(1 if scale is None else scale)
                    k0 = 5 if steps is None else steps
                    plan = [("forward", lambda: it.method(m, "forward", x), s0),
                            ("forward(inverse=True)", lambda: it.method(m, "forward", x, inverse=True), -s0),
                            ("inverse().forward", lambda: it.method(it.method(m, "inverse"), "forward", x), -s0),
                            ("inv.forward", lambda: it.method(it.getattr(m, "inv"), "forward", x), -s0),
                            ("inverse().forward(inverse=True)", lambda: it.method(it.method(m, "inverse"), "forward", x, inverse=True), s0),
                            ("inverse().inverse().forward", lambda: it.method(it.method(it.method(m, "inverse"), "inverse"), "forward", x), s0),
                            ("forward after inverse() was taken", lambda: it.method(m, "forward", x), s0)]
                    for name, call, want in plan:
                        del rec[:]
                        call()
                        if len(rec) != 1:
                            return False, f"{name}: expv reached {len(rec)} times"
                        r = rec[0]
                        if r["net"] != want:
                            return False, f"{name}: net scale {r['net']} expected {want}"
                        if r["steps"] != k0 or r["align_corners"] != ac:
                            return False, f"{name}: steps={r['steps']} align_corners={r['align_corners']} expected {k0}, {ac}"
                        if r["flow"] is not x:
                            return False, f"{name}: expv not applied to the input field"
                    return True, ""
                _guard(ctx, "T11x.expflow", f"scale={scale}:steps={steps}:ac={ac}", fF, f"ExpFlow scale={scale} steps={steps} align_corners={ac}", th)


def run_svf_steps(ctx: Ctx) -> None:
    """The stationary velocity models with every documented number of squaring steps, including none."""
    from .t6_transforms import TEnv
    prog = ctx.prog
    ctx.rule("T11x.svf-steps", "StationaryVelocityFieldTransform / StationaryVelocityFreeFormDeformation constructed with steps in {0, 1} and "
                               "scale in {default, 1/2}: update() followed by tensor() / disp() succeeds and the buffered displacement is the "
                               "k-step exponential of the buffered velocity (k = 0: u = scale * v)")
    fX = prog.func("deepali.core.flow", "expv")
    for mod, cls, kw0 in (("deepali.spatial.nonrigid", "StationaryVelocityFieldTransform", {}),
                          ("deepali.spatial.bspline", "StationaryVelocityFreeFormDeformation", {"stride": 2})):
        ci = prog.cls(mod, cls)
        fU = prog.find_method(ci, "update")
        ctx.fn(fU)
        for steps in (0, 1):
            for scale in (None, Fraction(1, 2)):
                def th(mod=mod, cls=cls, kw0=kw0, steps=steps, scale=scale):
                    env = TEnv(ctx, 2)
                    it = env.it
                    kw = dict(kw0, steps=steps)
                    if scale is not None:
                        kw["scale"] = scale
                    t = env.make(mod, cls, kw, "buffer")
                    it.method(t, "update")
                    u = it.method(t, "tensor")
                    v = it.getattr(t, "v")
                    want = it.call(fX, v.clone(), scale=scale, steps=steps, align_corners=bool(it.method(it.method(t, "grid"), "align_corners")))
                    if tuple(u.shape) != tuple(want.shape) or not teq(u, want):
                        return False, f"{cls}(steps={steps}, scale={scale}): tensor() is not expv(v, scale, steps)"
                    d = it.method(t, "disp")
                    if tuple(d.shape) != tuple(u.shape):
                        return False, f"disp() shape {tuple(d.shape)}"
                    return True, ""
                _guard(ctx, "T11x.svf-steps", f"{cls}:steps={steps}:scale={scale}", fU, f"class={cls} steps={steps} scale={scale}", th)
