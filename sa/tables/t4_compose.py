"""T4: composition algebra of flows and velocity fields (C13): BCH coefficient table with a formal Lie bracket,
compose_flows dataflow / identities, convention forwarding through logv (torch.grid_sample recorded)."""
from __future__ import annotations

from fractions import Fraction
from typing import Any, Dict, List, Tuple

from .. import symt, tae
from ..core import Ctx
from ..index import AnalysisError
from ..ring import Rat, reset_relations
from ..symt import InterpError, STensor, Unsupported, to_rat
from .gridsym import fresh_facts
from .t1_grid import _guard, make_interp, teq, tstr
from .t11_expv import _channels_last, identity_coords

# BCH series for w = log(exp(v) o exp(u)) with X = v, Y = u (Dynkin form up to 4th order; cf. Vercauteren et al. 2008,
# Bossa & Olmos 2008):  X + Y + 1/2 [X,Y] + 1/12 [X,[X,Y]] - 1/12 [Y,[X,Y]] - 1/24 [Y,[X,[X,Y]]]
BCH = {
    0: {"u": 1, "v": 1},
    1: {"[v,u]": Fraction(1, 2)},
    2: {"[v,[v,u]]": Fraction(1, 12)},
    3: {"[u,[v,u]]": Fraction(-1, 12)},
    4: {"[u,[v,[v,u]]]": Fraction(-1, 48)},  # first of the two equal fourth-order contributions
    5: {"[u,[v,[v,u]]]": Fraction(-1, 48)},  # second one (together -1/24)
}


def run_bch(ctx: Ctx) -> None:
    prog = ctx.prog
    fC = prog.func("deepali.core.flow", "compose_svfs")
    fL = prog.func("deepali.core.flow", "lie_bracket")
    ctx.fn(fC)
    ctx.rule("T4.bch", "compose_svfs(u, v, bch_terms=k): with the Lie bracket treated as a formal bilinear symbol, the result is exactly the BCH "
                       "series truncated after k bracket terms (coefficients 1/2, 1/12, -1/12, -1/48, -1/48 on [v,u], [v,[v,u]], [u,[v,u]], "
                       "[u,[v,[v,u]]]); options (mode, sigma, spacing, stride) reach every bracket; k = 0 is u + v; commuting fields give u + v for all k")
    for k in range(0, 6):
        def th(k=k):
            reset_relations()
            fresh_facts()
            it = make_interp(ctx)
            shape = [1, 2, 2, 2]
            names: Dict[int, str] = {}
            calls: List[Dict[str, Any]] = []
            u = STensor.symbols("u", shape)
            v = STensor.symbols("v", shape)
            names[id(u)], names[id(v)] = "u", "v"
            keep = [u, v]

            def fake_bracket(interp, args, kwargs):
                a, b = args[0], args[1]
                na, nb = names.get(id(a)), names.get(id(b))
                if na is None or nb is None:
                    raise Unsupported("lie_bracket called on a value that is not u, v or a previous bracket")
                nm = f"[{na},{nb}]"
                calls.append(dict(kwargs))
                r = STensor.from_flat([Rat.atom(f"{nm}#{i}") for i in range(8)], shape)
                names[id(r)] = nm
                keep.append(r)
                return r
            it.overrides[fL.key] = fake_bracket
            opts = dict(mode="central", sigma=Fraction(1, 2), spacing=Fraction(3, 2), stride=2)
            w = it.call(fC, u, v, bch_terms=k, **opts)
            want: Dict[str, Fraction] = {}
            for j in range(0, k + 1):
                for nm, c in BCH[j].items():
                    want[nm] = want.get(nm, 0) + Fraction(c)
            # read coefficients entry 0
            got: Dict[str, Fraction] = {}
            e0 = to_rat(w.flat()[0])
            if not e0.den.is_const():
                return False, "result is not a linear combination"
            for m, c in e0.num.terms.items():
                if len(m) != 1 or m[0][1] != 1:
                    return False, f"non-linear term {m}"
                a = m[0][0]
                nm = a.split("#")[0] if "#" in a else ("u" if a.startswith("u") else "v")
                got[nm] = got.get(nm, 0) + Fraction(c) / e0.den.const_value()
            if got != want:
                return False, f"bch_terms={k}: coefficients {dict((a, str(b)) for a, b in got.items())} expected {dict((a, str(b)) for a, b in want.items())}"
            for c in calls:
                for o, val in opts.items():
                    if c.get(o) != val:
                        return False, f"bracket call does not receive option {o}={val} (got {c.get(o)})"
            return True, ""
        _guard(ctx, "T4.bch", f"bch_terms={k}", fC, f"bch_terms={k}", th)

    def th_comm():
        reset_relations()
        fresh_facts()
        it = make_interp(ctx)
        shape = [1, 2, 2, 2]
        u, v = STensor.symbols("u", shape), STensor.symbols("v", shape)
        it.overrides[fL.key] = lambda interp, args, kwargs: symt.zeros(shape)
        for k in range(6):
            if not teq(it.call(fC, u, v, bch_terms=k), u.add(v)):
                return False, f"commuting fields, bch_terms={k}: result is not u + v"
        return True, ""
    _guard(ctx, "T4.bch", "commuting", fC, "commuting fields", th_comm)


def run_compose(ctx: Ctx) -> None:
    prog = ctx.prog
    fC = prog.func("deepali.core.flow", "compose_flows")
    fLog = prog.func("deepali.core.flow", "logv")
    ctx.fn(fC)
    ctx.fn(fLog)
    ctx.rule("T4.compose", "compose_flows(u, v, align_corners=a) = u + sample(v at identity_coords(a) + u) with torch's align_corners = a and border "
                           "padding; the zero field is a two-sided identity (exactly)")
    ctx.rule("T4.logv-iteration", "logv(flow, num_iters=2, bch_terms in {0, 1}) equals two explicit iterations of v <- compose_svfs(compose_flows(flow, "
                                  "expv(v, inverse=True)), v) on the given flow, and leaves its input tensor unchanged")
    ctx.rule("T4.logv-convention", "logv(flow, align_corners=a): every sampling call reached (through expv, compose_flows) uses align_corners = a "
                                   "and positions built from identity_coords(a)")
    for D, shape in ((2, (3, 4)), (3, (2, 2, 3))):
        for ac in (True, False):
            def th(D=D, shape=shape, ac=ac):
                reset_relations()
                fresh_facts()
                it = make_interp(ctx)
                u = STensor.symbols("u", [1, D] + list(shape))
                v = STensor.symbols("v", [1, D] + list(shape))
                del symt.GRID_SAMPLE_CALLS[:]
                w = it.call(fC, u, v, align_corners=ac)
                calls = list(symt.GRID_SAMPLE_CALLS)
                if len(calls) != 1:
                    return False, f"{len(calls)} sampling calls"
                c = calls[0]
                if bool(c["align_corners"]) != ac:
                    return False, f"torch align_corners={c['align_corners']} for align_corners={ac}"
                if c["padding_mode"] != "border":
                    return False, f"padding {c['padding_mode']}"
                if not teq(c["input"], v):
                    return False, "sampled field is not v"
                want_grid = identity_coords(shape, ac).unsqueeze(0).add(_channels_last(u))
                if not teq(c["grid"], want_grid):
                    return False, f"sampling positions are not identity_coords({ac}) + u: {tstr(c['grid'].reshape([-1, D])[0])} expected {tstr(want_grid.reshape([-1, D])[0])}"
                samp = symt.grid_sample(c["input"], c["grid"], c["mode"], c["padding_mode"], c["align_corners"])
                if not teq(w, u.add(samp)):
                    return False, "result is not u + sampled v"
                z = symt.zeros([1, D] + list(shape))
                if not teq(it.call(fC, z, v, align_corners=ac), v):
                    return False, "zero field is not a left identity: compose_flows(0, v) != v"
                if not teq(it.call(fC, u, z.clone(), align_corners=ac), u):
                    return False, "zero field is not a right identity: compose_flows(u, 0) != u"
                return True, ""
            _guard(ctx, "T4.compose", f"D={D}:ac={ac}", fC, f"compose_flows D={D} align_corners={ac}", th)

            def thn(D=D, shape=shape):
                # batches of fields (N, D, ..., X): every pair is composed on its own
                reset_relations()
                fresh_facts()
                it = make_interp(ctx)
                u = STensor.symbols("u", [2, D] + list(shape))
                v = STensor.symbols("v", [2, D] + list(shape))
                u0, v0 = u.clone(), v.clone()
                w = it.call(fC, u, v)
                if list(w.shape) != [2, D] + list(shape):
                    return False, f"result of a batch of 2 has shape {list(w.shape)}"
                for n in range(2):
                    wn = it.call(fC, u0[n:n + 1].clone(), v0[n:n + 1].clone())
                    if not teq(w[n:n + 1], wn):
                        return False, f"item {n} of the batched composition differs from composing that pair on its own"
                if not teq(u, u0) or not teq(v, v0):
                    return False, "compose_flows modified one of its arguments"
                return True, ""
            if ac:
                _guard(ctx, "T4.compose", f"D={D}:batch", fC, f"compose_flows D={D} batch of 2", thn)

            def thl(D=D, shape=shape, ac=ac):
                reset_relations()
                fresh_facts()
                it = make_interp(ctx)
                flow = STensor.symbols("w", [1, D] + list(shape))
                del symt.GRID_SAMPLE_CALLS[:]
                it.call(fLog, flow, num_iters=1, bch_terms=0, sigma=None, exp_steps=1, align_corners=ac)
                calls = list(symt.GRID_SAMPLE_CALLS)
                if len(calls) < 2:
                    return False, f"only {len(calls)} sampling calls reached"
                ident = identity_coords(shape, ac).unsqueeze(0)
                other = identity_coords(shape, not ac).unsqueeze(0)
                for i, c in enumerate(calls):
                    if bool(c["align_corners"]) != ac:
                        return False, f"sampling call {i} uses align_corners={c['align_corners']} although logv was given {ac}"
                    # positions = identity(ac) + displacement: displacement part must not contain the other convention's lattice
                    disp = c["grid"].sub(ident)
                    if any(to_rat(x).is_const() and not to_rat(x).is_zero() for x in disp.flat()):
                        d2 = c["grid"].sub(other)
                        if all((not to_rat(x).is_const()) or to_rat(x).is_zero() for x in d2.flat()):
                            return False, f"sampling call {i} builds its positions from the identity grid of the other convention"
                return True, ""
            _guard(ctx, "T4.logv-convention", f"D={D}:ac={ac}", fLog, f"logv D={D} align_corners={ac}", thl)

            for bch in (0, 1):
                def thit(D=D, shape=shape, ac=ac, bch=bch):
                    # the fixed-point iteration v <- v o (exp(-v) o flow): every iteration composes with the *given* flow, which is
                    # left untouched (the update of v must not write through an alias of the input)
                    reset_relations()
                    fresh_facts()
                    it = make_interp(ctx)
                    flow = STensor.symbols("w", [1, D] + list(shape))
                    flow0 = flow.clone()
                    got = it.call(fLog, flow, num_iters=2, bch_terms=bch, sigma=None, exp_steps=1, align_corners=ac)
                    if not teq(flow, flow0):
                        return False, f"logv(bch_terms={bch}) modified its input flow"
                    fX = prog.func("deepali.core.flow", "expv")
                    fS = prog.func("deepali.core.flow", "compose_svfs")
                    v = flow0.clone()
                    for _ in range(2):
                        u = it.call(fX, v, steps=1, align_corners=ac, inverse=True)
                        u = it.call(fC, flow0.clone(), u, align_corners=ac)
                        v = it.call(fS, u, v, bch_terms=bch, sigma=None)
                    if tuple(got.shape) != tuple(v.shape) or not teq(got, v):
                        return False, (f"logv(num_iters=2, bch_terms={bch}) differs from two explicit iterations "
                                       f"v <- compose_svfs(compose_flows(flow, expv(v, inverse=True)), v) on the given flow")
                    return True, ""
                _guard(ctx, "T4.logv-iteration", f"D={D}:ac={ac}:bch_terms={bch}", fLog, f"logv iteration D={D} align_corners={ac} bch_terms={bch}", thit)


def run_compose_dtype(ctx: Ctx) -> None:
    """compose_flows on float64 fields: exactness 'up to rounding' of the field's precision needs every operand in that precision."""
    prog = ctx.prog
    fC = prog.func("deepali.core.flow", "compose_flows")
    ctx.fn(fC)
    ctx.rule("T4.dtype", "compose_flows(u, v) on float64 (float32) fields: the field sampled and the positions handed to torch.grid_sample are of "
                         "the fields' dtype, no tensor computed in a narrower float type enters the arithmetic (promotion / cast events of the "
                         "dtype-tracking interpreter: identity coordinates built in float32 and cast up are such an event), result in that dtype")
    for D, shape in ((2, (3, 4)), (3, (2, 3, 2))):
        for ac in (True, False):
            for dtype in (symt.DOUBLE, symt.FLOAT):
                def th(D=D, shape=shape, ac=ac, dtype=dtype):
                    reset_relations()
                    fresh_facts()
                    it = make_interp(ctx)
                    u0 = STensor.symbols("u", [1, D] + list(shape))
                    v0 = STensor.symbols("v", [1, D] + list(shape))
                    u = STensor(list(u0.flat()), list(range(u0.numel())), list(u0.shape), dtype)
                    v = STensor(list(v0.flat()), list(range(v0.numel())), list(v0.shape), dtype)
                    del symt.GRID_SAMPLE_CALLS[:]
                    del symt.PRECISION_EVENTS[:]
                    del symt.WIDENING_EVENTS[:]
                    out = it.call(fC, u, v, align_corners=ac)
                    calls = list(symt.GRID_SAMPLE_CALLS)
                    if not calls:
                        raise AnalysisError("T4.dtype: no sampling call")
                    for k, c in enumerate(calls):
                        if c["input"].dtype.name != dtype.name or c["grid"].dtype.name != dtype.name:
                            return False, (f"call {k}: torch.grid_sample gets a {c['input'].dtype.name} field and {c['grid'].dtype.name} positions "
                                           f"for {dtype.name} fields")
                    evs = list(symt.PRECISION_EVENTS) + list(symt.WIDENING_EVENTS)
                    if evs:
                        n, w = evs[0]
                        return False, (f"a {n} tensor is mixed into {w} arithmetic ({len(evs)} events): part of the composition of "
                                       f"{dtype.name} fields is carried out in {n} precision")
                    if out.dtype.name != dtype.name:
                        return False, f"result dtype {out.dtype.name} for {dtype.name} fields"
                    return True, ""
                _guard(ctx, "T4.dtype", f"D={D}:ac={ac}:{dtype.name}", fC, f"compose_flows dtype={dtype.name} D={D} align_corners={ac}", th)
