"""T18: image / flow-field file round trips through every writer/reader route (C18), decided by interpreting deepali's I/O code
against specification models of numpy, io/zlib, SimpleITK, nibabel and the MetaIO / NIfTI header conventions (sa/iomodel.py)."""
from __future__ import annotations

import itertools
from fractions import Fraction
from typing import Any, Dict, List, Optional, Sequence, Tuple

from .. import iomodel as IO
from .. import symt, tae
from ..core import Ctx
from ..index import AnalysisError
from ..ring import Rat, reset_relations
from ..symt import InterpError, STensor, Unsupported, to_rat
from ..tae import Obj, STObj
from .gridsym import fresh_facts, rotation
from .t1_grid import _guard, as_h, make_interp, teq, tstr

DTYPES = ("uint8", "int16", "int32", "float32", "float64")
SIZES = {2: (3, 2), 3: (3, 2, 2)}


class IOEnv:
    def __init__(self, ctx: Ctx):
        reset_relations()
        self.ctx = ctx
        self.facts = fresh_facts()
        self.facts.generic_tiny = True
        IO.enable()
        self.it = it = make_interp(ctx)
        it.dispatch_methods = True
        prog = ctx.prog
        self.prog = prog
        self.Grid = prog.cls("deepali.core.grid", "Grid")
        self.Axes = prog.cls("deepali.core.grid", "Axes")
        # local files only: StorageObject / unlink_or_mkdir are stood in by the virtual file system
        fS = prog.func("deepali.core.storage", "StorageObject.from_path")
        it.overrides[fS.key] = lambda interp, args, kwargs: IO.HStorage(args[-1] if args else kwargs["path"])
        for mod in ("deepali.core.pathlib",):
            fU = prog.func(mod, "unlink_or_mkdir")
            it.overrides[fU.key] = lambda interp, args, kwargs: str(args[0])

    def grid(self, D: int, tag: str = "g", oriented: bool = True, size: Optional[Tuple[int, ...]] = None) -> Tuple[Obj, Dict[str, Any]]:
        size = size or SIZES[D]
        s = [Rat.atom(f"s{tag}{i}") for i in range(D)]
        o = [Rat.atom(f"o{tag}{i}") for i in range(D)]
        for x in s:
            self.facts.declare_positive(x)
        R = rotation(D, tag) if oriented else symt.eye(D)
        g = self.it.new(self.Grid, size=size, origin=STensor.from_flat(o, [D]), spacing=STensor.from_flat(s, [D]), direction=R)
        return g, {"size": size, "spacing": s, "origin": o, "R": R}

    def data(self, D: int, C: int, dtype: str, tag: str = "v", size: Optional[Tuple[int, ...]] = None) -> STensor:
        shape = [C] + list(reversed(size or SIZES[D]))
        t = STensor.symbols(tag, shape)
        if not IO.dt(dtype).is_floating_point:
            for v in t.flat():
                self.facts.integral |= set(to_rat(v).num.atoms())
        return STensor(list(t.flat()), list(range(t.numel())), shape, IO.dt(dtype))


def same_grid(env: IOEnv, g2: Obj, geo: Dict[str, Any]) -> Tuple[bool, str]:
    it = env.it
    D = len(geo["size"])
    if tuple(int(x) for x in it.method(g2, "size")) != tuple(geo["size"]):
        return False, f"size {tuple(it.method(g2, 'size'))} != {geo['size']}"
    if not teq(it.method(g2, "origin"), STensor.from_flat(geo["origin"], [D])):
        return False, f"origin {tstr(it.method(g2, 'origin'))[:100]} differs"
    if not teq(it.method(g2, "spacing"), STensor.from_flat(geo["spacing"], [D])):
        return False, f"spacing {tstr(it.method(g2, 'spacing'))[:100]} differs"
    if not teq(it.method(g2, "direction"), geo["R"]):
        return False, f"direction {tstr(it.method(g2, 'direction'))[:140]} differs"
    return True, ""


WIDEN = {"uint16": "int32", "uint32": "int64"}  # documented: torch has no unsigned 16/32-bit types


def same_data(d2, data: STensor, what: str = "") -> Tuple[bool, str]:
    if isinstance(d2, STObj):
        d2 = d2.plain()
    if not isinstance(d2, STensor):
        return False, f"{what}data is {type(d2).__name__}"
    if list(d2.shape) != list(data.shape):
        return False, f"{what}data shape {tuple(d2.shape)} != {tuple(data.shape)} (channels first)"
    want = WIDEN.get(data.dtype.name, data.dtype.name)
    if d2.dtype.name != want:
        return False, f"{what}data type {d2.dtype.name} != {want}"
    if not teq(d2, data):
        return False, f"{what}voxel values differ (e.g. {tstr(d2.reshape([-1])[:4])[:80]} vs {tstr(data.reshape([-1])[:4])[:80]})"
    return True, ""


def sitk_expect(env: IOEnv, im, data: STensor, geo: Dict[str, Any], what: str) -> Tuple[bool, str]:
    """A SimpleITK image holds `data` (channels first) on the grid `geo`."""
    D = len(geo["size"])
    C = data.shape[0]
    if not isinstance(im, IO.SitkImage):
        return False, f"{what}: not an image"
    if tuple(im.GetSize()) != tuple(geo["size"]):
        return False, f"{what}: size {im.GetSize()} != {geo['size']}"
    if im.GetNumberOfComponentsPerPixel() != C:
        return False, f"{what}: {im.GetNumberOfComponentsPerPixel()} components per pixel, expected {C}"
    if im.array.dtype.name != data.dtype.name:
        return False, f"{what}: pixel type {im.array.dtype.name} != {data.dtype.name}"
    arr = im.array if C > 1 else im.array.unsqueeze(-1)
    want = data.permute(list(range(1, D + 1)) + [0])
    if not teq(arr, want):
        return False, f"{what}: voxel values / channel order differ"
    if not teq(STensor.from_flat(list(im.origin), [D]), STensor.from_flat(geo["origin"], [D])):
        return False, f"{what}: origin differs"
    if not teq(STensor.from_flat(list(im.spacing), [D]), STensor.from_flat(geo["spacing"], [D])):
        return False, f"{what}: spacing differs"
    if not teq(STensor.from_flat(list(im.direction), [D, D]), geo["R"]):
        return False, f"{what}: direction differs (row-major direction cosines)"
    return True, ""


def sitk_make(data: STensor, geo: Dict[str, Any]) -> Any:
    D = len(geo["size"])
    C = data.shape[0]
    arr = data.permute(list(range(1, D + 1)) + [0]) if C > 1 else data[0]
    im = IO.SitkImage(arr.clone(), C > 1)
    im.origin = list(geo["origin"])
    im.spacing = list(geo["spacing"])
    im.direction = [to_rat(v) for v in geo["R"].flat()]
    return im


FORMATS = (".mha", ".nii.gz", ".nii", ".nrrd", ".mhd")


def _dtypes(quick: bool, D: int, C: int) -> Tuple[str, ...]:
    if not quick:
        return DTYPES
    return DTYPES if (C == 1 and D == 3) else ("int16", "float32")


def run_roundtrip(ctx: Ctx, quick: bool = True) -> None:
    prog = ctx.prog
    fW = prog.func("deepali.utils.imageio", "write_image")
    fR = prog.func("deepali.utils.imageio", "read_image")
    M = "deepali.utils.imageio.meta"
    N = "deepali.utils.imageio.nifti"
    S = "deepali.utils.imageio.sitk"
    for f in (fW, fR, prog.func(M, "write_meta_image"), prog.func(M, "read_meta_image"), prog.func(M, "meta_image_bytes"),
              prog.func(M, "read_meta_image_from_fileobj"), prog.func(N, "write_nifti_image"), prog.func(N, "read_nifti_image"),
              prog.func(S, "write_sitk_image"), prog.func(S, "read_sitk_image"),
              prog.func("deepali.utils.simpleitk.torch", "image_from_tensor"), prog.func("deepali.utils.simpleitk.torch", "tensor_from_image")):
        ctx.fn(f)
    ctx.rule("T18.roundtrip", "write_image(data, grid, path) followed by read_image(path) returns the same voxel values, channel count, data "
                              "type and grid (size, origin, spacing, direction) for every format route (native MetaImage, nibabel NIfTI, "
                              "SimpleITK), D in {2,3}, 1-3 channels, five dtypes, compress on/off, on oriented anisotropic symbolic grids")
    ctx.rule("T18.interop-write", "a file written by the library is read by the reference reader (MetaIO tag reference for .mha; ITK's NIfTI "
                                  "conventions for .nii) as the same image: size, components per pixel, pixel type, voxel values in (z,y,x[,c]) "
                                  "order, origin, spacing, row-major direction cosines")
    ctx.rule("T18.interop-read", "a file written by the reference writer (ITK conventions) is read by the library as the same image")
    for ext in FORMATS:
        for D in (2, 3):
            for C in (1, 2, 3):
                for compress in ((True, False) if ext == ".mha" else (True,)):
                    dts = _dtypes(quick, D, C)

                    def th(ext=ext, D=D, C=C, dts=dts, compress=compress):
                        for dtype in dts:
                            env = IOEnv(ctx)
                            it = env.it
                            g, geo = env.grid(D)
                            data = env.data(D, C, dtype)
                            path = f"/vfs/image{ext}"
                            it.call(fW, data.clone(), g, path, compress=compress)
                            d2, g2 = it.call(fR, path)
                            ok, msg = same_data(d2, data)
                            if not ok:
                                return False, f"dtype={dtype}: " + msg
                            ok, msg = same_grid(env, g2, geo)
                            if not ok:
                                return False, f"dtype={dtype}: grid " + msg
                        return True, ""
                    _guard(ctx, "T18.roundtrip", f"{ext}:D={D}:C={C}:z={compress}", fW,
                           f"format={ext} D={D} channels={C} compress={compress}", th)

                    if ext in (".mha", ".nii.gz"):
                        def thw(ext=ext, D=D, C=C, dts=dts, compress=compress):
                            for dtype in dts:
                                env = IOEnv(ctx)
                                it = env.it
                                g, geo = env.grid(D)
                                data = env.data(D, C, dtype)
                                path = f"/vfs/image{ext}"
                                it.call(fW, data.clone(), g, path, compress=compress)
                                im = IO.sitk_read(path)
                                ok, msg = sitk_expect(env, im, data, geo, f"dtype={dtype}: reference reader")
                                if not ok:
                                    return False, msg
                            return True, ""
                        _guard(ctx, "T18.interop-write", f"{ext}:D={D}:C={C}:z={compress}", fW,
                               f"library-written format={ext} D={D} channels={C} compress={compress}", thw)

                        def thr(ext=ext, D=D, C=C, dts=dts, compress=compress):
                            for dtype in dts:
                                env = IOEnv(ctx)
                                it = env.it
                                g, geo = env.grid(D)
                                data = env.data(D, C, dtype)
                                path = f"/vfs/image{ext}"
                                IO.sitk_write(sitk_make(data, geo), path, compress)
                                d2, g2 = it.call(fR, path)
                                ok, msg = same_data(d2, data)
                                if not ok:
                                    return False, f"dtype={dtype}: " + msg
                                ok, msg = same_grid(env, g2, geo)
                                if not ok:
                                    return False, f"dtype={dtype}: grid " + msg
                            return True, ""
                        _guard(ctx, "T18.interop-read", f"{ext}:D={D}:C={C}:z={compress}", fR,
                               f"reference-written format={ext} D={D} channels={C} compress={compress}", thr)

    # grids with one-sample axes (a single slice, a single row): size and dimensionality survive every route
    ctx.rule("T18.singleton", "the same three obligations (round trip, library-written file read by the reference reader, reference-written "
                              "file read by the library) on grids with singleton spatial axes: sizes (3,2,1), (3,1,2), (1,2,2), (3,1), (1,2), "
                              "1 and 2 channels — the stored image keeps its dimensionality and size")
    for ext in FORMATS:
        for size in ((3, 2, 1), (3, 1, 2), (1, 2, 2), (3, 1), (1, 2)):
            for C in (1, 2):
                D = len(size)

                if ext.startswith(".nii") and D == 2:
                    continue  # 2-D NIfTI is stored as a one-slice volume whatever the size: recorded finding of T18.roundtrip / interop

                def ths(ext=ext, size=size, C=C, D=D):
                    for route in ("roundtrip", "interop-write", "interop-read"):
                        if route != "roundtrip" and ext not in (".mha", ".nii.gz"):
                            continue
                        if route == "interop-write" and ext.startswith(".nii") and C > 1:
                            continue  # multi-channel NIfTI is written without vector intent: recorded finding of T18.interop-write
                        if route == "interop-read" and ext.startswith(".nii") and C > 1 and size[-1] == 1:
                            # a one-slice vector volume written by ITK has the header of a 2-D vector image (dim = [5, x, y, 1, 1, C]):
                            # the very file of the recorded T18.interop-read finding (grid dimension taken from dim[0])
                            continue
                        env = IOEnv(ctx)
                        it = env.it
                        g, geo = env.grid(D, size=size)
                        data = env.data(D, C, "float32", size=size)
                        path = f"/vfs/image{ext}"
                        if route == "interop-read":
                            IO.sitk_write(sitk_make(data, geo), path, True)
                        else:
                            it.call(fW, data.clone(), g, path, compress=True)
                        if route == "interop-write":
                            ok, msg = sitk_expect(env, IO.sitk_read(path), data, geo, "reference reader")
                            if not ok:
                                return False, f"{route}: {msg}"
                            continue
                        d2, g2 = it.call(fR, path)
                        ok, msg = same_data(d2, data)
                        if not ok:
                            return False, f"{route}: {msg}"
                        ok, msg = same_grid(env, g2, geo)
                        if not ok:
                            return False, f"{route}: grid {msg}"
                    return True, ""
                _guard(ctx, "T18.singleton", f"{ext}:size={size}:C={C}", fW, f"format={ext} size={size} channels={C}", ths)

    # scalar images given without a channel axis (data.ndim == grid.ndim): accepted by the native MetaImage and NIfTI writers
    ctx.rule("T18.channel-less", "write_image(data, grid, path) with data.ndim == grid.ndim (no channel axis; the form the native .mha and "
                                 ".nii writers document) stores a one-channel image: reading it back gives the same voxels with a leading "
                                 "channel axis of size 1 and the same grid; the reference reader sees one component per pixel")
    for ext in (".mha", ".nii.gz"):
        for D in (2, 3):
            if ext.startswith(".nii") and D == 2:
                continue  # recorded finding (2-D NIfTI)

            def thc(ext=ext, D=D):
                env = IOEnv(ctx)
                it = env.it
                g, geo = env.grid(D)
                data = env.data(D, 1, "float32")
                flat = data[0].clone()
                path = f"/vfs/scalar{ext}"
                it.call(fW, flat, g, path, compress=True)
                d2, g2 = it.call(fR, path)
                ok, msg = same_data(d2, data)
                if not ok:
                    return False, msg
                ok, msg = same_grid(env, g2, geo)
                if not ok:
                    return False, "grid " + msg
                ok, msg = sitk_expect(env, IO.sitk_read(path), data, geo, "reference reader")
                if not ok:
                    return False, msg
                return True, ""
            _guard(ctx, "T18.channel-less", f"{ext}:D={D}", fW, f"format={ext} D={D} data without channel axis", thc)

    # tensors that are views with another memory layout (permuted / transposed, not contiguous): the file holds the logical voxel order
    ctx.rule("T18.strided", "write_image of an image whose tensor is a reversed-axes (Fortran-ordered) view of its storage — what permute / "
                            ".T / from_numpy(a.T) produce — stores the voxels in their logical order: reading back, and the reference reader, "
                            "give the same values as for the packed copy of that tensor (numpy's tobytes / astype layout rules are part of "
                            "the numpy specification model)")
    for ext in (".mha", ".nii.gz", ".nrrd"):
        for D, C in ((2, 1), (3, 1), (3, 2)):
            if ext.startswith(".nii") and (D == 2 or C > 1):
                continue  # recorded findings (2-D / multi-channel NIfTI)

            def thv(ext=ext, D=D, C=C):
                env = IOEnv(ctx)
                it = env.it
                g, geo = env.grid(D)
                data = env.data(D, C, "float32")
                rev = list(reversed(range(data.ndim)))
                packed_rev = data.permute(rev)
                packed_rev = STensor(list(packed_rev.flat()), list(range(packed_rev.numel())), list(packed_rev.shape), packed_rev.dtype)
                view = packed_rev.permute(rev)  # same logical values as data, Fortran memory order
                if view.is_contiguous() or not teq(view, data):
                    raise AnalysisError("T18.strided: adaptor did not build a non-contiguous view with the same values")
                path = f"/vfs/strided{ext}"
                it.call(fW, view, g, path, compress=False)
                d2, g2 = it.call(fR, path)
                ok, msg = same_data(d2, data)
                if not ok:
                    return False, "a non-contiguous (reversed-axes) tensor is not written in its logical voxel order: " + msg
                ok, msg = sitk_expect(env, IO.sitk_read(path), data, geo, "reference reader")
                if not ok:
                    return False, msg
                return True, ""
            _guard(ctx, "T18.strided", f"{ext}:D={D}:C={C}", fW, f"format={ext} D={D} channels={C} reversed-axes view", thv)

    # every SimpleITK pixel type the conversion handles: the tensor type it is widened to holds every value
    ctx.rule("T18.sitk-types", "tensor_from_image / Image.from_sitk of a SimpleITK image of pixel type uint8, int8, uint16, int16, uint32, int32, "
                               "int64, float32, float64 (symbolic voxels ranging over the whole type): the tensor holds exactly the voxel "
                               "values — unsigned types that torch lacks are widened to a signed type that contains their range")
    fTI = prog.func("deepali.utils.simpleitk.torch", "tensor_from_image")
    for pix in ("uint8", "int8", "uint16", "int16", "uint32", "int32", "int64", "float32", "float64"):
        def thp(pix=pix):
            env = IOEnv(ctx)
            it = env.it
            g, geo = env.grid(2)
            for C in (1, 2):
                data = env.data(2, C, pix)
                im = sitk_make(data, geo)
                t = it.call(fTI, im)
                ok, msg = same_data(t, data)
                if not ok:
                    return False, f"pixel type {pix}, {C} component(s): {msg}"
            return True, ""
        _guard(ctx, "T18.sitk-types", pix, fTI, f"SimpleITK pixel type {pix}", thp)


def run_entry_points(ctx: Ctx) -> None:
    prog = ctx.prog
    DI, DF = "deepali.data.image", "deepali.data.flow"
    fIW, fIR = prog.func(DI, "Image.write"), prog.func(DI, "Image.read")
    fFW, fFR = prog.func(DF, "FlowField.write"), prog.func(DF, "FlowField.read")
    fS, fFS = prog.func(DI, "Image.sitk"), prog.func(DI, "Image.from_sitk")
    for f in (fIW, fIR, fFW, fFR, fS, fFS, prog.func(DF, "FlowField.sitk"), prog.func(DF, "FlowField.from_sitk"),
              prog.func("deepali.core.grid", "Grid.from_file")):
        ctx.fn(f)
    ctx.rule("T18.image-api", "Image.write / Image.read / Image.sitk / Image.from_sitk / Grid.from_file: the image read back has the same "
                              "voxels, type and grid; the requested align_corners is applied; the SimpleITK image holds the data in "
                              "(z,y,x[,c]) order with the grid's origin / spacing / row-major direction")
    ctx.rule("T18.flow-api", "FlowField.write stores world-space vectors whatever the field's axes; FlowField.read labels them WORLD (or the "
                             "given axes) and converting back to the original axes restores the original vectors; FlowField.sitk / from_sitk "
                             "likewise")
    Image = prog.cls(DI, "Image")
    FlowField = prog.cls(DF, "FlowField")
    for ext in (".mha", ".nrrd", ".nii.gz"):
        for D in (2, 3):
            if ext == ".nii.gz" and D == 2:
                continue  # two-dimensional NIfTI: see the T18.roundtrip instances

            def thi(ext=ext, D=D):
                env = IOEnv(ctx)
                it = env.it
                g, geo = env.grid(D)
                data = env.data(D, 1 if ext == ".nii.gz" else 2, "float32")
                im = it.new(Image, data.clone(), g)
                path = f"/vfs/im{ext}"
                it.method(im, "write", path)
                for ac in (True, False):
                    r = it.call(fIR, tae.ClassVal(Image), path, align_corners=ac) if False else it.method(tae.ClassVal(Image), "read", path, align_corners=ac)
                    if not isinstance(r, STObj) or r.cls.name != "Image":
                        return False, "Image.read does not return an Image"
                    ok, msg = same_data(r, data)
                    if not ok:
                        return False, msg
                    g2 = it.method(r, "grid")
                    ok, msg = same_grid(env, g2, geo)
                    if not ok:
                        return False, "grid " + msg
                    if bool(it.method(g2, "align_corners")) != ac:
                        return False, f"Image.read(align_corners={ac}) returned a grid with the other convention"
                gf = it.method(tae.ClassVal(env.Grid), "from_file", path)
                ok, msg = same_grid(env, gf, geo)
                if not ok:
                    return False, "Grid.from_file: " + msg
                return True, ""
            _guard(ctx, "T18.image-api", f"{ext}:D={D}", fIW, f"Image.write/read format={ext} D={D}", thi)

    for D in (2, 3):
        for C in (1, 3):
            def ths(D=D, C=C):
                env = IOEnv(ctx)
                it = env.it
                g, geo = env.grid(D)
                data = env.data(D, C, "int16")
                im = it.new(Image, data.clone(), g)
                sim = it.method(im, "sitk")
                ok, msg = sitk_expect(env, sim, data, geo, "Image.sitk()")
                if not ok:
                    return False, msg
                back = it.method(tae.ClassVal(Image), "from_sitk", sim)
                ok, msg = same_data(back, data, "from_sitk: ")
                if not ok:
                    return False, msg
                ok, msg = same_grid(env, it.method(back, "grid"), geo)
                if not ok:
                    return False, "from_sitk grid " + msg
                # unsigned 16-bit images are widened (torch has no uint16)
                d16 = env.data(D, C, "uint16", tag="w")
                b2 = it.method(tae.ClassVal(Image), "from_sitk", sitk_make(d16, geo))
                ok, msg = same_data(b2, d16, "from_sitk(uint16): ")
                return ok, msg
            _guard(ctx, "T18.image-api", f"sitk:D={D}:C={C}", fS, f"Image.sitk/from_sitk D={D} channels={C}", ths)

    for ext in (".mha", ".nrrd"):
        for D in (2, 3):
            for axes in ("WORLD", "GRID", "CUBE", "CUBE_CORNERS"):
                def thf(ext=ext, D=D, axes=axes):
                    env = IOEnv(ctx)
                    it = env.it
                    g, geo = env.grid(D)
                    data = env.data(D, D, "float32", tag="u")
                    A = it.enum(env.Axes, axes)
                    W = it.enum(env.Axes, "WORLD")
                    f = it.new(FlowField, data.clone(), g, A)
                    world = it.method(f, "axes", W)
                    wdata = world.plain().clone()
                    path = f"/vfs/flow{ext}"
                    it.method(f, "write", path)
                    raw, _g = it.call(prog.func("deepali.utils.imageio", "read_image"), path)
                    if not teq(raw, wdata):
                        return False, f"FlowField(axes={axes}).write() does not store world-space vectors"
                    r = it.method(tae.ClassVal(FlowField), "read", path)
                    if not isinstance(r, STObj) or r.cls.name != "FlowField":
                        return False, "FlowField.read does not return a FlowField"
                    if it.method(r, "axes") is not W and it.method(r, "axes") != W:
                        return False, f"FlowField.read() labels the stored vectors {it.method(r, 'axes')}"
                    back = it.method(r, "axes", A)
                    if not teq(back.plain(), data):
                        return False, f"reading back and converting to {axes} does not restore the original vectors"
                    ok, msg = same_grid(env, it.method(r, "grid"), geo)
                    if not ok:
                        return False, "grid " + msg
                    if not teq(it.method(f, "tensor") if hasattr(f, "x") else f.plain(), data):
                        return False, "write() changed the flow field"
                    # explicit storage axes: write(path, axes=B) stores the vectors re-expressed in B; read(path, axes=B) labels them B
                    for other in ("GRID", "CUBE_CORNERS"):
                        Bx = it.enum(env.Axes, other)
                        p2 = f"/vfs/flow_{other}{ext}"
                        it.method(f, "write", p2, axes=Bx)
                        raw2, _g2 = it.call(prog.func("deepali.utils.imageio", "read_image"), p2)
                        want2 = it.method(f, "axes", Bx).plain()
                        if not teq(raw2, want2):
                            return False, f"FlowField(axes={axes}).write(path, axes={other}) does not store the vectors in {other} units"
                        r2 = it.method(tae.ClassVal(FlowField), "read", p2, axes=Bx)
                        if it.method(r2, "axes") != Bx or not teq(it.method(r2, "axes", A).plain(), data):
                            return False, f"write(path, axes={other}) / read(path, axes={other}) does not restore the original field"
                        sim2 = it.method(f, "sitk", Bx)
                        ok, msg = sitk_expect(env, sim2, STensor(list(want2.flat()), list(range(want2.numel())), list(want2.shape), IO.dt("float32")), geo, f"FlowField.sitk(axes={other})")
                        if not ok:
                            return False, msg
                    # the URI entry points are the same operations: to_uri stores world-space vectors, from_uri restores the field
                    p3 = f"/vfs/flow_uri{ext}"
                    it.method(f, "to_uri", p3)
                    raw3, _g3 = it.call(prog.func("deepali.utils.imageio", "read_image"), p3)
                    if not teq(raw3, wdata):
                        return False, f"FlowField(axes={axes}).to_uri() does not store world-space vectors (differs from write())"
                    r3 = it.method(tae.ClassVal(FlowField), "from_uri", p3)
                    if not isinstance(r3, STObj) or r3.cls.name != "FlowField" or not teq(it.method(r3, "axes", A).plain(), data):
                        return False, "FlowField.from_uri(to_uri(f)) converted back to the original axes differs from f"
                    # SimpleITK route
                    sim = it.method(f, "sitk")
                    ok, msg = sitk_expect(env, sim, STensor(list(wdata.flat()), list(range(wdata.numel())), list(wdata.shape), IO.dt("float32")), geo, "FlowField.sitk()")
                    if not ok:
                        return False, msg
                    f2 = it.method(tae.ClassVal(FlowField), "from_sitk", sim)
                    if not teq(it.method(f2, "axes", A).plain(), data):
                        return False, "FlowField.from_sitk(f.sitk()).axes(original) differs from f"
                    return True, ""
                _guard(ctx, "T18.flow-api", f"{ext}:D={D}:{axes}", fFW, f"FlowField.write/read format={ext} D={D} axes={axes}", thf)
