"""T3/T4: cubic B-spline tables, the two evaluation algorithms, control-grid size and subdivision (C14)."""
from __future__ import annotations

import itertools
from fractions import Fraction
from typing import Any, Dict, List, Optional, Tuple

from .. import symt, tae
from ..core import Ctx
from ..index import AnalysisError
from ..ring import Poly, Rat, reset_relations
from ..symt import InterpError, STensor, Unsupported, to_rat
from ..tae import Interp
from .gridsym import fresh_facts
from .t1_grid import _guard, make_interp, teq, tstr


def basis(t, d: int = 0) -> List[Rat]:
    """Analytic uniform cubic B-spline basis weights of the 4 control points around a sample at fractional offset t
    (de Boor; B_0 = (1-t)^3/6, B_1 = (3t^3 - 6t^2 + 4)/6, B_2 = (-3t^3 + 3t^2 + 3t + 1)/6, B_3 = t^3/6) and derivatives."""
    t = Rat.of(t) if not isinstance(t, Rat) else t
    if d == 0:
        return [(1 - t) ** 3 / 6, (3 * t ** 3 - 6 * t ** 2 + 4) / 6, (-3 * t ** 3 + 3 * t ** 2 + 3 * t + 1) / 6, t ** 3 / 6]
    if d == 1:
        return [-((1 - t) ** 2) / 2, (9 * t ** 2 - 12 * t) / 6, (-9 * t ** 2 + 6 * t + 3) / 6, t ** 2 / 2]
    if d == 2:
        return [1 - t, 3 * t - 2, -3 * t + 1, t]
    if d == 3:
        return [Rat.of(-1), Rat.of(3), Rat.of(-3), Rat.of(1)]
    return [Rat.of(0)] * 4


def beta(x: Fraction, d: int = 0) -> Fraction:
    """Analytic centred cubic B-spline and derivatives at a concrete rational x."""
    x = Fraction(x)
    t = abs(x)
    sgn = 1 if x >= 0 else -1
    if t >= 2:
        return Fraction(0)
    if d == 0:
        return Fraction(2, 3) - t ** 2 + t ** 3 / 2 if t < 1 else (2 - t) ** 3 / 6
    if d == 1:
        return sgn * ((Fraction(3, 2) * t - 2) * t if t < 1 else -((2 - t) ** 2) / 2)
    if d == 2:
        return 3 * t - 2 if t < 1 else 2 - t
    if d == 3:
        return sgn * (Fraction(3) if t < 1 else Fraction(-1))
    return Fraction(0)


def run_tables(ctx: Ctx) -> None:
    prog = ctx.prog
    fW = prog.func("deepali.core.bspline", "cubic_bspline_interpolation_weights")
    fV = prog.func("deepali.core.kernels", "cubic_bspline_value")
    f1 = prog.func("deepali.core.kernels", "cubic_bspline1d")
    for f in (fW, fV, f1):
        ctx.fn(f)
    ctx.rule("T3.weights", "cubic_bspline_interpolation_weights(stride, derivative=d) equals the analytic cubic B-spline basis (d = 0) and its "
                           "formal derivatives (d = 1, 2, 3) as polynomials in the offset t, is 0 for d > 3; partition of unity (sum 1 / 0); "
                           "first moment reproduces linear functions")
    ctx.rule("T3.value", "cubic_bspline_value(x, d) equals the analytic centred cubic B-spline / derivatives on every piece; "
                         "cubic_bspline1d(stride, d) samples it at (i - radius) / stride")
    # symbolic offset t: torch.arange(0, 1, 1/s) replaced by [t]
    for d in (0, 1, 2, 3, 4):
        def th(d=d):
            reset_relations()
            fresh_facts()
            it = make_interp(ctx)
            t = Rat.atom("t")
            orig = tae._TORCH["arange"]
            tae._TORCH["arange"] = lambda *a, **k: STensor.from_flat([t], [1])
            try:
                w = it.call(fW, 1, derivative=d)
            finally:
                tae._TORCH["arange"] = orig
            if tuple(w.shape) != (1, 4):
                return False, f"shape {tuple(w.shape)}"
            want = basis(t, d)
            for k in range(4):
                if not to_rat(w[0, k].flat()[0]).equals(want[k]):
                    return False, f"derivative={d}: weight[{k}](t) = {to_rat(w[0, k].flat()[0])} expected {want[k]}"
            tot = sum((to_rat(v) for v in w.flat()), Rat.of(0))
            if not tot.equals(1 if d == 0 else 0):
                return False, f"derivative={d}: weights sum to {tot}"
            # first moment: sum_k (k - 1 - t) B_k^(d)(t) = 0 for d = 0 (linear precision), -1... formal derivative of 0
            mom = sum(((k - 1 - t) * to_rat(w[0, k].flat()[0]) for k in range(4)), Rat.of(0))
            want_m = {0: Rat.of(0), 1: Rat.of(1)}.get(d)
            if d == 0 and not mom.is_zero():
                return False, f"first moment {mom} (linear precision broken)"
            return True, ""
        _guard(ctx, "T3.weights", f"symbolic:d={d}", fW, f"weights derivative={d} symbolic offset", th)
    # concrete strides incl. per-axis sequences
    for s in (1, 2, 3, 5, 16):
        for d in (0, 1, 2, 3):
            def thc(s=s, d=d):
                reset_relations()
                fresh_facts()
                it = make_interp(ctx)
                w = it.call(fW, s, derivative=d)
                if tuple(w.shape) != (s, 4):
                    return False, f"shape {tuple(w.shape)}"
                for i in range(s):
                    want = basis(Fraction(i, s), d)
                    for k in range(4):
                        if not to_rat(w[i, k].flat()[0]).equals(want[k]):
                            return False, f"stride={s} derivative={d}: weight[{i},{k}] = {to_rat(w[i, k].flat()[0])} expected {want[k]}"
                ws = it.call(fW, (s, 2), derivative=(d, 0))
                if len(ws) != 2 or not teq(ws[0], w):
                    return False, "per-axis (stride, derivative) sequence form differs"
                return True, ""
            _guard(ctx, "T3.weights", f"stride={s}:d={d}", fW, f"weights stride={s} derivative={d}", thc)
    # cubic_bspline_value / cubic_bspline1d
    xs = [Fraction(n, 4) for n in range(-10, 11)]
    for d in (0, 1, 2):  # cubic_bspline_value implements orders 0..2 only (order 3 is served by the weight tables)
        def thv(d=d):
            reset_relations()
            fresh_facts()
            it = make_interp(ctx)
            for x in xs:
                if d == 3 and abs(x) in (0, 1, 2):
                    continue  # third derivative is discontinuous at the knots
                if d in (1, 2) and abs(x) == 2:
                    pass
                got = Rat.of(it.call(fV, x, derivative=d))
                if not got.equals(beta(x, d)):
                    return False, f"cubic_bspline_value({x}, derivative={d}) = {got} expected {beta(x, d)}"
            return True, ""
        _guard(ctx, "T3.value", f"value:d={d}", fV, f"cubic_bspline_value derivative={d}", thv)
        for s in (1, 2, 3):
            def thk(d=d, s=s):
                reset_relations()
                fresh_facts()
                it = make_interp(ctx)
                k = it.call(f1, s, derivative=d)
                n = 4 * s - 1
                if tuple(k.shape) != (n,):
                    return False, f"kernel length {tuple(k.shape)} expected {n}"
                r = n // 2
                for i in range(n):
                    x = Fraction(i - r, s)
                    if d == 3 and abs(x) in (0, 1, 2):
                        continue
                    if not to_rat(k[i].flat()[0]).equals(beta(x, d)):
                        return False, f"cubic_bspline1d(stride={s}, derivative={d})[{i}] = {to_rat(k[i].flat()[0])} expected {beta(x, d)}"
                return True, ""
            _guard(ctx, "T3.value", f"kernel1d:s={s}:d={d}", f1, f"cubic_bspline1d stride={s} derivative={d}", thk)


def _ref_eval_1d(c: List[Rat], s: int, n_out: int, d: int = 0) -> List[Rat]:
    """Reference 1-D evaluation: sample j sits at control-point coordinate 1 + j / s (one control point before the first sample)."""
    out = []
    for j in range(n_out):
        i, r = divmod(j, s)
        b = basis(Fraction(r, s), d)
        out.append(sum((b[k] * c[i + k] for k in range(4)), Rat.of(0)))
    return out


def run_evaluate(ctx: Ctx) -> None:
    prog = ctx.prog
    fE = prog.func("deepali.core.bspline", "evaluate_cubic_bspline")
    fS = prog.func("deepali.core.bspline", "subdivide_cubic_bspline")
    fN = prog.func("deepali.core.bspline", "cubic_bspline_control_point_grid_size")
    fG = prog.func("deepali.core.bspline", "cubic_bspline_control_point_grid")
    for f in (fE, fS, fN, fG, prog.func("deepali.core.image", "conv"), prog.func("deepali.core.image", "conv1d")):
        ctx.fn(f)
    ctx.rule("T3.evaluate", "evaluate_cubic_bspline(coefficients, stride, shape, derivative, transpose): sample j along each axis equals "
                            "sum_k B_k^(d)(r/s) c[i+k] with j = i s + r (analytic basis, tensor product in D = 1, 2, 3); the grouped-convolution and "
                            "the transposed-convolution algorithms agree; coefficients linear in the index are reproduced exactly")
    ctx.rule("T3.grid-size", "cubic_bspline_control_point_grid_size(m, s) = floor((m - 1) / s) + 4 is exactly the number of control points needed to "
                             "evaluate samples 0..m-1 (one before, two after), for m in 1..20, s in 1..6 incl. non-divisible pairs; the control point "
                             "grid starts one control-point spacing before the image origin")
    ctx.rule("T3.subdivide", "subdivide_cubic_bspline: refined coefficients represent the same function (evaluate(refined, s)[j + s] = "
                             "evaluate(original, 2 s)[j] on the shared domain), masks [1/8, 3/4, 1/8] / [1/2, 1/2] at even / odd positions, per dims subset")
    # 1-D, 2-D, 3-D evaluation against the reference
    cases = [((6,), (2,), (0,)), ((6,), (3,), (1,)), ((5,), (1,), (2,)), ((7,), (2,), (3,)), ((5, 6), (2, 3), (0, 0)), ((5, 5), (2, 1), (1, 0)),
             ((5, 5), (1, 2), (0, 2)), ((5, 4, 5), (1, 2, 1), (0, 0, 0)), ((4, 5, 4), (2, 1, 1), (0, 1, 0)),
             ((5, 4), (2, 2), (0, 0)), ((4, 5), (1, 1), (1, 1)), ((4, 4, 4), (2, 2, 2), (0, 0, 0))]  # equal strides: the single-table form of `kernel`
    for cshape, stride, deriv in cases:
        D = len(cshape)
        def th(cshape=cshape, stride=stride, deriv=deriv, D=D):
            reset_relations()
            fresh_facts()
            it = make_interp(ctx)
            c = STensor.symbols("c", [1, 2] + list(cshape))
            # stride / derivative are given in (X, ...) order; tensor dims are (..., X)
            st_x = tuple(reversed(stride))
            dv_x = tuple(reversed(deriv))
            full = it.call(fE, c, stride=st_x if D > 1 else st_x[0], derivative=dv_x if D > 1 else dv_x[0])
            nout = [(cshape[d] - 3) * stride[d] for d in range(D)]
            if list(full.shape[2:]) != nout:
                return False, f"output shape {tuple(full.shape[2:])} expected {nout}"
            want = _ref_eval_nd(c, stride, deriv, nout)
            if not teq(full, want):
                return False, f"values differ from tensor-product B-spline (first: {tstr(full.reshape([-1])[0:1])[:80]} vs {tstr(want.reshape([-1])[0:1])[:80]})"
            # cropped shape / size arguments
            shp = tuple(max(1, n - 1) for n in nout)
            crop = it.call(fE, c, stride=st_x if D > 1 else st_x[0], derivative=dv_x if D > 1 else dv_x[0], shape=shp)
            sl = (slice(None), slice(None)) + tuple(slice(0, n) for n in shp)
            if not teq(crop, want[sl]):
                return False, "cropping to 'shape' does not keep the leading samples"
            if all(v == 0 for v in deriv):
                tr = it.call(fE, c, stride=st_x if D > 1 else st_x[0], shape=tuple(nout), transpose=True)
                if not teq(tr, want):
                    return False, "transposed-convolution algorithm disagrees with the analytic evaluation"
            else:
                # derivatives with the default kernels of the transposed algorithm are documented as not implemented: the call either
                # refuses (NotImplementedError) or returns that derivative — never the values of another derivative order
                for dform in ((dv_x if D > 1 else dv_x[0]), list(dv_x)):
                    try:
                        trd = it.call(fE, c, stride=st_x if D > 1 else st_x[0], shape=tuple(nout), derivative=dform, transpose=True)
                    except InterpError as e:
                        if e.exc_type == "NotImplementedError":
                            continue
                        raise
                    if tuple(trd.shape) != tuple(want.shape) or not teq(trd, want):
                        return False, (f"transpose=True with derivative={dform} and the default kernels is accepted and returns something else than "
                                       f"that derivative (documented: not implemented, must be refused)")
            # the default algorithm with precomputed weight tables (documented forms of `kernel`): one table per axis in (kx, ...) order,
            # and a single table that stands for every axis (stride and derivative are then ignored)
            fWt = prog.func("deepali.core.bspline", "cubic_bspline_interpolation_weights")
            tabs = [it.call(fWt, stride=s_, derivative=d_) for s_, d_ in zip(st_x, dv_x)]
            for form, kern_arg in (("sequence", list(tabs)), ("tuple", tuple(tabs))) + ((("single tensor", tabs[0]),) if len(set(stride)) == 1 and len(set(deriv)) == 1 else ()):
                fk = it.call(fE, c, kernel=kern_arg)
                if tuple(fk.shape) != tuple(want.shape) or not teq(fk, want):
                    return False, (f"evaluation with precomputed weight tables given as {form} (kernel=...) disagrees with the analytic evaluation: shape "
                                   f"{tuple(fk.shape)} vs {tuple(want.shape)}")
            # the transposed algorithm with explicitly supplied 1-D kernels (documented form) for every derivative order
            if all(v <= 2 for v in deriv):  # (cubic_bspline1d tabulates the basis and its first two derivatives)
                fK = prog.func("deepali.core.kernels", "cubic_bspline1d")
                kern = [it.call(fK, s_, derivative=d_) for s_, d_ in zip(st_x, dv_x)]
                trk = it.call(fE, c, stride=st_x if D > 1 else st_x[0], shape=tuple(nout), kernel=kern, transpose=True)
                if tuple(trk.shape) != tuple(want.shape) or not teq(trk, want):
                    return False, (f"transposed convolution with the kernels cubic_bspline1d(stride, derivative={dv_x}) disagrees with the "
                                   f"analytic evaluation of that derivative")
            return True, ""
        _guard(ctx, "T3.evaluate", f"c={cshape}:s={stride}:d={deriv}", fE, f"coefficients={cshape} stride={stride} derivative={deriv}", th)
    # linear precision with symbolic slope/intercept
    for cshape, stride in (((7,), (3,)), ((5, 6), (2, 3))):
        def thl(cshape=cshape, stride=stride):
            reset_relations()
            fresh_facts()
            it = make_interp(ctx)
            D = len(cshape)
            a = [Rat.atom(f"a{d}") for d in range(D)]
            b = Rat.atom("b")
            vals = []
            for ix in itertools.product(*[range(n) for n in cshape]):
                vals.append(sum((a[d] * ix[d] for d in range(D)), b))
            c = STensor.from_flat(vals, [1, 1] + list(cshape))
            st_x = tuple(reversed(stride))
            out = it.call(fE, c, stride=st_x if D > 1 else st_x[0])
            for jx in itertools.product(*[range(n) for n in out.shape[2:]]):
                want = sum((a[d] * (1 + Fraction(jx[d], stride[d])) for d in range(D)), b)
                if not to_rat(out[(0, 0) + jx].flat()[0]).equals(want):
                    return False, f"linear coefficient field not reproduced at sample {jx}"
            return True, ""
        _guard(ctx, "T3.evaluate", f"linear:c={cshape}:s={stride}", fE, f"linear precision coefficients={cshape} stride={stride}", thl)
    # control point grid size
    def thn():
        reset_relations()
        fresh_facts()
        it = make_interp(ctx)
        for m in range(1, 21):
            for s in range(1, 7):
                n = it.call(fN, m, s)
                need = (m - 1) // s + 4
                if n != need and not (n >= need and n <= need + 1):
                    return False, f"size={m} stride={s}: {n} control points, needed {need}"
                if n < need:
                    return False, f"size={m} stride={s}: {n} control points do not cover the image (needed {need})"
        n2 = it.call(fN, (7, 10, 4), (2, 3, 5))
        if tuple(n2) != tuple((m - 1) // s + 4 if ((m - 1) // s + 4) >= 0 else 0 for m, s in ((7, 2), (10, 3), (4, 5))) and \
                any(a < (m - 1) // s + 4 for a, (m, s) in zip(n2, ((7, 2), (10, 3), (4, 5)))):
            return False, f"sequence form {tuple(n2)}"
        return True, ""
    _guard(ctx, "T3.grid-size", "sizes", fN, "control point grid size m=1..20 s=1..6", thn)

    def thg():
        from .gridsym import sym_grid
        reset_relations()
        facts = fresh_facts()
        it = make_interp(ctx)
        Grid = prog.cls("deepali.core.grid", "Grid")
        from .t9_derived import Env
        env = Env(ctx, 2, (9, 7), False)
        cg = env.it.call(fG, env.g, (2, 3))
        from .t1_grid import compose
        from .t9_derived import diag_h
        want_gw = compose(env.GW, diag_h([2, 3], [-2, -3]))
        if not teq(env.gw(cg), want_gw):
            return False, f"control point k is not at image index -stride + k * stride: {tstr(env.gw(cg))[:120]} expected {tstr(want_gw)[:120]}"
        sz = [int(x) for x in env.size_of(cg)]
        want = [(9 - 1) // 2 + 4, (7 - 1) // 3 + 4]
        if any(a < b for a, b in zip(sz, want)):
            return False, f"control point grid size {sz} smaller than needed {want}"
        return True, ""
    _guard(ctx, "T3.grid-size", "grid", fG, "control point grid placement", thg)
    # subdivision
    # (coefficient shape, selected spatial dims (x = 0) or None for all, how the selection is spelled)
    sub_cases = [((5,), (0,), "tuple"), ((4, 5), None, "omitted"), ((4, 5), (0,), "tuple"), ((4, 5), (1,), "tuple"), ((4, 4, 4), (2,), "tuple"),
                 ((4, 5), (0,), "int"), ((4, 5), (0,), "enum"), ((4, 5), (0,), "str"), ((4, 5), (1,), "int"), ((4, 5), (1,), "enum"),
                 ((4, 5), (), "empty list"), ((4, 5), (0, 1), "list reversed"), ((4, 4, 4), (0,), "int"), ((4, 4, 4), (0, 2), "enum list")]
    SD = prog.cls("deepali.core.enum", "SpatialDim")
    for cshape, dims, form in sub_cases:
        def ths(cshape=cshape, dims=dims, form=form):
            reset_relations()
            fresh_facts()
            it = make_interp(ctx)
            D = len(cshape)
            c = STensor.symbols("c", [1, 1] + ([1] if D == 1 else []) + list(cshape))  # subdivide needs (N, C, ..., X) with >= 4 dims
            names = "XYZ"
            if form == "omitted":
                kw = {}
            elif form == "tuple":
                kw = {"dims": dims}
            elif form == "int":
                kw = {"dims": dims[0]}
            elif form == "enum":
                kw = {"dims": it.enum(SD, names[dims[0]])}
            elif form == "str":
                kw = {"dims": names[dims[0]].lower()}
            elif form == "empty list":
                kw = {"dims": []}
            elif form == "list reversed":
                kw = {"dims": list(reversed(dims))}
            else:
                kw = {"dims": [it.enum(SD, names[d]) for d in dims]}
            r = it.call(fS, c, **kw)
            cs = list(c.shape[2:])
            DD = len(cs)
            which = set(range(DD)) if dims is None else {DD - 1 - d for d in dims}  # spatial dim d (x first) -> tensor dim
            want_shape = [2 * n - 1 if i in which else n for i, n in enumerate(cs)]
            if list(r.shape[2:]) != want_shape:
                return False, f"refined shape {tuple(r.shape[2:])} expected {want_shape}"
            # two-scale relation per refined axis
            def refine(vals: List[Rat]) -> List[Rat]:
                out = []
                n = len(vals)
                for k in range(2 * n - 1):
                    i = k // 2
                    if k % 2 == 0:
                        lo = vals[i - 1] if i - 1 >= 0 else Rat.of(0)
                        hi = vals[i + 1] if i + 1 < n else Rat.of(0)
                        out.append((lo + vals[i] * 6 + hi) / 8)
                    else:
                        out.append((vals[i] + vals[i + 1]) / 2)
                return out
            cur = c.clone()
            for ax in sorted(which):
                nd = cur.ndim
                moved = cur.permute([i for i in range(nd) if i != ax + 2] + [ax + 2])
                lead = list(moved.shape[:-1])
                flat = moved.reshape([-1, moved.shape[-1]])
                rows = [refine([to_rat(v) for v in flat[i].flat()]) for i in range(flat.shape[0])]
                new = STensor.from_nested(rows).reshape(lead + [len(rows[0])])
                inv = list(range(ax + 2)) + [nd - 1] + list(range(ax + 2, nd - 1))
                cur = new.permute(inv)
            if not teq(r, cur):
                return False, "refined coefficients differ from the two-scale relation ([1/8, 3/4, 1/8] even, [1/2, 1/2] odd; zero outside)"
            return True, ""
        _guard(ctx, "T3.subdivide", f"c={cshape}:dims={dims}:{form}", fS, f"subdivide coefficients={cshape} dims={dims} given as {form}", ths)
    # function invariance in the interior (where the zero boundary of the masks does not enter)
    def thf():
        reset_relations()
        fresh_facts()
        it = make_interp(ctx)
        c = STensor.symbols("c", [1, 1, 1, 7])
        r = it.call(fS, c, dims=(0,))
        coarse = [to_rat(v) for v in c.flat()]
        fine = [to_rat(v) for v in r.flat()]
        a = _ref_eval_1d(coarse, 4, 16)       # positions 1 + j/4 in coarse cp units
        b = _ref_eval_1d(fine, 2, 2 * 13 - 8)  # positions 1 + j/2 in fine cp units = (1 + j/2) / 2 coarse units
        # fine sample j' at coarse position (1 + j'/2)/2 ; coarse sample j at 1 + j/4 -> j' = 2 + j ... (1 + j'/2)/2 = 1 + j/4 <=> j' = 2 + j
        for j in range(4, 10):
            if not a[j].equals(b[j + 2]):
                return False, f"subdivision changes the function at coarse sample {j}: {a[j]} vs {b[j + 2]}"
        return True, ""
    _guard(ctx, "T3.subdivide", "function-invariance", fS, "subdivision leaves the spline unchanged (interior)", thf)


def _ref_eval_nd(c: STensor, stride, deriv, nout) -> STensor:
    D = len(stride)
    cur = c
    for ax in range(D):
        nd = cur.ndim
        moved = cur.permute([i for i in range(nd) if i != ax + 2] + [ax + 2])
        lead = list(moved.shape[:-1])
        flat = moved.reshape([-1, moved.shape[-1]])
        rows = [_ref_eval_1d([to_rat(v) for v in flat[i].flat()], stride[ax], nout[ax], deriv[ax]) for i in range(flat.shape[0])]
        new = STensor.from_nested(rows).reshape(lead + [nout[ax]])
        inv = list(range(ax + 2)) + [nd - 1] + list(range(ax + 2, nd - 1))
        cur = new.permute(inv)
    return cur


def run_kernels_nd(ctx: Ctx) -> None:
    """The n-D kernel front ends: cubic_bspline(stride, *args, derivative) and cubic_bspline2d / 3d for every documented stride form."""
    prog = ctx.prog
    K = "deepali.core.kernels"
    f1 = prog.func(K, "cubic_bspline1d")
    fN = {1: f1, 2: prog.func(K, "cubic_bspline2d"), 3: prog.func(K, "cubic_bspline3d")}
    fG = prog.func(K, "cubic_bspline")
    for f in list(fN.values()) + [fG]:
        ctx.fn(f)
    ctx.rule("T3.kernels", "cubic_bspline2d / cubic_bspline3d / cubic_bspline for strides given as one int, as separate ints, as a tuple or "
                           "list (sx, sy[, sz]) — equal and unequal per axis — and derivative orders 0..2: the kernel is the tensor product of "
                           "the 1-D kernels cubic_bspline1d(s_axis, derivative) with tensor axes in the order (..., Y, X), and the generic front "
                           "end returns the kernel of the dimension its arguments name (derivative forwarded)")

    def outer(ks):  # ks in (x, y[, z]) order -> tensor (.., Y, X)
        out = ks[0]
        for k in ks[1:]:
            out = k.unsqueeze(-1).mul(out.unsqueeze(0)) if out.ndim == 1 else k.reshape([-1, 1, 1]).mul(out.unsqueeze(0))
        return out

    for D in (2, 3):
        for strides in ((2,) * D, (2, 3, 1)[:D], (1, 2, 3)[:D]):
            for d in (0, 1, 2):
                def th(D=D, strides=strides, d=d):
                    reset_relations()
                    fresh_facts()
                    it = make_interp(ctx)
                    want = outer([it.call(f1, s, derivative=d) for s in strides])
                    forms = [("tuple", (tuple(strides),)), ("list", (list(strides),)), ("separate ints", tuple(strides))]
                    if len(set(strides)) == 1:
                        forms.append(("one int", (strides[0],)))
                    for fname, args in forms:
                        for fn_name, f in ((f"cubic_bspline{D}d", fN[D]),) + ((("cubic_bspline", fG),) if fname != "one int" else ()):
                            try:
                                k = it.call(f, *args, derivative=d)
                            except InterpError as e:
                                return False, f"{fn_name}(stride as {fname} {strides}, derivative={d}) raises {e}"
                            if list(k.shape) != list(want.shape):
                                return False, (f"{fn_name}(stride as {fname} {strides}): kernel shape {list(k.shape)} expected {list(want.shape)} "
                                               f"(tensor axes (..., Y, X) for strides (sx, sy, ...))")
                            if not teq(k, want):
                                return False, f"{fn_name}(stride as {fname} {strides}, derivative={d}) is not the tensor product of the 1-D kernels"
                    return True, ""
                _guard(ctx, "T3.kernels", f"D={D}:s={strides}:d={d}", fN[D], f"n-D kernel D={D} stride={strides} derivative={d}", th)

    def th1():
        reset_relations()
        fresh_facts()
        it = make_interp(ctx)
        for s in (1, 3):
            for d in (0, 1, 2):
                want = it.call(f1, s, derivative=d)
                for args in ((s,), ([s],), ((s,),)):
                    if not teq(it.call(fG, *args, derivative=d), want):
                        return False, f"cubic_bspline({args[0]!r}, derivative={d}) is not cubic_bspline1d({s}, derivative={d})"
                if not teq(it.call(f1, [s], derivative=d), want):
                    return False, f"cubic_bspline1d([{s}]) differs from cubic_bspline1d({s})"
        return True, ""
    _guard(ctx, "T3.kernels", "D=1", fG, "generic front end, one stride", th1)


def run_weights_dtype(ctx: Ctx) -> None:
    """The weight tables are computed in the dtype they are requested in (dtype flow, no numerics)."""
    prog = ctx.prog
    fW = prog.func("deepali.core.bspline", "cubic_bspline_interpolation_weights")
    fE = prog.func("deepali.core.bspline", "evaluate_cubic_bspline")
    ctx.rule("T3.dtype", "cubic_bspline_interpolation_weights(stride, derivative, dtype=float64) and evaluate_cubic_bspline of float64 "
                         "coefficients: the result is float64 and no dimensioned tensor computed in a narrower float type enters it (events of the "
                         "dtype-tracking interpreter: a float32 offset table behind a float64 weight table loses the analytic values beyond 1e-7)")
    for s_ in (3, (2, 5)):
        for d in (0, 1, 2):
            def th(s_=s_, d=d):
                reset_relations()
                fresh_facts()
                it = make_interp(ctx)
                del symt.PRECISION_EVENTS[:]
                w = it.call(fW, s_, derivative=d, dtype=symt.DOUBLE)
                ws = w if isinstance(w, (tuple, list)) else [w]
                for k in ws:
                    if k.dtype.name != "float64":
                        return False, f"weights requested as float64 have dtype {k.dtype.name}"
                if symt.PRECISION_EVENTS:
                    return False, (f"stride={s_} derivative={d}: part of the float64 weight table is computed in {symt.PRECISION_EVENTS[0][0]} "
                                   f"({len(symt.PRECISION_EVENTS)} events)")
                D = 1 if isinstance(s_, int) else len(s_)
                c0 = STensor.symbols("c", [1, 1] + [5] * D)
                c = STensor(list(c0.flat()), list(range(c0.numel())), list(c0.shape), symt.DOUBLE)
                del symt.PRECISION_EVENTS[:]
                out = it.call(fE, c, stride=s_, derivative=d)
                if out.dtype.name != "float64" or symt.PRECISION_EVENTS:
                    why = symt.PRECISION_EVENTS[0][0] if symt.PRECISION_EVENTS else f"result dtype {out.dtype.name}"
                    return False, f"evaluate_cubic_bspline of float64 coefficients (stride={s_}, derivative={d}): {why}"
                return True, ""
            _guard(ctx, "T3.dtype", f"s={s_}:d={d}", fW, f"float64 weights stride={s_} derivative={d}", th)


def run_ffd_shape(ctx: Ctx) -> None:
    """Free-form deformation models with per-axis strides: the control grid is sized with each axis' own stride and covers the image grid."""
    prog = ctx.prog
    S = "deepali.spatial.bspline"
    Grid = prog.cls("deepali.core.grid", "Grid")
    fD = prog.func(S, "BSplineTransform.data_shape")
    ctx.fn(fD)
    ctx.rule("T3.ffd-shape", "FreeFormDeformation / StationaryVelocityFreeFormDeformation on non-square grids with an int stride and with per-axis "
                             "strides (sx, sy[, sz]) that differ: the parameter tensor has, along the tensor axis of spatial dimension d, "
                             "ceil(m_d / s_d) + 3 control points (one before, enough after), and the evaluated spline has exactly the shape of "
                             "the image grid")
    import math
    for cname, kw in (("FreeFormDeformation", {}), ("StationaryVelocityFreeFormDeformation", {"steps": 1})):
        for size, stride in (((9, 7), (2, 4)), ((8, 5), 3), ((6, 7, 5), (2, 3, 1)), ((9, 7), (4, 2))):
            def th(cname=cname, kw=kw, size=size, stride=stride):
                reset_relations()
                fresh_facts()
                it = make_interp(ctx)
                D = len(size)
                g = it.new(Grid, size=size)
                t = it.new(prog.cls(S, cname), g, params=False, stride=stride, **kw)
                st = (stride,) * D if isinstance(stride, int) else tuple(stride)
                want = [D] + [math.ceil(Fraction(size[d], st[d])) + 3 for d in reversed(range(D))]
                got = list(it.getattr(t, "data_shape"))
                if got != want:
                    return False, f"{cname}(grid size {size}, stride={stride}).data_shape = {got}, expected {want} (tensor order, per-axis strides)"
                p = it.method(t, "data")
                if list(p.shape[1:]) != want:
                    return False, f"parameter tensor shape {list(p.shape)}"
                u = it.method(t, "evaluate_spline")
                if list(u.shape[2:]) != list(reversed(size)):
                    return False, f"evaluated spline has spatial shape {list(u.shape[2:])}, the image grid {list(reversed(size))}"
                return True, ""
            _guard(ctx, "T3.ffd-shape", f"{cname}:{size}:{stride}", fD, f"class={cname} size={size} stride={stride}", th)
