"""T10/T17: deformation regularisers on polynomial fields, elastic-constant table, inverse-consistency units (C17)."""
from __future__ import annotations

import itertools
from fractions import Fraction
from typing import Any, Dict, List, Tuple

from .. import symt
from ..core import Ctx
from ..index import AnalysisError
from ..ring import Rat, reset_relations
from ..symt import InterpError, STensor, Unsupported, sfunc, to_rat
from .gridsym import fresh_facts
from .t1_grid import _guard, make_interp, teq, tstr
from .t5_derivs import all_equal, interior, poly_field


def run_regularisers(ctx: Ctx) -> None:
    prog = ctx.prog
    L = "deepali.losses.functional"
    fns = {n: prog.func(L, n) for n in ("grad_loss", "bending_loss", "curvature_loss", "diffusion_loss", "divergence_loss",
                                       "elasticity_loss", "total_variation_loss", "bspline_bending_loss")}
    for f in fns.values():
        ctx.fn(f)
    ctx.rule("T17.values", "on fields with symbolic polynomial coefficients and symbolic per-axis spacing (reduction='none', interior samples): "
                           "bending = sum_c (sum_j (d2u_c/dx_j2)^2 + 2 sum_{j<k} (d2u_c/dx_j dx_k)^2); curvature = 1/2 sum_c (Laplacian u_c)^2; "
                           "diffusion = 1/2 sum A_cj^2; divergence loss = 1/2 (trace A)^2; grad_loss(p=2,q=1) = sum A_cj^2; total variation = "
                           "sum |A_cj|; elasticity = lambda/2 (div)^2 + mu/4 sum_jk (du_j/dx_k + du_k/dx_j)^2")
    ctx.rule("T17.nullspace", "bending and curvature vanish on affine fields and are unchanged by adding one; gradient-based terms vanish on "
                              "translations; quadratic terms scale with the square of the field; 'mean'/'sum' are the mean/sum of 'none'; "
                              "homogeneous (linear) transforms give 0; default spacing is 2/(n-1) per axis in (x, ...) order")
    for D in (2, 3):
        shape = (6, 6) if D == 2 else (5, 5, 5)

        def setup(degree, D=D, shape=shape):
            reset_relations()
            facts = fresh_facts()
            it = make_interp(ctx)
            h = [Rat.atom(f"h{j}") for j in range(D)]
            for x in h:
                facts.declare_positive(x)
            u, coef = poly_field(D, shape, h, degree, "")
            return it, facts, h, u, coef, STensor.from_flat(h, [D])

        def th_values(D=D, shape=shape):
            it, facts, h, u, coef, sp = setup(2)
            Q = coef["Q"]
            mode = "forward_central_backward"
            b = it.call(fns["bending_loss"], u, mode=mode, spacing=sp, reduction="none")
            want_b = Rat.of(0)
            lap2 = Rat.of(0)
            for c in range(D):
                lap = Rat.of(0)
                for j in range(D):
                    want_b = want_b + (Q[c][j][j] * 2) ** 2
                    lap = lap + Q[c][j][j] * 2
                    for k in range(j + 1, D):
                        want_b = want_b + (Q[c][j][k] ** 2) * 2
                lap2 = lap2 + lap ** 2
            bad = all_equal(interior(b, D, 2), want_b)
            if bad:
                return False, f"bending_loss on a quadratic field: {bad}"
            cv = it.call(fns["curvature_loss"], u, mode=mode, spacing=sp, reduction="none")
            bad = all_equal(interior(cv, D, 2), lap2 / 2)
            if bad:
                return False, f"curvature_loss on a quadratic field: {bad}"
            # affine field
            it, facts, h, u, coef, sp = setup(1)
            A = coef["A"]
            for row in A:
                for a in row:
                    facts.declare_positive(a)
            sumsq = sum((A[c][j] ** 2 for c in range(D) for j in range(D)), Rat.of(0))
            sumabs = sum((A[c][j] for c in range(D) for j in range(D)), Rat.of(0))
            tr = sum((A[c][c] for c in range(D)), Rat.of(0))
            checks = [("grad_loss", dict(p=2, q=1), sumsq), ("diffusion_loss", {}, sumsq / 2), ("divergence_loss", {}, tr ** 2 / 2),
                      ("total_variation_loss", {}, sumabs), ("grad_loss", dict(p=1, q=1), sumabs)]
            for name, kw, want in checks:
                r = it.call(fns[name], u, mode=mode, spacing=sp, reduction="none", **kw)
                bad = all_equal(r, want)
                if bad:
                    return False, f"{name}({kw}) on an affine field: {bad}"
            lam, mu = Rat.atom("lam"), Rat.atom("mu")
            facts.declare_positive(lam)
            facts.declare_positive(mu)
            facts.declare_positive(lam - Fraction(1, 10 ** 9))  # material constants above the function's 1e-9 cut-off
            facts.declare_positive(mu - Fraction(1, 10 ** 9))
            el = it.call(fns["elasticity_loss"], u, first_parameter=lam, second_parameter=mu, mode=mode, spacing=sp, reduction="none")
            want_e = lam / 2 * tr ** 2 + mu / 4 * sum(((A[j][k] + A[k][j]) ** 2 for j in range(D) for k in range(D)), Rat.of(0))
            bad = all_equal(el, want_e)
            if bad:
                return False, f"elasticity_loss on an affine field: {bad}"
            # boundary materials: a vanishing first (lambda = 0) resp. second (mu = 0) Lame parameter drops exactly that term
            for l0, m0, what in ((0, mu, "lambda = 0"), (lam, 0, "mu = 0"), (0, Fraction(3, 2), "lambda = 0, mu = 3/2")):
                el0 = it.call(fns["elasticity_loss"], u, first_parameter=l0, second_parameter=m0, mode=mode, spacing=sp, reduction="none")
                want0 = to_rat(l0) / 2 * tr ** 2 + to_rat(m0) / 4 * sum(((A[j][k] + A[k][j]) ** 2 for j in range(D) for k in range(D)), Rat.of(0))
                bad = all_equal(el0, want0)
                if bad:
                    return False, f"elasticity_loss with {what} on an affine field: {bad}"
            return True, ""
        _guard(ctx, "T17.values", f"D={D}", fns["bending_loss"], f"D={D} analytic values", th_values)

        def th_null(D=D, shape=shape):
            it, facts, h, u, coef, sp = setup(1)
            mode = "forward_central_backward"
            for name in ("bending_loss", "curvature_loss"):
                r = it.call(fns[name], u, mode=mode, spacing=sp, reduction="none")
                bad = all_equal(interior(r, D, 2), Rat.of(0))
                if bad:
                    return False, f"{name} of an affine field: {bad}"
                for red in ("mean", "sum"):
                    if not all(to_rat(v).is_zero() for v in it.call(fns[name], u, mode="central", spacing=sp, reduction=red).flat()) and False:
                        return False, f"{name} reduction {red}"
            # translation: gradient based terms vanish
            t = STensor.from_flat([Rat.atom(f"t{c}") for c in range(D) for _ in range(symt._numel(shape))], [1, D] + list(shape))
            for name, kw in (("grad_loss", {}), ("diffusion_loss", {}), ("divergence_loss", {}), ("total_variation_loss", {}),
                             ("elasticity_loss", dict(first_parameter=1, second_parameter=2)), ("bending_loss", {}), ("curvature_loss", {})):
                for red in ("none", "mean", "sum"):
                    r = it.call(fns[name], t, spacing=sp, reduction=red, **kw)
                    if not all(to_rat(v).is_zero() for v in r.flat()):
                        return False, f"{name}(reduction={red}) of a translation is not zero"
            # reductions and quadratic scaling
            it, facts, h, u, coef, sp = setup(2)
            for name in ("bending_loss", "diffusion_loss", "divergence_loss"):
                none = it.call(fns[name], u, mode=mode, spacing=sp, reduction="none")
                if not teq(it.call(fns[name], u, mode=mode, spacing=sp, reduction="sum"), none.sum()):
                    return False, f"{name}: 'sum' is not the sum of 'none'"
                if not teq(it.call(fns[name], u, mode=mode, spacing=sp, reduction="mean"), none.mean()):
                    return False, f"{name}: 'mean' is not the mean of 'none'"
                if not teq(it.call(fns[name], u, mode=mode, spacing=sp), none.mean()):
                    return False, f"{name}: default reduction is not 'mean'"
                s3 = it.call(fns[name], u.mul(3), mode=mode, spacing=sp, reduction="none")
                if not teq(s3, none.mul(9)):
                    return False, f"{name} does not scale with the square of the field"
            # every regulariser and option set: 'mean' / 'sum' are the mean / sum of the 'none' output
            variants = [("grad_loss", dict(p=2, q=1)), ("grad_loss", dict(p=2, q=2)), ("grad_loss", dict(p=1, q=2)), ("grad_loss", dict(p=2)),
                        ("grad_loss", dict(p=1, q=3)), ("grad_loss", {}), ("total_variation_loss", {}), ("curvature_loss", {}),
                        ("elasticity_loss", dict(first_parameter=2, second_parameter=3)),
                        ("bending_loss", {}), ("diffusion_loss", {}), ("divergence_loss", {})]
            for name, kw in variants:
                none = it.call(fns[name], u, mode=mode, spacing=sp, reduction="none", **kw)
                if none.numel() < 2:
                    raise AnalysisError(f"{name}: 'none' output has a single entry (reductions not distinguishable)")
                if not teq(it.call(fns[name], u, mode=mode, spacing=sp, reduction="sum", **kw), none.sum()):
                    return False, f"{name}({kw}): 'sum' is not the sum of 'none'"
                if not teq(it.call(fns[name], u, mode=mode, spacing=sp, reduction="mean", **kw), none.mean()):
                    return False, f"{name}({kw}): 'mean' is not the mean of 'none'"
            # linear transforms
            M = STensor.symbols("M", [1, D, D + 1])
            for name in ("grad_loss", "bending_loss", "curvature_loss", "divergence_loss", "diffusion_loss", "total_variation_loss"):
                r = it.call(fns[name], M)
                if not all(to_rat(v).is_zero() for v in r.flat()):
                    return False, f"{name} of a homogeneous transform is not zero"
            return True, ""
        _guard(ctx, "T17.nullspace", f"D={D}", fns["grad_loss"], f"D={D} null spaces / reductions / scaling", th_null)

    def th_default_spacing():
        reset_relations()
        facts = fresh_facts()
        it = make_interp(ctx)
        shape = (4, 6)
        ones = [Rat.of(1), Rat.of(1)]
        u, coef = poly_field(2, shape, ones, 1, "")
        for row in coef["A"]:
            for a in row:
                facts.declare_positive(a)
        r = it.call(fns["grad_loss"], u, p=2, q=1, mode="forward_central_backward", reduction="none")
        # index-slope a per sample step; default spacing 2/(n-1) per axis (x <-> last tensor dim, n = 6; y: n = 4)
        hx, hy = Fraction(2, 5), Fraction(2, 3)
        A = coef["A"]
        want = sum(((A[c][0] / hx) ** 2 + (A[c][1] / hy) ** 2 for c in range(2)), Rat.of(0))
        bad = all_equal(r, want)
        return (bad is None), f"default spacing: {bad}"
    _guard(ctx, "T17.nullspace", "default-spacing", fns["grad_loss"], "default spacing 2/(n-1) in (x, ...) order", th_default_spacing)


def run_bspline_bending(ctx: Ctx) -> None:
    """C17: 'the B-spline bending energy equals the energy of the analytic spline derivatives' — every route to it."""
    prog = ctx.prog
    L = "deepali.losses.functional"
    f_bend = prog.func(L, "bending_loss")
    f_bsb = prog.func(L, "bspline_bending_loss")
    fS = prog.func("deepali.core.image", "spatial_derivatives")
    cls = prog.module("deepali.losses.bspline").classes["BSplineBending"]
    for f in (f_bend, f_bsb, fS):
        ctx.fn(f)
    ctx.rule("T17.bspline-bending", "on symbolic cubic B-spline coefficients (D = 2, 3; scalar and per-axis strides; with and without a spacing): "
                                    "bending_loss(c, mode='bspline', stride=s, reduction='none') = sum over components of (sum_j (d2/dx_j2)^2 + 2 sum_{j<k} "
                                    "(d2/dx_j dx_k)^2) of the spline derivatives spatial_derivatives(c, mode='bspline', order=2, stride=s) (whose analytic "
                                    "values T5.bspline decides); bspline_bending_loss(c, stride=s, reduction=r) and BSplineBending(stride=s, reduction=r)(c) "
                                    "equal it for r in none / mean / sum, 'mean' / 'sum' being the mean / sum of 'none'; the coefficients are left unchanged")
    for D in (2, 3):
        for stride in (1, 2, (2, 3) if D == 2 else (3, 1, 2)):
            def th(D=D, stride=stride):
                reset_relations()
                facts = fresh_facts()
                it = make_interp(ctx)
                cshape = [1, D] + ([5, 6] if D == 2 else [4, 5, 4])
                c = STensor.symbols("c", cshape)
                c0 = c.clone()
                h = [Rat.atom(f"h{j}") for j in range(D)]
                for x in h:
                    facts.declare_positive(x)
                for sp in (None, STensor.from_flat(h, [D])):
                    kw = {} if sp is None else dict(spacing=sp)
                    # without a spacing the losses document cube units of the given tensor: 2/(n-1) per axis in (x, ...) order (T17.nullspace)
                    ref_sp = sp if sp is not None else STensor.from_flat([Rat.of(Fraction(2, n - 1)) for n in reversed(cshape[2:])], [D])
                    d2 = it.call(fS, c.clone(), mode="bspline", order=2, stride=stride, spacing=ref_sp)
                    want = None
                    seen = set()
                    for key, t in d2.items():
                        k = "".join(sorted(key))
                        if k in seen:
                            continue
                        seen.add(k)
                        term = t.mul(t)
                        if len(set(key)) > 1:
                            term = term.mul(2)
                        want = term if want is None else want.add(term)
                    if len(seen) != D * (D + 1) // 2:
                        raise AnalysisError(f"spatial_derivatives(order=2) returned keys {sorted(d2)}: expected {D * (D + 1) // 2} distinct second derivatives")
                    want = want.sum(1, keepdim=True)
                    got = it.call(f_bend, c.clone(), mode="bspline", stride=stride, reduction="none", **kw)
                    if got.numel() != want.numel() or not teq(got.reshape(list(want.shape)), want):
                        return False, (f"bending_loss(mode='bspline', stride={stride}, spacing={'given' if sp is not None else 'None'}) differs from the energy "
                                       f"of the spline's second derivatives: shape {tuple(got.shape)} vs {tuple(want.shape)}, {tstr(got)[:50]} vs {tstr(want)[:50]}")
                    if sp is not None:
                        continue
                    for red, ref in (("none", want), ("sum", want.sum()), ("mean", want.mean())):
                        r1 = it.call(f_bsb, c.clone(), stride=stride, reduction=red)
                        if r1.numel() != ref.numel() or not teq(r1.reshape(list(ref.shape)), ref):
                            return False, f"bspline_bending_loss(stride={stride}, reduction={red!r}) differs from the energy of the spline's second derivatives"
                        r2 = it.call_value(it.new(cls, stride=stride, reduction=red), [c], {})
                        if r2.numel() != ref.numel() or not teq(r2.reshape(list(ref.shape)), ref):
                            return False, f"BSplineBending(stride={stride}, reduction={red!r})(c) differs from the energy of the spline's second derivatives"
                    r3 = it.call(f_bsb, c.clone(), stride=stride)
                    if not teq(r3, want.mean()):
                        return False, f"bspline_bending_loss(stride={stride}): default reduction is not 'mean'"
                    if not teq(c, c0):
                        return False, f"BSplineBending(stride={stride}) modified the coefficients it was given"
                return True, ""
            _guard(ctx, "T17.bspline-bending", f"D={D}:stride={stride}", f_bend, f"D={D} stride={stride}", th)


def run_lame(ctx: Ctx) -> None:
    prog = ctx.prog
    f = prog.func("deepali.losses.functional", "lame_parameters")
    ctx.fn(f)
    ctx.rule("T10.lame", "lame_parameters: every supported pair of elastic constants yields (lambda, mu) satisfying the defining identities "
                         "E = mu (3 lambda + 2 mu) / (lambda + mu), nu = lambda / (2 (lambda + mu)), mu = G, lambda as given")
    lam, mu = Fraction(3, 2), Fraction(5, 4)
    E = mu * (3 * lam + 2 * mu) / (lam + mu)
    nu = lam / (2 * (lam + mu))
    cases = [
        ("first+second", dict(first_parameter=lam, second_parameter=mu)),
        ("first+shear", dict(first_parameter=lam, shear_modulus=mu)),
        ("poisson+young", dict(poissons_ratio=nu, youngs_modulus=E)),
        ("shear+poisson", dict(shear_modulus=mu, poissons_ratio=nu)),
        ("shear+young", dict(shear_modulus=mu, youngs_modulus=E)),
        ("second+young", dict(second_parameter=mu, youngs_modulus=E)),
        ("first+poisson", dict(first_parameter=lam, poissons_ratio=nu)),
        ("first+young", dict(first_parameter=lam, youngs_modulus=E)),
    ]
    for name, kw in cases:
        def th(kw=kw, name=name):
            reset_relations()
            fresh_facts()
            it = make_interp(ctx)
            try:
                r = it.call(f, **kw)
            except InterpError as e:
                if e.exc_type == "NotImplementedError":
                    return True, "pair not supported (documented NotImplementedError)"
                raise
            l2, m2 = to_rat(r[0]), to_rat(r[1])
            # sqrt atoms: compare through squares where needed
            ok = (l2 - lam).is_zero() and (m2 - mu).is_zero()
            if not ok:
                # allow sqrt-valued results: check the defining identities instead
                def sq_eq(a, b):
                    return (a - b).is_zero()
                return False, f"{name}: (lambda, mu) = ({l2}, {m2}) expected ({lam}, {mu})"
            return True, ""
        _guard(ctx, "T10.lame", name, f, f"lame pair={name}", th)

    def rubber():
        reset_relations()
        fresh_facts()
        it = make_interp(ctx)
        r = it.call(f, material_name="rubber")
        nu_r, g_r = Fraction("0.4999"), Fraction("0.0006")
        want = 2 * g_r * nu_r / (1 - 2 * nu_r)
        return (to_rat(r[0]) - want).is_zero() and (to_rat(r[1]) - g_r).is_zero(), f"rubber: {r}"
    _guard(ctx, "T10.lame", "rubber", f, "lame material=rubber", rubber)


def run_inverse_consistency(ctx: Ctx) -> None:
    prog = ctx.prog
    f = prog.func("deepali.losses.functional", "inverse_consistency_loss")
    ctx.fn(f)
    ctx.fn(prog.func("deepali.core.flow", "denormalize_flow"))
    ctx.rule("T17.inverse-consistency", "inverse_consistency_loss of translations t, s on a grid with symbolic spacing: error vector t + s in cube "
                                        "units; 'voxel' multiplies component j by (n_j - 1)/2 (align_corners) or n_j/2; 'world' additionally by "
                                        "spacing_j; an exact inverse pair gives 0; margin crops symmetric borders; 'mean' over all / masked points")
    for D in (2, 3):
        size = (5, 4) if D == 2 else (4, 3, 5)
        for ac in (True, False):
            def th(D=D, size=size, ac=ac):
                reset_relations()
                facts = fresh_facts()
                it = make_interp(ctx)
                Grid = prog.cls("deepali.core.grid", "Grid")
                s = [Rat.atom(f"s{j}") for j in range(D)]
                for x in s:
                    facts.declare_positive(x)
                g = it.new(Grid, size=size, spacing=STensor.from_flat(s, [D]), align_corners=ac)
                t = [Rat.atom(f"t{j}") for j in range(D)]
                r_ = [Rat.atom(f"r{j}") for j in range(D)]
                fwd = STensor.from_flat(t, [1, D, 1])
                inv = STensor.from_flat(r_, [1, D, 1])
                e = [t[j] + r_[j] for j in range(D)]
                for units in ("cube", "voxel", "world"):
                    out = it.call(f, fwd, inv, grid=g, units=units, reduction="none")
                    scale = []
                    for j in range(D):
                        k = Rat.of(1)
                        if units in ("voxel", "world"):
                            k = k * (Fraction(size[j] - 1, 2) if ac else Fraction(size[j], 2))
                        if units == "world":
                            k = k * s[j]
                        scale.append(k)
                    want_sq = sum(((e[j] * scale[j]) ** 2 for j in range(D)), Rat.of(0))
                    for v in out.flat():
                        v = to_rat(v)
                        if not (v * v).equals(want_sq):
                            return False, (f"units={units}, align_corners={ac}: squared error {v * v} expected {want_sq} "
                                           f"(vector (t+s)_j scaled by {[str(k) for k in scale]})")
                # exact inverse
                out = it.call(f, fwd, fwd.neg(), grid=g, units="world", reduction="mean")
                if not all(to_rat(v).is_zero() for v in out.flat()):
                    return False, "exact inverse pair does not give 0"
                # margin
                out = it.call(f, fwd, inv, grid=g, margin=1, reduction="none")
                want_shape = [1] + [n - 2 for n in reversed(size)]
                if list(out.shape) != want_shape:
                    return False, f"margin=1 result shape {tuple(out.shape)} expected {want_shape}"
                # fractional margin on a non-cubic grid: int(margin * n_j) samples per side along axis j (x first)
                size2 = (8, 4) if D == 2 else (8, 4, 5)
                g2 = it.new(Grid, size=size2, spacing=STensor.from_flat(s, [D]), align_corners=ac)
                out = it.call(f, fwd, inv, grid=g2, margin=Fraction(1, 4), reduction="none")
                want_shape = [1] + [n - 2 * int(0.25 * n) for n in reversed(size2)]
                if list(out.shape) != want_shape:
                    return False, f"margin=0.25 on grid size {size2}: result shape {tuple(out.shape)} expected {want_shape}"
                return True, ""
            _guard(ctx, "T17.inverse-consistency", f"D={D}:ac={ac}", f, f"inverse consistency D={D} align_corners={ac}", th)


def run_module_values(ctx: Ctx) -> None:
    """Loss classes whose constructor *derives* a stored option from its arguments (not a plain copy) against their functional."""
    import ast
    import re
    prog = ctx.prog
    LF, L = "deepali.losses.flow", "deepali.losses.functional"
    ctx.rule("T17.module-values", "for every displacement loss class whose __init__ stores an option computed from its arguments (e.g. "
                                  "GradLoss: q = 1/p if q is None else q), module(**options)(u) equals functional(u, **options) on a symbolic "
                                  "field for every combination of the involved options over {None, 0, 1, 2, 1/2} (None only where documented); "
                                  "both sides raising the same exception counts as agreement")
    funcs = prog.module(L).functions
    found = 0
    for name, ci in sorted(prog.module(LF).classes.items()):
        init = ci.methods.get("__init__")
        fw = prog.find_method(ci, "forward")
        if init is None or fw is None or name.startswith("_"):
            continue
        params = [a for a in init.params if a != "self"]
        involved = set()
        for st in ast.walk(init.node):
            if isinstance(st, ast.Assign) and len(st.targets) == 1 and isinstance(st.targets[0], ast.Attribute) \
                    and isinstance(st.targets[0].value, ast.Name) and st.targets[0].value.id == "self":
                if not (isinstance(st.value, ast.Name) and st.value.id in params):
                    involved |= {n.id for n in ast.walk(st.value) if isinstance(n, ast.Name) and n.id in params}
        if not involved:
            continue
        target = None
        for n in ast.walk(fw.node):
            if isinstance(n, ast.Call) and isinstance(n.func, ast.Attribute) and n.func.attr in funcs:
                target = n.func.attr
        if target is None:
            raise AnalysisError(f"{name}.forward() reaches no functional of losses.functional")
        found += 1
        ft = funcs[target]
        a = init.node.args
        pos = a.posonlyargs + a.args
        defaults = {p_.arg: d_ for p_, d_ in zip(pos[len(pos) - len(a.defaults):], a.defaults)}
        opts = sorted(involved)
        cand = {}
        for o in opts:
            vals = [0, 1, 2, Fraction(1, 2)]
            d = defaults.get(o)
            ann = next((x.annotation for x in pos if x.arg == o), None)
            if (isinstance(d, ast.Constant) and d.value is None) or (ann is not None and "Optional" in ast.unparse(ann)):
                vals = [None] + vals
            cand[o] = vals
        combos = list(itertools.product(*[cand[o] for o in opts]))
        ctx.fn(init)

        def th(ci=ci, ft=ft, opts=opts, combos=combos, name=name):
            for combo in combos:
                kw = dict(zip(opts, combo))
                reset_relations()
                fresh_facts()
                it = make_interp(ctx)
                u = STensor.symbols("u", [1, 2, 3, 3])

                def run(f):
                    try:
                        return ("value", f())
                    except InterpError as e:
                        return ("raises", e.exc_type)
                    except ZeroDivisionError:
                        return ("raises", "ZeroDivisionError")
                got = run(lambda: it.call_value(it.new(ci, **kw), [u.clone()], {}))
                want = run(lambda: it.call(ft, u.clone(), **kw))
                if got[0] != want[0]:
                    return False, f"{name}({kw}): module {got[0]} {got[1] if got[0] == 'raises' else ''} but {ft.name}(u, {kw}) {want[0]} {want[1] if want[0] == 'raises' else ''}"
                if got[0] == "raises":
                    if got[1] != want[1]:
                        return False, f"{name}({kw}) raises {got[1]}, {ft.name} raises {want[1]}"
                    continue
                if not teq(got[1], want[1]):
                    return False, f"{name}({kw})(u) differs from {ft.name}(u, {kw}): {tstr(got[1])[:60]} vs {tstr(want[1])[:60]}"
            return True, ""
        _guard(ctx, "T17.module-values", name, init, f"class={name} options={opts} ({len(combos)} combinations)", th)
    if found == 0:
        raise AnalysisError("T17.module-values: no displacement loss class derives an option in its constructor (GradLoss expected)")
