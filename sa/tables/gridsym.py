"""Symbolic grids for the table adaptors: size n_i, spacing s_i, center c_i, direction = product of elementary rotations."""
from __future__ import annotations

from fractions import Fraction
from typing import Dict, List, Optional, Tuple

from .. import symt
from ..ring import Poly, Rat, reset_relations
from ..symt import Facts, STensor, declare_angle, set_facts, sfunc
from ..tae import Interp, Obj


def rotation(D: int, tag: str = "") -> STensor:
    if D == 2:
        a = declare_angle(f"th{tag}")
        c, s = sfunc("cos", a), sfunc("sin", a)
        return STensor.from_nested([[c, -s], [s, c]])
    angs = [declare_angle(f"th{tag}{k}") for k in range(3)]
    cs = [(sfunc("cos", a), sfunc("sin", a)) for a in angs]
    (c0, s0), (c1, s1), (c2, s2) = cs
    Rz = STensor.from_nested([[c0, -s0, 0], [s0, c0, 0], [0, 0, 1]])
    Ry = STensor.from_nested([[c1, 0, s1], [0, 1, 0], [-s1, 0, c1]])
    Rx = STensor.from_nested([[1, 0, 0], [0, c2, -s2], [0, s2, c2]])
    return symt.matmul(symt.matmul(Rz, Ry), Rx)


def fresh_facts() -> Facts:
    f = Facts()
    set_facts(f)
    return f


def sym_grid(it: Interp, D: int, tag: str = "", align_corners: bool = True, facts: Optional[Facts] = None,
             rotate: bool = True) -> Tuple[Obj, Dict[str, List[Rat]]]:
    """Construct a Grid through the repo's own constructor with symbolic attributes."""
    facts = facts or symt.FACTS
    n = [Rat.atom(f"n{tag}{i}") for i in range(D)]
    s = [Rat.atom(f"s{tag}{i}") for i in range(D)]
    c = [Rat.atom(f"c{tag}{i}") for i in range(D)]
    for x in n:
        facts.integral |= set(x.num.atoms())
        facts.declare_positive(x)
        facts.declare_positive(x - 1)  # n > 1 (side condition for the corner convention)
    for x in s:
        facts.declare_positive(x)
    R = rotation(D, tag) if rotate else symt.eye(D)
    Grid = it.prog.cls("deepali.core.grid", "Grid")
    g = it.new(Grid, size=STensor.from_flat(n, [D]), spacing=STensor.from_flat(s, [D]), center=STensor.from_flat(c, [D]),
               direction=R, align_corners=align_corners)
    return g, {"n": n, "s": s, "c": c, "R": R}
