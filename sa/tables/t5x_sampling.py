"""T5x: resampling pipelines hand torch.grid_sample the coordinates an independent resampler would use (C05, C06 warping).

Reference (independent of deepali, from the headers only — ITK's resampler with the identity transform): the value at target
index j is the source image interpolated at the continuous source index  W_src^-1( W_tgt(j) ),  W(i) = o + R diag(s) i,
o = c - R diag(s) (n - 1)/2.  torch.grid_sample is left uninterpreted; its documented convention turns a normalised coordinate u
into the continuous index ((u + 1) n - 1)/2 (align_corners=False) or (u + 1)(n - 1)/2 (True).  The obligations below compare, as
rational-function identities in symbolic spacing / center / rotation, the continuous indices implied by the coordinates and flag
that deepali hands to torch with the reference indices.
"""
from __future__ import annotations

import itertools
from fractions import Fraction
from typing import Any, Dict, List, Optional, Sequence, Tuple

from .. import symt
from ..core import Ctx
from ..index import AnalysisError
from ..ring import Rat, reset_relations
from ..symt import InterpError, STensor, Unsupported, to_rat
from ..tae import ModObj, Obj, STObj
from .gridsym import fresh_facts, rotation
from .t1_grid import _guard, apply, as_h, compose, identity_h, make_interp, teq, tstr


class Geo:
    """A grid built through deepali's constructor together with its header values (for the reference formulas)."""

    def __init__(self, env: "SEnv", tag: str, size: Tuple[int, ...], ac: bool, oriented: bool = True, same_domain_as: Optional["Geo"] = None):
        D = len(size)
        self.size = size
        self.shape = tuple(reversed(size))
        self.ac = ac
        if same_domain_as is not None:
            # another sampling of the same cube (Grid.cube(): extent (n-1) s with align_corners, n s without): same center and
            # orientation, spacing scaled so that the cube extent under each grid's own flag is the same
            o = same_domain_as
            self.s = [o.s[i] * (o.size[i] - int(o.ac)) / (size[i] - int(ac)) for i in range(D)]
            self.c = list(o.c)
            self.R = o.R
        else:
            self.s = [Rat.atom(f"s{tag}{i}") for i in range(D)]
            self.c = [Rat.atom(f"c{tag}{i}") for i in range(D)]
            for x in self.s:
                env.facts.declare_positive(x)
            self.R = rotation(D, tag) if oriented else symt.eye(D)
        self.obj = env.it.new(env.Grid, size=size, spacing=STensor.from_flat(self.s, [D]), center=STensor.from_flat(self.c, [D]),
                              direction=self.R, align_corners=ac)

    # reference maps (own formulas)
    def i2w(self) -> STensor:
        D = len(self.size)
        A = symt.matmul(self.R, STensor.from_nested([[self.s[i] if i == j else 0 for j in range(D)] for i in range(D)]))
        half = STensor.from_flat([Fraction(n - 1, 2) for n in self.size], [D])
        o = STensor.from_flat(self.c, [D]).sub(symt.matmul(A, half.unsqueeze(1)).squeeze(1))
        return symt.cat([A, o.unsqueeze(1)], dim=1)

    def w2i(self) -> STensor:
        D = len(self.size)
        Ainv = symt.matmul(STensor.from_nested([[Rat.of(1) / self.s[i] if i == j else 0 for j in range(D)] for i in range(D)]), self.R.t())
        m = self.i2w()
        o = m[:, D]
        return symt.cat([Ainv, symt.matmul(Ainv, o.unsqueeze(1)).neg()], dim=1)

    def cube2i(self, a: bool) -> STensor:
        """normalised coordinate (convention a) -> continuous index (torch's documented convention)."""
        D = len(self.size)
        rows = []
        for d in range(D):
            n = self.size[d]
            k, t = (Fraction(n - 1, 2), Fraction(n - 1, 2)) if a else (Fraction(n, 2), Fraction(n - 1, 2))
            rows.append([k if j == d else 0 for j in range(D)] + [t])
        return STensor.from_nested(rows)

    def i2cube(self, a: bool) -> STensor:
        D = len(self.size)
        rows = []
        for d in range(D):
            n = self.size[d]
            if a:
                k, t = Fraction(2, n - 1), Fraction(-1)
            else:
                k, t = Fraction(2, n), Fraction(1, n) - 1
            rows.append([k if j == d else 0 for j in range(D)] + [t])
        return STensor.from_nested(rows)


class SEnv:
    def __init__(self, ctx: Ctx):
        reset_relations()
        self.ctx = ctx
        self.facts = fresh_facts()
        self.it = make_interp(ctx)
        prog = ctx.prog
        self.Grid = prog.cls("deepali.core.grid", "Grid")
        self.Axes = prog.cls("deepali.core.grid", "Axes")
        self.IB = prog.cls("deepali.data.image", "ImageBatch")
        self.Im = prog.cls("deepali.data.image", "Image")

    def ax(self, name: str):
        return self.it.enum(self.Axes, name)


def torch_index(u: STensor, src: Geo, a: bool) -> STensor:
    return apply(src.cube2i(a), u)


def lattice(shape: Sequence[int]):
    """(tensor index tuple, (x, y, z) index list) over a tensor-shaped lattice."""
    for jx in itertools.product(*[range(n) for n in shape]):
        yield jx, list(reversed(jx))


def check_call_coords(call: Dict[str, Any], b: int, src: Geo, tshape: Sequence[int], want_map: STensor, what: str) -> Tuple[bool, str]:
    """The coordinates of recorded torch.grid_sample call for batch item b imply reference continuous indices want_map(j)."""
    D = len(tshape)
    a = bool(call["align_corners"])
    g = call["grid"]
    if list(g.shape[1:-1]) != list(tshape) and _numel(g.shape[1:-1]) != _numel(tshape):
        return False, f"{what}: coordinates of shape {tuple(g.shape)} for target shape {tuple(tshape)}"
    pts = g[b].reshape([-1, D])
    if list(call["input"].shape[2:]) != list(src.shape):
        return False, f"{what}: torch samples data of spatial shape {tuple(call['input'].shape[2:])}, source grid has {src.shape}"
    for q, (jx, j) in enumerate(lattice(tshape)):
        got = torch_index(pts[q], src, a)
        want = apply(want_map, STensor.from_flat(j, [D]))
        if not teq(got, want):
            return False, (f"{what}: target sample {j} is read at source index {tstr(got)[:120]} (coordinates and align_corners={a} handed to "
                           f"torch.grid_sample), the reference resampler reads {tstr(want)[:120]}")
    return True, ""


def _numel(shape) -> int:
    n = 1
    for k in shape:
        n *= int(k)
    return n


SIZES = {2: ((3, 2), (2, 3)), 3: ((3, 2, 2), (2, 2, 3))}  # (source size, target size), (x, y, z)
TORCH_MODE = {None: "bilinear", "linear": "bilinear", "bilinear": "bilinear", "nearest": "nearest"}


def run_batch_sample(ctx: Ctx) -> None:
    prog = ctx.prog
    fS = prog.func("deepali.data.image", "ImageBatch.sample")
    fG = prog.func("deepali.core.image", "grid_sample")
    fSI = prog.func("deepali.core.image", "sample_image")
    for f in (fS, fG, fSI, prog.func("deepali.core.image", "check_sample_grid"), prog.func("deepali.data.image", "Image.sample")):
        ctx.fn(f)
    ctx.rule("T5x.resample", "ImageBatch/Image.sample(grid): for oriented source and target grids with symbolic geometry, either align_corners "
                             "on either grid, shared or per-image grids: the coordinates and flag handed to torch.grid_sample read target "
                             "sample j at the continuous source index W_src^-1(W_tgt(j)) (ITK identity-transform resampler), per image; the "
                             "result carries the target grid")
    ctx.rule("T5x.modes", "interpolation and extrapolation options reach torch unchanged in meaning: linear -> 'bilinear', nearest -> 'nearest'; "
                          "zeros/border -> same padding_mode; constant c is emulated exactly as c + sample(data - c, zeros); default padding is zeros")
    ctx.rule("T5x.identity", "sampling on a grid equal to the image's own returns the image unchanged (same object or equal voxels), and sampling "
                             "at explicit normalised coordinates equals sampling on the grid those coordinates came from")
    for D in (2, 3):
        ssz, tsz = SIZES[D]
        for a_s in (True, False):
            for a_t in (True, False):
                for per_image in (False, True):
                    def th(D=D, ssz=ssz, tsz=tsz, a_s=a_s, a_t=a_t, per_image=per_image):
                        env = SEnv(ctx)
                        it = env.it
                        srcs = [Geo(env, f"a{b}", ssz, a_s) for b in range(2)]
                        tgts = [Geo(env, f"t{b}", tsz, a_t) for b in range(2 if per_image else 1)]
                        data = STensor.symbols("I", [2, 1] + list(srcs[0].shape))
                        batch = it.new(env.IB, data.clone(), tuple(g.obj for g in srcs))
                        del symt.GRID_SAMPLE_CALLS[:]
                        arg = tuple(g.obj for g in tgts) if per_image else tgts[0].obj
                        r = it.method(batch, "sample", arg)
                        calls = list(symt.GRID_SAMPLE_CALLS)
                        if len(calls) != 1:
                            return False, f"{len(calls)} torch.grid_sample calls"
                        for b in range(2):
                            tg = tgts[b if per_image else 0]
                            ok, msg = check_call_coords(calls[0], b, srcs[b], tg.shape, compose(srcs[b].w2i(), tg.i2w()), f"image {b}")
                            if not ok:
                                return False, msg
                        if not teq(calls[0]["input"], data):
                            return False, "torch samples something else than the image data"
                        if not isinstance(r, STObj) or r.cls.name != "ImageBatch":
                            return False, "result is not an ImageBatch"
                        rg = it.method(r, "grids")
                        for b in range(len(rg)):
                            tg = tgts[b if per_image else 0]
                            m = as_h(it.method(rg[b], "transform", env.ax("GRID"), env.ax("WORLD")))
                            if not teq(m, tg.i2w()):
                                return False, f"result grid {b} is not the target grid"
                        return True, ""
                    _guard(ctx, "T5x.resample", f"batch:D={D}:src={a_s}:tgt={a_t}:per={per_image}", fS,
                           f"ImageBatch.sample D={D} source align_corners={a_s} target align_corners={a_t} per-image targets={per_image}", th)

    # target grids that cover the same cube as the image grid with another size (pyramid levels), either flag on either side
    for D in (2, 3):
        ssz, tsz = SIZES[D]
        for a_s in (True, False):
            for a_t in (True, False):
                def thd(D=D, ssz=ssz, tsz=tsz, a_s=a_s, a_t=a_t):
                    env = SEnv(ctx)
                    it = env.it
                    src = Geo(env, "a", ssz, a_s)
                    tg = Geo(env, "t", tsz, a_t, same_domain_as=src)
                    if not it.method(src.obj, "same_domain_as", tg.obj):
                        raise AnalysisError("same-domain scenario: the two grids are not reported as covering the same domain")
                    data = STensor.symbols("I", [1, 1] + list(src.shape))
                    batch = it.new(env.IB, data.clone(), (src.obj,))
                    del symt.GRID_SAMPLE_CALLS[:]
                    r = it.method(batch, "sample", tg.obj)
                    calls = list(symt.GRID_SAMPLE_CALLS)
                    if len(calls) != 1:
                        return False, f"{len(calls)} torch.grid_sample calls"
                    ok, msg = check_call_coords(calls[0], 0, src, tg.shape, compose(src.w2i(), tg.i2w()), "image")
                    if not ok:
                        return False, msg
                    return True, ""
                _guard(ctx, "T5x.resample", f"same-domain:D={D}:src={a_s}:tgt={a_t}", fS,
                       f"ImageBatch.sample D={D} target covers the same cube with another size, source align_corners={a_s} target align_corners={a_t}", thd)

    # one target grid that equals the grid of the first image only
    for D in (2, 3):
        def thf(D=D):
            env = SEnv(ctx)
            it = env.it
            ssz = SIZES[D][0]
            srcs = [Geo(env, f"a{b}", ssz, True) for b in range(2)]
            data = STensor.symbols("I", [2, 1] + list(srcs[0].shape))
            batch = it.new(env.IB, data.clone(), tuple(g.obj for g in srcs))
            del symt.GRID_SAMPLE_CALLS[:]
            r = it.method(batch, "sample", srcs[0].obj)
            rg = it.method(r, "grids")
            for b in range(len(rg)):
                m = as_h(it.method(rg[b], "transform", env.ax("GRID"), env.ax("WORLD")))
                if not teq(m, srcs[0].i2w()):
                    return False, f"sample(grid of image 0): image {b} is returned on a different grid than requested"
            calls = list(symt.GRID_SAMPLE_CALLS)
            if len(calls) != 1:
                return False, f"sample(grid of image 0): image 1 lies on another grid and must be resampled ({len(calls)} torch.grid_sample calls)"
            return check_call_coords(calls[0], 1, srcs[1], srcs[0].shape, compose(srcs[1].w2i(), srcs[0].i2w()), "image 1")
        _guard(ctx, "T5x.resample", f"batch:D={D}:target=grid of image 0", fS, f"ImageBatch.sample D={D} target equals the grid of image 0 only", thf)

    # single Image
    for D in (2, 3):
        ssz, tsz = SIZES[D]
        for a_s in (True, False):
            def thi(D=D, ssz=ssz, tsz=tsz, a_s=a_s):
                env = SEnv(ctx)
                it = env.it
                src, tg = Geo(env, "a", ssz, a_s), Geo(env, "t", tsz, not a_s)
                data = STensor.symbols("I", [2] + list(src.shape))
                im = it.new(env.Im, data.clone(), src.obj)
                del symt.GRID_SAMPLE_CALLS[:]
                r = it.method(im, "sample", tg.obj)
                calls = list(symt.GRID_SAMPLE_CALLS)
                if len(calls) != 1:
                    return False, f"{len(calls)} torch.grid_sample calls"
                ok, msg = check_call_coords(calls[0], 0, src, tg.shape, compose(src.w2i(), tg.i2w()), "image")
                if not ok:
                    return False, msg
                if not isinstance(r, STObj) or r.cls.name != "Image" or list(r.shape) != [2] + list(tg.shape):
                    return False, "result is not an Image on the target grid"
                # explicit coordinates: same values
                coords = calls[0]["grid"][0]
                v = it.method(im, "sample", coords)
                if isinstance(v, STObj):
                    v = v.plain()
                if list(v.shape) != [2] + list(tg.shape) or not teq(v, r.plain()):
                    return False, "sampling at the explicit normalised coordinates differs from sampling on the grid they came from"
                # point list
                pl = coords.reshape([-1, D])
                v2 = it.method(im, "sample", pl)
                if isinstance(v2, STObj):
                    v2 = v2.plain()
                if list(v2.shape) != [2, pl.shape[0]] or not teq(v2, r.plain().reshape([2, -1])):
                    return False, "sampling at a list of points differs from sampling on the grid"
                return True, ""
            _guard(ctx, "T5x.identity", f"coords:D={D}:src={a_s}", fSI, f"Image.sample(coords) D={D} align_corners={a_s}", thi)

            def tho(D=D, ssz=ssz, a_s=a_s):
                env = SEnv(ctx)
                it = env.it
                src = Geo(env, "a", ssz, a_s)
                twin = it.new(env.Grid, size=ssz, spacing=STensor.from_flat(src.s, [D]), center=STensor.from_flat(src.c, [D]),
                              direction=src.R, align_corners=a_s)
                data = STensor.symbols("I", [1, 2] + list(src.shape))
                batch = it.new(env.IB, data.clone(), (src.obj,))
                r = it.method(batch, "sample", twin)
                if r is not batch and not teq(r.plain(), data):
                    return False, "sampling an image on (a copy of) its own grid does not return it unchanged"
                return True, ""
            _guard(ctx, "T5x.identity", f"own:D={D}:src={a_s}", fS, f"sample on own grid D={D} align_corners={a_s}", tho)

    # modes
    for mode in (None, "linear", "nearest"):
        for padding in (None, "zeros", "border", "const"):
            def thm(mode=mode, padding=padding):
                env = SEnv(ctx)
                it = env.it
                src, tg = Geo(env, "a", (3, 2), True), Geo(env, "t", (2, 3), True)
                data = STensor.symbols("I", [1, 1] + list(src.shape))
                batch = it.new(env.IB, data.clone(), (src.obj,))
                c = Fraction(7, 2)
                kw = {}
                if mode is not None:
                    kw["mode"] = mode
                if padding is not None:
                    kw["padding"] = c if padding == "const" else padding
                del symt.GRID_SAMPLE_CALLS[:]
                r = it.method(batch, "sample", tg.obj, **kw)
                call = symt.GRID_SAMPLE_CALLS[-1]
                if call["mode"] != TORCH_MODE[mode]:
                    return False, f"mode={mode!r} reaches torch as {call['mode']!r}"
                want_pad = {None: "zeros", "zeros": "zeros", "border": "border", "const": "zeros"}[padding]
                if call["padding_mode"] != want_pad:
                    return False, f"padding={padding!r} reaches torch as padding_mode={call['padding_mode']!r}"
                shift = c if padding == "const" else 0
                if not teq(call["input"], data.sub(shift)):
                    return False, f"padding={padding!r}: torch samples data shifted by something else than the constant"
                out = symt.grid_sample(data.sub(shift), call["grid"], mode=call["mode"], padding_mode=want_pad, align_corners=call["align_corners"])
                if not teq(r.plain(), out.add(shift)):
                    return False, f"padding={padding!r}: result is not constant + sample(data - constant)"
                if not teq(it.method(batch, "tensor"), data):
                    return False, "sampling changed the image data in place"
                return True, ""
            _guard(ctx, "T5x.modes", f"{mode}:{padding}", fG, f"mode={mode!r} padding={padding!r}", thm)


def run_modules(ctx: Ctx) -> None:
    prog = ctx.prog
    M = "deepali.modules.sample"
    fM = prog.func(M, "SampleImage._matrix")
    fF = prog.func(M, "SampleImage.forward")
    for f in (fM, fF, prog.func(M, "SampleImage._sample_source_image"), prog.func(M, "TransformImage.forward"), prog.func(M, "AlignImage.forward")):
        ctx.fn(f)
    ctx.rule("T5x.modules", "SampleImage / TransformImage / AlignImage(target, source, axes): the precomputed target->source matrix and the flag "
                            "handed to torch read target sample j at the continuous source index W_src^-1(W_tgt(j)) (transform None / identity), "
                            "resp. W_src^-1 o X o A o X^-1 o W_tgt (j) for a linear transform A given with respect to `axes` of the target grid "
                            "(X: axes -> world); align_centers=True reads at W_src^-1(W_tgt(j) - c_tgt + c_src); options reach torch")
    for D in (2, 3):
        ssz, tsz = SIZES[D]
        for a_t in (True, False):
            for a_s in (True, False):
                for axes in (None, "WORLD", "GRID", "CUBE", "CUBE_CORNERS"):
                    for centers in (False, True):
                        if centers and axes is not None:
                            continue

                        def th(D=D, ssz=ssz, tsz=tsz, a_t=a_t, a_s=a_s, axes=axes, centers=centers):
                            env = SEnv(ctx)
                            it = env.it
                            src, tg = Geo(env, "a", ssz, a_s), Geo(env, "t", tsz, a_t)
                            data = STensor.symbols("I", [1, 1] + list(src.shape))
                            kw = {}
                            if axes is not None:
                                kw["axes"] = env.ax(axes)
                            ax_obj = env.ax(axes) if axes is not None else env.ax("CUBE_CORNERS" if a_t else "CUBE")
                            # X: axes of target -> world (reference)
                            if axes == "WORLD":
                                X = identity_h(D)
                            elif axes == "GRID":
                                X = tg.i2w()
                            elif axes in ("CUBE", "CUBE_CORNERS"):
                                X = compose(tg.i2w(), tg.cube2i(axes == "CUBE_CORNERS"))  # explicit cube convention, whatever the grid's flag
                            else:
                                X = compose(tg.i2w(), tg.cube2i(a_t))
                            # the target lattice expressed in `axes` (own arithmetic): X^-1(W_tgt(j)) for every sample j
                            to_ax = compose(_inverse_affine(X), tg.i2w())
                            Xinv_pts = symt.stack([apply(to_ax, STensor.from_flat(list(j), [D])) for _, j in lattice(tg.shape)], 0) \
                                .reshape([1] + list(tg.shape) + [D])
                            own = it.method(tg.obj, "points", ax_obj)
                            if not teq(own.reshape([1] + list(tg.shape) + [D]), Xinv_pts):
                                return False, f"Grid.points({axes or ax_obj.name}) differs from the target lattice expressed in these axes"
                            base = compose(src.w2i(), tg.i2w())
                            if centers:
                                D_ = D
                                shift = STensor.from_flat([src.c[i] - tg.c[i] for i in range(D_)], [D_])
                                base = compose(src.w2i(), compose(as_h(shift), tg.i2w()))
                            for cls in ("SampleImage", "TransformImage", "AlignImage"):
                                m = it.new(prog.cls(M, cls), tg.obj, src.obj, align_centers=centers, **kw)
                                variants = [("none", None, base)]
                                # (TransformImage decides linear vs dense by tensor rank, which is ambiguous for D=2: (N, 2, 3) is read as an
                                #  unbatched flow field; documented shape rule, outside this property)
                                if cls != "SampleImage" and not centers and not (cls == "TransformImage" and D == 2):
                                    A = STensor.symbols("A", [D, D + 1])
                                    # transform in `axes` coordinates of the target: j -> axes point -> A -> world -> source index
                                    to_axes = _inverse_affine(X)
                                    variants.append(("affine", A.unsqueeze(0), compose(src.w2i(), compose(X, compose(A, compose(to_axes, tg.i2w()))))))
                                    tv = STensor.symbols("tv", [D])
                                    Tm = symt.cat([symt.eye(D), tv.unsqueeze(1)], dim=1)
                                    variants.append(("translation (1, D, 1)", tv.reshape([1, D, 1]),
                                                     compose(src.w2i(), compose(X, compose(Tm, compose(to_axes, tg.i2w()))))))
                                    # state: the same module called again without a transform must behave as on its first call
                                    variants.append(("none, after the other calls", None, base))
                                for vname, tr, want in variants:
                                    del symt.GRID_SAMPLE_CALLS[:]
                                    if cls == "SampleImage":
                                        out = it.call_value(m, [Xinv_pts, data], {})
                                    else:
                                        out = it.call_value(m, [tr, data], {})
                                    calls = list(symt.GRID_SAMPLE_CALLS)
                                    if len(calls) != 1:
                                        return False, f"{cls}: {len(calls)} torch.grid_sample calls"
                                    ok, msg = check_call_coords(calls[0], 0, src, tg.shape, want, f"{cls}({vname})")
                                    if not ok:
                                        return False, msg
                                    if list(out.shape) != [1, 1] + list(tg.shape):
                                        return False, f"{cls}: output shape {tuple(out.shape)}"
                            return True, ""
                        _guard(ctx, "T5x.modules", f"D={D}:tgt={a_t}:src={a_s}:axes={axes}:centers={centers}", fM,
                               f"modules D={D} target align_corners={a_t} source align_corners={a_s} axes={axes} align_centers={centers}", th)

    def opts():
        env = SEnv(ctx)
        it = env.it
        src, tg = Geo(env, "a", (3, 2), True), Geo(env, "t", (2, 3), True)
        data = STensor.symbols("I", [1, 1] + list(src.shape))
        for cls in ("SampleImage", "TransformImage", "AlignImage"):
            for mode, padding in (("nearest", "zeros"), ("linear", "border"), ("linear", Fraction(3))):
                m = it.new(prog.cls(M, cls), tg.obj, src.obj, sampling=mode, padding=padding)
                del symt.GRID_SAMPLE_CALLS[:]
                pts = it.method(tg.obj, "coords")
                it.call_value(m, [pts if cls == "SampleImage" else None, data], {})
                call = symt.GRID_SAMPLE_CALLS[-1]
                wantp = padding if isinstance(padding, str) else "zeros"
                if call["mode"] != TORCH_MODE[mode] or call["padding_mode"] != wantp:
                    return False, f"{cls}(sampling={mode!r}, padding={padding!r}) reaches torch as {call['mode']!r}/{call['padding_mode']!r}"
                if not isinstance(padding, str) and not teq(call["input"], data.sub(padding)):
                    return False, f"{cls}: constant padding not emulated by subtract/sample/add"
        # defaults of the derived modules: linear / border
        m = it.new(prog.cls(M, "TransformImage"), tg.obj, src.obj)
        del symt.GRID_SAMPLE_CALLS[:]
        it.call_value(m, [None, data], {})
        call = symt.GRID_SAMPLE_CALLS[-1]
        if (call["mode"], call["padding_mode"]) != ("bilinear", "border"):
            return False, f"TransformImage defaults reach torch as {call['mode']}/{call['padding_mode']}"
        return True, ""
    _guard(ctx, "T5x.modules", "options", fF, "module options", opts)


def _inverse_affine(m: STensor) -> STensor:
    D = m.shape[0]
    A = m[:, :D]
    Ai = A.inverse()
    t = m[:, D]
    return symt.cat([Ai, symt.matmul(Ai, t.unsqueeze(1)).neg()], dim=1)


# ------------------------------------------------------------------------------------------------ C06: image / point set transformers
def run_transformers(ctx: Ctx) -> None:
    prog = ctx.prog
    T = "deepali.spatial.transformer"
    fI = prog.func(T, "ImageTransformer.__init__")
    fF = prog.func(T, "ImageTransformer.forward")
    fP = prog.func(T, "PointSetTransformer.forward")
    for f in (fI, fF, fP):
        ctx.fn(f)
    ctx.rule("T67.warp", "ImageTransformer(transform, target, source)(image): for a linear transform with symbolic matrix (A, b) defined on an "
                         "oriented grid G_t, and oriented target / source grids (all three distinct, any align_corners), the coordinates and flag "
                         "handed to torch.grid_sample read output sample j at the continuous source index W_src^-1( T_world( W_tgt(j) ) ), "
                         "T_world = X (A, b) X^-1 with X: cube(G_t) -> world; also with flip_coords, default target/source, align_centers")
    ctx.rule("T67.pointset", "PointSetTransformer(transform, grid, axes, to_grid, to_axes)(points) = [world -> to_axes of to_grid] o T_world o "
                             "[axes of grid -> world]")
    for D in (2, 3):
        ssz, tsz = SIZES[D]
        gsz = (2, 2) if D == 2 else (2, 2, 2)
        for a_g in (True, False):
            for combo in ("all-distinct", "defaults", "source-only", "target-only", "flip", "scalar-padding-twice"):
                def th(D=D, ssz=ssz, tsz=tsz, gsz=gsz, a_g=a_g, combo=combo):
                    env = SEnv(ctx)
                    it = env.it
                    G = Geo(env, "g", gsz, a_g)
                    HT = prog.cls("deepali.spatial.linear", "HomogeneousTransform")
                    t = it.new(HT, G.obj, params=False)
                    p = it.method(t, "data")
                    Ab = STensor.symbols("A", [D, D + 1])
                    for i, v in zip(p.idx, Ab.flat()):
                        p.store[i] = v
                    X = compose(G.i2w(), G.cube2i(a_g))
                    Tw = compose(X, compose(Ab, _inverse_affine(X)))
                    kw = {}
                    if combo in ("all-distinct", "flip", "scalar-padding-twice"):
                        tg, src = Geo(env, "t", tsz, not a_g), Geo(env, "a", ssz, a_g if D == 2 else not a_g)
                        kw = {"target": tg.obj, "source": src.obj}
                        if combo == "scalar-padding-twice":
                            kw["padding"] = 5  # constant outside value: c + sample(image - c, zeros)
                        if combo == "flip":
                            kw["flip_coords"] = True
                    elif combo == "defaults":
                        tg = src = G
                    elif combo == "target-only":
                        # documented default: the input image is sampled on the *target* grid when no source grid is given
                        tg = src = Geo(env, "t", tsz, not a_g)
                        kw = {"target": tg.obj}
                    else:
                        tg = G
                        src = Geo(env, "a", ssz, not a_g)
                        kw = {"source": src.obj}
                    if combo == "flip":
                        # the transform then acts on (z, y, x) coordinates: (A, b) -> (P A P, P b) with P the axis reversal
                        P = STensor.from_nested([[1 if i + j == D - 1 else 0 for j in range(D)] for i in range(D)])
                        A2 = symt.matmul(P, symt.matmul(Ab[:, :D], P))
                        b2 = symt.matmul(P, Ab[:, D].unsqueeze(1))
                        Tw = compose(X, compose(symt.cat([A2, b2], dim=1), _inverse_affine(X)))
                    IT = prog.cls(T, "ImageTransformer")
                    w = it.new(IT, t, **kw)
                    data = STensor.symbols("I", [1, 1] + list(src.shape))
                    data0 = data.clone()
                    del symt.GRID_SAMPLE_CALLS[:]
                    out = it.call_value(w, [data], {})
                    calls = list(symt.GRID_SAMPLE_CALLS)
                    if len(calls) != 1:
                        return False, f"{len(calls)} torch.grid_sample calls"
                    want = compose(src.w2i(), compose(Tw, tg.i2w()))
                    ok, msg = check_call_coords(calls[0], 0, src, tg.shape, want, f"ImageTransformer[{combo}]")
                    if not ok:
                        return False, msg
                    if list(out.shape) != [1, 1] + list(tg.shape):
                        return False, f"output shape {tuple(out.shape)} is not the target grid's"
                    if combo == "scalar-padding-twice":
                        # the warp is a function of (transform, image): the image handed in is still the caller's, and warping it again
                        # gives the same result (the constant outside value is subtracted from a copy, not from the caller's tensor)
                        if not teq(data, data0):
                            return False, "ImageTransformer(padding=5)(image) changed the image it was given"
                        out2 = it.call_value(w, [data], {})
                        if not teq(out2, out) or not teq(data, data0):
                            return False, "ImageTransformer(padding=5) applied a second time to the same image gives another result"
                    return True, ""
                _guard(ctx, "T67.warp", f"D={D}:ac={a_g}:{combo}", fI, f"ImageTransformer D={D} transform-grid align_corners={a_g} {combo}", th)

        for axes, to_axes in (("WORLD", "WORLD"), ("GRID", "WORLD"), ("CUBE", "GRID"), (None, None)):
            def thp(D=D, ssz=ssz, tsz=tsz, gsz=gsz, axes=axes, to_axes=to_axes):
                env = SEnv(ctx)
                it = env.it
                G = Geo(env, "g", gsz, True)
                HT = prog.cls("deepali.spatial.linear", "HomogeneousTransform")
                t = it.new(HT, G.obj, params=False)
                p = it.method(t, "data")
                Ab = STensor.symbols("A", [D, D + 1])
                for i, v in zip(p.idx, Ab.flat()):
                    p.store[i] = v
                X = compose(G.i2w(), G.cube2i(True))
                Tw = compose(X, compose(Ab, _inverse_affine(X)))
                g1, g2 = Geo(env, "t", tsz, False), Geo(env, "a", ssz, True)

                def to_world(g: Geo, name: Optional[str]) -> STensor:
                    if name == "WORLD":
                        return identity_h(D)
                    if name == "GRID":
                        return g.i2w()
                    if name == "CUBE":
                        return compose(g.i2w(), g.cube2i(False))
                    return compose(g.i2w(), g.cube2i(True))  # CUBE_CORNERS
                PT = prog.cls(T, "PointSetTransformer")
                if axes is None:
                    w = it.new(PT, t)
                    a_in = a_out = "CUBE_CORNERS"
                    gi = go = G
                else:
                    w = it.new(PT, t, grid=g1.obj, axes=env.ax(axes), to_grid=g2.obj, to_axes=env.ax(to_axes))
                    a_in, a_out, gi, go = axes, to_axes, g1, g2
                x = STensor.symbols("x", [1, 2, D])
                y = it.call_value(w, [x], {})
                want = compose(_inverse_affine(to_world(go, a_out)), compose(Tw, to_world(gi, a_in)))
                for q in range(2):
                    if not teq(y[0, q], apply(want, x[0, q])):
                        return False, f"PointSetTransformer(axes={axes}, to_axes={to_axes}): point {q} maps to {tstr(y[0, q])[:120]}"
                return True, ""
            _guard(ctx, "T67.pointset", f"D={D}:{axes}->{to_axes}", fP, f"PointSetTransformer D={D} axes={axes} to_axes={to_axes}", thp)
