"""T16: image similarity / overlap losses evaluated over the ring domain (C16).

Symbolic voxel values (small tensors N=2, C=2, 2x2 samples), symbolic masks; torch's elementwise criteria are modelled
by their definitions (squared / absolute difference with sign facts) or left uninterpreted (Huber, smooth L1).
"""
from __future__ import annotations

import ast
import itertools
from fractions import Fraction
from typing import Any, Callable, Dict, List, Optional, Tuple

from .. import symt, tae
from ..core import Ctx
from ..index import AnalysisError
from ..ring import Poly, Rat, declare_square, reset_relations
from ..symt import InterpError, STensor, Unsupported, sfunc, to_rat
from ..tae import Interp
from .gridsym import fresh_facts
from .t1_grid import _guard, make_interp, teq, tstr

SHAPE = [2, 2, 2, 2]


def _reduce(t: STensor, reduction: str) -> STensor:
    if reduction == "none":
        return t
    if reduction == "sum":
        return t.sum()
    if reduction == "mean":
        return t.mean()
    raise InterpError("ValueError", f"{reduction} is not a valid value for reduction")


def _install_criteria() -> None:
    def mse(x, y, reduction="mean", **k):
        return _reduce(x.sub(y).square(), reduction)

    def l1(x, y, reduction="mean", **k):
        return _reduce(x.sub(y).abs(), reduction)

    def unint(name):
        def f(x, y, reduction="mean", **k):
            par = k.get("delta", k.get("beta", 1))
            d = x.sub(y)
            vals = [Rat.of(0) if to_rat(v).is_zero() else sfunc(name, symt.sabs(v), par) for v in d.flat()]
            return _reduce(STensor.from_flat(vals, d.shape), reduction)
        return f
    tae._TORCH["mse_loss"] = mse
    tae._TORCH["l1_loss"] = l1
    tae._TORCH["huber_loss"] = unint("huber")
    tae._TORCH["smooth_l1_loss"] = unint("smooth_l1")


def _inputs(facts) -> Tuple[STensor, STensor, STensor]:
    y = STensor.symbols("y", SHAPE)
    p = STensor.symbols("p", SHAPE)
    for v in p.flat():
        facts.declare_positive(v)
    return y.add(p), y, p


def _masks(facts) -> List[Tuple[str, STensor]]:
    out = []
    for shape in ([1, 1, 2, 2], [2, 1, 2, 2], [1, 2, 2, 2], [2, 2, 2, 2]):
        vals = []
        n = 1
        for s in shape:
            n *= s
        for i in range(n):
            if i % 3 == 0:
                vals.append(Rat.of(0))
            elif i % 3 == 1:
                vals.append(Rat.of(1))
            else:
                w = Rat.atom(f"w{'x'.join(map(str, shape))}_{i}")
                facts.declare_positive(w)
                vals.append(w)
        out.append((str(tuple(shape)), STensor.from_flat(vals, shape)))
    return out


def run_pointwise(ctx: Ctx) -> None:
    prog = ctx.prog
    L = "deepali.losses.functional"
    names = ["mse_loss", "ssd_loss", "mae_loss", "l1_loss", "huber_loss", "smooth_l1_loss"]
    for n in names + ["elementwise_loss", "masked_loss", "reduce_loss"]:
        ctx.fn(prog.func(L, n))
    ctx.rule("T16.reduction", "'sum' / 'mean' are the sum / mean of the 'none' output (unmasked)")
    ctx.rule("T16.mask", "with a mask of any documented shape ((1|N), (1|C), ...): 'none' = none * mask, 'sum' = sum(none * mask), "
                         "'mean' = sum(none * mask) / sum(mask expanded to the loss shape) — only the masked region is averaged, "
                         "samples with mask 0 do not contribute")
    ctx.rule("T16.identity", "identical inputs give exactly 0 for every reduction, with and without mask")
    ctx.rule("T16.norm", "a positive normalisation factor divides the loss; mask=None equals no mask; symmetric in (input, target)")
    _install_criteria()
    for name in names:
        f = prog.func(L, name)
        default_red = "sum" if name == "ssd_loss" else "mean"

        def mk():
            reset_relations()
            facts = fresh_facts()
            it = make_interp(ctx)
            x, y, p = _inputs(facts)
            return it, facts, x, y, p

        def th_red(f=f, default_red=default_red):
            it, facts, x, y, p = mk()
            none = it.call(f, x, y, reduction="none")
            if tuple(none.shape) != tuple(SHAPE):
                return False, f"'none' output shape {tuple(none.shape)}"
            s = it.call(f, x, y, reduction="sum")
            m = it.call(f, x, y, reduction="mean")
            d = it.call(f, x, y)
            if not teq(s, none.sum()):
                return False, "'sum' is not the sum of 'none'"
            if not teq(m, none.mean()):
                return False, "'mean' is not the mean of 'none'"
            if not teq(d, s if default_red == "sum" else m):
                return False, f"default reduction is not '{default_red}'"
            return True, ""
        _guard(ctx, "T16.reduction", name, f, f"loss={name} reduction", th_red)

        def th_mask(f=f):
            it, facts, x, y, p = mk()
            none = it.call(f, x, y, reduction="none")
            for desc, M in _masks(facts):
                Me = M.expand(SHAPE)
                mn = it.call(f, x, y, mask=M, reduction="none")
                if not teq(mn, none.mul(Me)):
                    return False, f"mask {desc}: 'none' output is not none * mask"
                ms = it.call(f, x, y, mask=M, reduction="sum")
                if not teq(ms, none.mul(Me).sum()):
                    return False, f"mask {desc}: 'sum' is not sum(none * mask)"
                mm = it.call(f, x, y, mask=M, reduction="mean")
                want = none.mul(Me).sum().div(Me.sum())
                if not teq(mm, want):
                    return False, f"mask {desc}: 'mean' = {tstr(mm)[:90]} is not sum(none * mask) / sum(expanded mask)"
            return True, ""
        _guard(ctx, "T16.mask", name, f, f"loss={name} mask", th_mask)

        def th_id(f=f):
            it, facts, x, y, p = mk()
            for red in ("none", "sum", "mean"):
                for M in [None] + [m for _, m in _masks(facts)]:
                    kw = {} if M is None else {"mask": M}
                    r = it.call(f, y, y.clone(), reduction=red, **kw)
                    if not all(to_rat(v).is_zero() for v in r.flat()):
                        return False, f"identical inputs, reduction={red}: {tstr(r)[:80]}"
            return True, ""
        _guard(ctx, "T16.identity", name, f, f"loss={name} identical inputs", th_id)

        def th_norm(f=f):
            it, facts, x, y, p = mk()
            c = Rat.atom("nrm")
            facts.declare_positive(c)
            for red in ("sum", "mean"):
                base = it.call(f, x, y, reduction=red)
                for norm in (4, STensor.from_flat([c], [])):
                    r = it.call(f, x, y, reduction=red, norm=norm)
                    want = base.div(norm)
                    if not teq(r, want):
                        return False, f"norm={norm}: {tstr(r)[:60]} expected {tstr(want)[:60]}"
                if not teq(it.call(f, x, y, mask=None, reduction=red), base):
                    return False, "mask=None differs from no mask"
                if not teq(it.call(f, y, x, reduction=red), base):
                    return False, "not symmetric in (input, target)"
            return True, ""
        _guard(ctx, "T16.norm", name, f, f"loss={name} norm/symmetry", th_norm)

        def th_norm_mask(f=f):
            # the two options together: the factor divides the masked loss as well
            it, facts, x, y, p = mk()
            c = Rat.atom("nrm")
            facts.declare_positive(c)
            for desc, M in _masks(facts)[:2]:
                for red in ("none", "sum", "mean"):
                    base = it.call(f, x, y, mask=M, reduction=red)
                    for norm in (4, STensor.from_flat([c], [])):
                        r = it.call(f, x, y, mask=M, reduction=red, norm=norm)
                        if not teq(r, base.div(norm)):
                            return False, f"mask {desc} and norm={norm} (reduction={red}): the masked loss is not divided by the factor"
            return True, ""
        _guard(ctx, "T16.norm", name + ":masked", f, f"loss={name} norm with mask", th_norm_mask)

        def th_mask_nc(f=f):
            # batch size different from the number of channels (N=1, C=2 and N=3, C=2): every documented mask shape is accepted
            for shape, mshapes in (([1, 2, 2, 2], ([1, 2, 2, 2], [1, 1, 2, 2])), ([3, 2, 1, 2], ([3, 2, 1, 2], [1, 2, 1, 2], [3, 1, 1, 2]))):
                reset_relations()
                facts = fresh_facts()
                it = make_interp(ctx)
                x, y = STensor.symbols("x", shape), STensor.symbols("y", shape)
                none = it.call(f, x, y, reduction="none")
                for ms in mshapes:
                    n = 1
                    for k in ms:
                        n *= k
                    vals = []
                    for i in range(n):
                        if i % 3 == 0:
                            vals.append(Rat.of(0))
                        else:
                            w = Rat.atom(f"m{'x'.join(map(str, ms))}_{i}")
                            facts.declare_positive(w)
                            vals.append(w)
                    M = STensor.from_flat(vals, ms)
                    try:
                        mn = it.call(f, x, y, mask=M, reduction="none")
                        mm = it.call(f, x, y, mask=M, reduction="mean")
                    except InterpError as e:
                        return False, f"images of shape {tuple(shape)}: the documented mask shape {tuple(ms)} is rejected ({e})"
                    Me = M.expand(shape)
                    if not teq(mn, none.mul(Me)):
                        return False, f"images {tuple(shape)}, mask {tuple(ms)}: 'none' output is not none * mask"
                    if not teq(mm, none.mul(Me).sum().div(Me.sum())):
                        return False, f"images {tuple(shape)}, mask {tuple(ms)}: 'mean' is not sum(none * mask) / sum(expanded mask)"
            return True, ""
        _guard(ctx, "T16.mask", name + ":N!=C", f, f"loss={name} mask shapes with N != C", th_mask_nc)


OSHAPE = [2, 2, 1, 2]  # overlap measures are ratios: keep the polynomials small


def _binary(prefix: str) -> STensor:
    t = STensor.symbols(prefix, OSHAPE)
    for v in t.flat():
        (a,) = v.num.atoms()
        declare_square(a, Poly.atom(a))  # idempotent: value in {0, 1}
    return t


def run_overlap(ctx: Ctx) -> None:
    prog = ctx.prog
    L = "deepali.losses.functional"
    fD, fDL = prog.func(L, "dice_score"), prog.func(L, "dice_loss")
    fT, fTL = prog.func(L, "tversky_index"), prog.func(L, "tversky_loss")
    for f in (fD, fDL, fT, fTL, prog.func("deepali.core.image", "dot_channels")):
        ctx.fn(f)
    ctx.rule("T16.overlap-identity", "dice_score / tversky_index of identical binary segmentations is 1 per (N, C) entry; the losses are 0 "
                                     "for 'none', 'mean' and 'sum'")
    ctx.rule("T16.overlap-reduction", "'mean' / 'sum' of dice_score, dice_loss, tversky_index, tversky_loss are the mean / sum of the 'none' output; "
                                      "loss = 1 - score entrywise")
    ctx.rule("T16.overlap-symmetry", "dice_score(p, y) = dice_score(y, p); tversky_index with alpha = beta = 1/2 on binary inputs equals Dice (eps = 0)")
    ctx.rule("T16.tversky-roles", "tversky_index = TP / (TP + alpha * FP + beta * FN): alpha multiplies sum p (1 - y), beta multiplies sum (1 - p) y; "
                                  "defaults alpha = 1 - beta, beta = 1 - alpha, both 1/2 when neither is given; weight multiplies every term")

    def mk():
        reset_relations()
        facts = fresh_facts()
        it = make_interp(ctx)
        return it, facts, _binary("p"), _binary("y")

    def ident():
        it, facts, p, y = mk()
        for f, kw in ((fD, {}), (fT, {})):
            s = it.call(f, y, y.clone(), reduction="none", epsilon=0, **kw)
            if tuple(s.shape) != (2, 2) or not all(to_rat(v).equals(1) for v in s.flat()):
                return False, f"{f.name}(y, y) = {tstr(s)[:80]}"
        for f in (fDL, fTL):
            for red in ("none", "mean", "sum"):
                r = it.call(f, y, y.clone(), reduction=red, epsilon=0)
                if not all(to_rat(v).is_zero() for v in r.flat()):
                    return False, f"{f.name}(y, y, reduction={red}) = {tstr(r)[:60]} instead of 0"
        # also with the default epsilon (same epsilon in numerator and denominator)
        for f in (fDL, fTL):
            r = it.call(f, y, y.clone(), reduction="sum")
            if not all(to_rat(v).is_zero() for v in r.flat()):
                return False, f"{f.name}(y, y) with default epsilon = {tstr(r)[:60]}"
        return True, ""
    _guard(ctx, "T16.overlap-identity", "identical", fDL, "identical binary segmentations", ident)

    def red():
        it, facts, p, y = mk()
        w = STensor.symbols("w", OSHAPE)
        for f in (fD, fDL, fT, fTL):
            for kw in ({}, {"weight": w}):
                none = it.call(f, p, y, reduction="none", **kw)
                if tuple(none.shape) != (2, 2):
                    return False, f"{f.name} 'none' shape {tuple(none.shape)}"
                if not teq(it.call(f, p, y, reduction="sum", **kw), none.sum()):
                    return False, f"{f.name}: 'sum' is not the sum of 'none' (weight={'weight' in kw})"
                if not teq(it.call(f, p, y, reduction="mean", **kw), none.mean()):
                    return False, f"{f.name}: 'mean' is not the mean of 'none' (weight={'weight' in kw})"
                if not teq(it.call(f, p, y, **kw), none.mean()):
                    return False, f"{f.name}: default reduction is not 'mean'"
        for fs, fl in ((fD, fDL), (fT, fTL)):
            a = it.call(fs, p, y, reduction="none")
            b = it.call(fl, p, y, reduction="none")
            if not teq(b, a.neg().add(1)):
                return False, f"{fl.name} is not 1 - {fs.name} entrywise"
        return True, ""
    _guard(ctx, "T16.overlap-reduction", "reductions", fDL, "overlap reductions", red)

    def sym():
        it, facts, p, y = mk()
        a = it.call(fD, p, y, reduction="none", epsilon=0)
        b = it.call(fD, y, p, reduction="none", epsilon=0)
        if not teq(a, b):
            return False, "dice_score not symmetric"
        t = it.call(fT, p, y, alpha=Fraction(1, 2), beta=Fraction(1, 2), reduction="none", epsilon=0)
        if not teq(t, a):
            return False, f"tversky(alpha=beta=1/2) = {tstr(t)[:70]} differs from Dice {tstr(a)[:70]} on binary inputs"
        t2 = it.call(fT, p, y, reduction="none", epsilon=0)
        if not teq(t2, a):
            return False, "tversky default alpha/beta is not 1/2, 1/2"
        return True, ""
    _guard(ctx, "T16.overlap-symmetry", "symmetry", fT, "dice/tversky symmetry", sym)

    def roles():
        it, facts, p, y = mk()
        a, b = Rat.atom("alpha"), Rat.atom("beta")
        w = STensor.symbols("w", OSHAPE)

        def ref(al, be, weight=None):
            ww = weight if weight is not None else symt.ones(OSHAPE)
            tp = p.mul(y).mul(ww).reshape([2, 2, -1]).sum(2)
            fp = p.mul(y.neg().add(1)).mul(ww).reshape([2, 2, -1]).sum(2)
            fn = p.neg().add(1).mul(y).mul(ww).reshape([2, 2, -1]).sum(2)
            return tp.div(tp.add(fp.mul(al)).add(fn.mul(be)))
        for kw, (al, be), weight in (({"alpha": a, "beta": b}, (a, b), None), ({"alpha": a}, (a, 1 - a), None), ({"beta": b}, (1 - b, b), None),
                                     ({"alpha": a, "beta": b, "weight": w}, (a, b), w)):
            t = it.call(fT, p, y, reduction="none", epsilon=0, **kw)
            want = ref(al, be, weight)
            if not teq(t, want):
                return False, f"tversky_index({sorted(kw)}) does not equal TP / (TP + alpha FP + beta FN) with alpha={al}, beta={be}"
        return True, ""
    _guard(ctx, "T16.tversky-roles", "roles", fT, "tversky alpha/beta roles", roles)


def run_target_forms(ctx: Ctx) -> None:
    """tversky_index / tversky_loss: every documented (input, target) form computes the index of the canonical form."""
    prog = ctx.prog
    L = "deepali.losses.functional"
    fT, fTL = prog.func(L, "tversky_index"), prog.func(L, "tversky_loss")
    ctx.fn(prog.func("deepali.core.tensor", "as_one_hot_tensor"))
    ctx.rule("T16.target-forms", "tversky_index / tversky_loss accept the documented forms and compute the same index as the canonical "
                                 "(N, C) vs (N, C) form: two-channel (background, foreground) prediction with a binary (N, 1) target uses "
                                 "the foreground channel; binary (N, 1) prediction with a one-hot (N, 2) target uses the foreground target "
                                 "channel; a label map (N, ...) is one-hot encoded (multi-class) resp. thresholded (binary prediction); "
                                 "identical segmentations given in different forms score 1")
    I64 = symt.INT

    def setup():
        reset_relations()
        fresh_facts()
        return make_interp(ctx)

    def two_channel():
        it = setup()
        p2 = STensor.symbols("p", [2, 2, 1, 3])
        y = _binary_shape("y", [2, 1, 1, 3])
        for f in (fT, fTL):
            got = it.call(f, p2, y, reduction="none", epsilon=0)
            want = it.call(f, p2[:, 1:2].clone(), y, reduction="none", epsilon=0)
            if tuple(got.shape) != tuple(want.shape) or not teq(got, want):
                return False, f"{f.name}((N,2) prediction, (N,1) target) does not score the foreground channel (index 1) against the target"
        fg = _binary_shape("y", [2, 1, 1, 3])
        pred = symt.cat([fg.neg().add(1), fg], 1)
        s = it.call(fT, pred, fg, reduction="none", epsilon=0)
        if not all(to_rat(v).equals(1) for v in s.flat()):
            return False, f"identical segmentations ((bg, fg) prediction vs binary target) score {tstr(s)[:60]} instead of 1"
        return True, ""
    _guard(ctx, "T16.target-forms", "two-channel prediction / binary target", fT, "input (N,2,...) target (N,1,...)", two_channel)

    def onehot_target():
        it = setup()
        f1 = STensor.symbols("p", [2, 1, 1, 3])
        y = _binary_shape("y", [2, 1, 1, 3])
        y2 = symt.cat([y.neg().add(1), y], 1)
        for f in (fT, fTL):
            got = it.call(f, f1, y2, reduction="none", epsilon=0)
            want = it.call(f, f1, y, reduction="none", epsilon=0)
            if tuple(got.shape) != tuple(want.shape) or not teq(got, want):
                return False, f"{f.name}((N,1) prediction, one-hot (N,2) target) does not score against the foreground target channel"
        return True, ""
    _guard(ctx, "T16.target-forms", "binary prediction / one-hot target", fT, "input (N,1,...) target (N,2,...)", onehot_target)

    def labels_multiclass():
        it = setup()
        p3 = STensor.symbols("p", [2, 3, 2, 2])
        labels = STensor.from_nested([[[0, 1], [2, 1]], [[2, 2], [0, 1]]]).type(I64)
        onehot = STensor.from_nested([[[[1 if labels[n, y_, x].flat()[0] == c else 0 for x in range(2)] for y_ in range(2)] for c in range(3)]
                                      for n in range(2)])
        for f in (fT, fTL):
            got = it.call(f, p3, labels, reduction="none", epsilon=0)
            want = it.call(f, p3, onehot, reduction="none", epsilon=0)
            if tuple(got.shape) != tuple(want.shape) or not teq(got, want):
                return False, f"{f.name}((N,3) prediction, label map (N,...)) differs from scoring against the one-hot encoding of the labels"
        s = it.call(fT, onehot.clone(), labels, reduction="none", epsilon=0)
        if not all(to_rat(v).equals(1) for v in s.flat()):
            return False, f"identical segmentations (one-hot prediction vs label map) score {tstr(s)[:60]} instead of 1"
        return True, ""
    _guard(ctx, "T16.target-forms", "multi-class prediction / label map", fT, "input (N,C,...) target (N,...)", labels_multiclass)

    def labels_binary():
        it = setup()
        f1 = STensor.symbols("p", [2, 1, 2, 2])
        labels = STensor.from_nested([[[0, 1], [1, 1]], [[1, 0], [0, 1]]]).type(I64)
        yb = labels.unsqueeze(1).type(symt.FLOAT)
        for f in (fT, fTL):
            got = it.call(f, f1, labels, reduction="none", epsilon=0)
            want = it.call(f, f1, yb, reduction="none", epsilon=0)
            if tuple(got.shape) != tuple(want.shape) or not teq(got, want):
                return False, f"{f.name}((N,1) prediction, label map (N,...)) differs from scoring against the binary target"
        return True, ""
    _guard(ctx, "T16.target-forms", "binary prediction / label map", fT, "input (N,1,...) target (N,...)", labels_binary)


def _binary_shape(prefix: str, shape) -> STensor:
    t = STensor.symbols(prefix, list(shape))
    for v in t.flat():
        (a,) = v.num.atoms()
        declare_square(a, Poly.atom(a))
    return t


def run_definitions(ctx: Ctx) -> None:
    """Values of the basic losses against their definitions (the other rules are relative to the 'none' output)."""
    prog = ctx.prog
    L = "deepali.losses.functional"
    ctx.rule("T16.definition", "ssd_loss 'none' = (input - target)^2 and mse_loss = its mean; mae_loss / l1_loss 'none' = |input - target|; "
                               "dice_score with a voxel weight w is (2 sum w p y + eps) / (sum w p^2 + sum w y^2 + eps) per (N, C) entry")

    def th_ssd():
        reset_relations()
        facts = fresh_facts()
        it = make_interp(ctx)
        x, y, p = _inputs(facts)
        d = x.sub(y)
        none = it.call(prog.func(L, "ssd_loss"), x, y, reduction="none")
        if not teq(none, d.mul(d)):
            return False, "ssd_loss(reduction='none') is not (input - target)^2"
        if not teq(it.call(prog.func(L, "mse_loss"), x, y), d.mul(d).mean()):
            return False, "mse_loss is not the mean squared difference"
        for n in ("mae_loss", "l1_loss"):
            a = it.call(prog.func(L, n), x, y, reduction="none")
            if not teq(a.mul(a), d.mul(d)):
                return False, f"{n}(reduction='none') squared is not (input - target)^2"
        return True, ""
    _guard(ctx, "T16.definition", "ssd/mse/mae", prog.func(L, "ssd_loss"), "pointwise definitions", th_ssd)

    def th_dice():
        reset_relations()
        facts = fresh_facts()
        it = make_interp(ctx)
        p, y = _binary("p"), _binary("y")
        w = STensor.symbols("w", OSHAPE)
        for v in w.flat():
            facts.declare_positive(v)
        eps = Rat.atom("eps")
        facts.declare_positive(eps)
        s = it.call(prog.func(L, "dice_score"), p, y, weight=w, epsilon=eps, reduction="none")
        N, C = OSHAPE[0], OSHAPE[1]
        for b in range(N):
            for c in range(C):
                pf, yf, wf = p[b, c].flat(), y[b, c].flat(), w[b, c].flat()
                num = sum((to_rat(a) * to_rat(q) * to_rat(r) for a, q, r in zip(wf, pf, yf)), Rat.of(0)) * 2 + eps
                den = sum((to_rat(a) * (to_rat(q) * to_rat(q) + to_rat(r) * to_rat(r)) for a, q, r in zip(wf, pf, yf)), Rat.of(0)) + eps
                if not to_rat(s[b, c].item()).equals(num / den):
                    return False, f"weighted dice_score[{b},{c}] is not (2 sum w p y + eps) / (sum w p^2 + sum w y^2 + eps)"
        return True, ""
    _guard(ctx, "T16.definition", "weighted dice", prog.func(L, "dice_score"), "weighted dice definition", th_dice)


def run_weight_shapes(ctx: Ctx) -> None:
    prog = ctx.prog
    L = "deepali.losses.functional"
    fT, fD = prog.func(L, "tversky_index"), prog.func(L, "dice_score")
    ctx.rule("T16.weight-shapes", "tversky_index accepts every documented weight shape ((N, ..., X), (N, 1, ..., X), (N, C, ..., X)) for "
                                  "single-channel binary and multi-channel predictions, and a broadcast weight equals its expanded form")
    for C in (1, 2):
        def th(C=C):
            reset_relations()
            fresh_facts()
            it = make_interp(ctx)
            shape = [2, C, 1, 2]
            p = STensor.symbols("p", shape)
            y = STensor.symbols("y", shape)
            w1 = STensor.symbols("w", [2, 1, 1, 2])
            full = it.call(fT, p, y, weight=w1.expand(shape).clone(), reduction="none", epsilon=0)
            for desc, w in (("(N, 1, ..., X)", w1), ("(N, ..., X)", w1[:, 0])):
                r = it.call(fT, p, y, weight=w, reduction="none", epsilon=0)
                if not teq(r, full):
                    return False, f"C={C}: weight shape {desc} differs from the expanded weight"
            return True, ""
        _guard(ctx, "T16.weight-shapes", f"C={C}", fT, f"tversky weight shapes C={C}", th)


def run_module_norm(ctx: Ctx) -> None:
    """NormalizedPairwiseImageLoss(source, target, norm): which factor divides the loss."""
    prog = ctx.prog
    LI, LB = "deepali.losses.image", "deepali.losses.base"
    base = prog.cls(LB, "NormalizedPairwiseImageLoss")
    fI = prog.find_method(base, "__init__")
    ctx.fn(fI)
    ctx.rule("T16.module-norm", "every NormalizedPairwiseImageLoss subclass: norm=None / True with reference images divides by "
                                "max_difference(source, target)^2 (one image given: used for both); norm=False, or no images, leaves the "
                                "loss unnormalised; an explicit positive factor k (symbolic, 4, and exactly 1 / 1.0) divides by k whether or "
                                "not images are given")
    subs = [ci for _, ci in sorted(prog.module(LI).classes.items()) if base in prog.mro(ci) and ci is not base]
    if len(subs) < 4:
        raise AnalysisError(f"only {len(subs)} subclasses of NormalizedPairwiseImageLoss found")
    src = STensor.from_nested([[[[0, 3], [1, 2]]]]).type(symt.FLOAT)
    tgt = STensor.from_nested([[[[1, 5], [-1, 2]]]]).type(symt.FLOAT)
    # max_difference = max(|smax - tmin|, |tmax - smin|) = max(|3 + 1|, |5 - 0|) = 5 -> factor 25; source only: 3 -> 9; target only: 6 -> 36
    for ci in subs:
        def th(ci=ci):
            reset_relations()
            facts = fresh_facts()
            it = make_interp(ctx)
            x = STensor.symbols("x", [1, 1, 2, 2])
            y = STensor.symbols("y", [1, 1, 2, 2])
            k = Rat.atom("k")
            facts.declare_positive(k)
            plain = it.call_value(it.new(ci, norm=False), [x, y], {})
            if to_rat(plain.flat()[0]).is_zero():
                raise AnalysisError(f"{ci.name}: unnormalised loss of symbolic images is identically zero (adaptor)")
            cases = [
                ("norm=None, source and target", dict(source=src, target=tgt), 25),
                ("norm=True, source and target", dict(source=src, target=tgt, norm=True), 25),
                ("norm=None, source only", dict(source=src), 9),
                ("norm=None, target only", dict(target=tgt), 36),
                ("norm=False, source and target", dict(source=src, target=tgt, norm=False), 1),
                ("no images", dict(), 1),
                ("norm=True, no images", dict(norm=True), 1),
                ("norm=k", dict(norm=k), k),
                ("norm=k, source and target", dict(source=src, target=tgt, norm=k), k),
                ("norm=4, source and target", dict(source=src, target=tgt, norm=4), 4),
                ("norm=1 (int), source and target", dict(source=src, target=tgt, norm=1), 1),
                ("norm=1.0, source and target", dict(source=src, target=tgt, norm=Fraction(1)), 1),
                ("norm=tensor(1.), source and target", dict(source=src, target=tgt, norm=STensor.from_flat([1], [], symt.FLOAT)), 1),
                ("norm=tensor(2.), source only", dict(source=src, norm=STensor.from_flat([2], [], symt.FLOAT)), 2),
            ]
            for what, kw, factor in cases:
                m = it.new(ci, **kw)
                got = it.call_value(m, [x, y], {})
                want = plain.div(factor)
                if not teq(got, want):
                    return False, f"{ci.name}({what}): loss is {tstr(got)[:70]}, expected the unnormalised loss divided by {factor}"
            return True, ""
        _guard(ctx, "T16.module-norm", ci.name, fI, f"class={ci.name}", th)


def run_module_functional(ctx: Ctx) -> None:
    """Loss classes evaluate the functional form they stand for (with default options)."""
    import re
    prog = ctx.prog
    L = "deepali.losses.functional"
    LI = "deepali.losses.image"
    ctx.rule("T16.module-functional", "each pairwise image loss class, constructed with default options and called on (source, target, mask), "
                                      "reaches the same functional with the same effective arguments as calling the functional form it is "
                                      "named after / documented to implement ('See :func:`...functional.X`'): e.g. NMI() evaluates nmi_loss, "
                                      "i.e. mi_loss(normalized=True)")
    fmod = prog.module(L)
    funcs = {n: f for n, f in fmod.functions.items() if not n.startswith("_") and f.module is fmod}
    table = {"L1ImageLoss": "mae_loss", "L2ImageLoss": "mse_loss", "HuberImageLoss": "huber_loss", "SmoothL1ImageLoss": "smooth_l1_loss"}
    pairs = []
    for name, ci in sorted(prog.module(LI).classes.items()):
        fw = prog.find_method(ci, "forward")
        if fw is None or name.startswith("_") or name in ("PatchwiseImageLoss",):
            continue
        target = None
        init = prog.find_method(ci, "__init__")
        docs = [ast.get_docstring(ci.node) or ""] + ([ast.get_docstring(init.node) or ""] if init is not None and init.cls is ci else [])
        for d in docs:
            m = re.search(r"functional\.([a-z0-9_]+)", d)
            if m and m.group(1) in funcs:
                target = m.group(1)
        if target is None and name.lower() + "_loss" in funcs:
            target = name.lower() + "_loss"
        if target is None:
            target = table.get(name)
        if target is not None and len(prog.find_method(ci, "forward").params) >= 3:
            pairs.append((ci, target))

    def record_run(run, exclude: Optional[str]):
        calls = []
        reset_relations()
        facts = fresh_facts()
        it = make_interp(ctx)
        for n, f in funcs.items():
            if n == exclude or n in ("masked_loss", "reduce_loss", "elementwise_loss"):
                continue

            def rec(interp, args, kwargs, f=f, n=n):
                b = dict(zip(f.pos_params, args))
                b.update(kwargs)
                a = f.node.args
                pos = a.posonlyargs + a.args
                for p_, d_ in zip(pos[len(pos) - len(a.defaults):], a.defaults):
                    if p_.arg not in b:
                        b[p_.arg] = interp.eval(d_, tae.Frame(f.module))
                for p_, d_ in zip(a.kwonlyargs, a.kw_defaults):
                    if d_ is not None and p_.arg not in b:
                        b[p_.arg] = interp.eval(d_, tae.Frame(f.module))
                calls.append((n, b))
                return STensor.from_flat([Rat.atom(f"out_{n}")], [])
            it.overrides[f.key] = rec
        x, y, p = _inputs(facts)
        m = STensor.symbols("m", [1, 1] + list(SHAPE[2:]))
        run(it, x, y, m)
        return calls

    def same_call(a, b) -> Tuple[bool, str]:
        if a[0] != b[0]:
            return False, f"reaches {a[0]}() instead of {b[0]}()"
        for k in sorted(set(a[1]) | set(b[1])):
            va, vb = a[1].get(k), b[1].get(k)
            if isinstance(va, STensor) or isinstance(vb, STensor):
                if not (isinstance(va, STensor) and isinstance(vb, STensor) and teq(va, vb)):
                    return False, f"{a[0]}() receives a different '{k}'"
            elif va != vb and not (va is None and vb is None):
                try:
                    if to_rat(va).equals(to_rat(vb)):
                        continue
                except Exception:
                    pass
                return False, f"{a[0]}() receives {k}={va!r}, the functional form passes {k}={vb!r}"
        return True, ""

    for ci, target in pairs:
        fw = prog.find_method(ci, "forward")
        ctx.fn(fw)

        def th(ci=ci, target=target):
            ft = funcs[target]
            fwp = prog.find_method(ci, "forward").params[3:]
            # further tensor arguments of forward() that the functional form takes under the same name (e.g. source_mask, target_mask)
            extra_names = [p_ for p_ in fwp if p_ != "mask" and p_ in ft.params]

            def extras():
                return {p_: STensor.symbols(f"arg_{p_}_", [1, 1] + list(SHAPE[2:])) for p_ in extra_names}
            mkey = "mask" if "mask" in ft.params else "weight"
            got = record_run(lambda it, x, y, m: it.call_value(it.new(ci), [x, y], dict(extras(), mask=m)), None)
            if not got:
                return False, f"{ci.name}.forward() reaches no functional of losses.functional"
            if got[0][0] == target:
                # the module calls its functional directly: compare with a default call of that functional
                want = record_run(lambda it, x, y, m: it.overrides[ft.key](it, [x, y], dict(extras(), **{mkey: m})), None)
            else:
                want = record_run(lambda it, x, y, m: it.call(ft, x, y, **dict(extras(), **{mkey: m})), target)
            if not want:
                return False, f"{target}() reaches no other functional (adaptor)"
            ok, why = same_call(got[0], want[0])
            if not ok:
                return False, f"{ci.name}() {why} — the class does not evaluate {target}()"
            return True, ""
        _guard(ctx, "T16.module-functional", ci.name, fw, f"class={ci.name} functional={target}", th)


def run_invariances(ctx: Ctx) -> None:
    prog = ctx.prog
    L = "deepali.losses.functional"
    ctx.rule("T16.invariance", "global (ncc_loss) and local (lcc_loss, window 3 on a 3x3 image so that every window is clipped by the border) "
                               "normalised cross correlation with epsilon = 0 are unchanged when the source is replaced by a*source + b: "
                               "symbolic offset b, scale factors a in {3, -2, 1/2}; as rational-function identities in symbolic voxel values")
    for name, kw in (("lcc_loss", {"kernel_size": 3}), ("ncc_loss", {})):
        f = prog.func(L, name)
        ctx.fn(f)

        def th(f=f, kw=kw, name=name):
            reset_relations()
            facts = fresh_facts()
            it = make_interp(ctx)
            shape = [1, 1, 3, 3]
            x, y = STensor.symbols("x", shape), STensor.symbols("y", shape)
            be = Rat.atom("be")
            k = dict(kw, epsilon=0, reduction="none")
            base = it.call(f, x, y, **k)
            if not teq(it.call(f, x.add(be), y, **k), base):
                return False, f"{name}(source + b, target) differs from {name}(source, target): not invariant to an intensity offset"
            if not teq(it.call(f, x, y.add(be), **k), base):
                return False, f"{name}(source, target + b) differs from {name}(source, target)"
            for a in (3, -2, Fraction(1, 2)):
                if not teq(it.call(f, x.mul(a), y, **k), base):
                    return False, f"{name}({a} * source, target) differs from {name}(source, target): not invariant to intensity scale"
            return True, ""
        _guard(ctx, "T16.invariance", name, f, f"loss={name}", th)

        def thb(f=f, kw=kw, name=name):
            # batches: every image pair is scored on its own — an intensity map applied to one item changes nothing, and the
            # batched 'none' output equals the per-pair evaluations
            reset_relations()
            fresh_facts()
            it = make_interp(ctx)
            shape = [2, 1, 2, 2] if name == "ncc_loss" else [2, 1, 3, 3]
            x, y = STensor.symbols("x", shape), STensor.symbols("y", shape)
            be = Rat.atom("be")
            k = dict(kw, epsilon=0, reduction="none")
            base = it.call(f, x, y, **k)
            if base.shape[0] != 2:
                return False, f"{name}(reduction='none') of a batch of 2 has leading shape {tuple(base.shape)}"
            for n in range(2):
                single = it.call(f, x[n:n + 1].clone(), y[n:n + 1].clone(), **k)
                if not teq(base[n:n + 1], single):
                    return False, f"{name}: item {n} of the batched 'none' output differs from evaluating that image pair on its own"
            x2 = x.clone()
            x2[1] = x[1].mul(3).add(be)
            got = it.call(f, x2, y, **k)
            if not teq(got, base):
                return False, f"{name}: an intensity map 3 x + b applied to the source of item 1 only changes the scores (items are not scored independently)"
            return True, ""
        _guard(ctx, "T16.invariance", name + ":batch", f, f"loss={name} batch of 2", thb)


def run_mi_symmetry(ctx: Ctx) -> None:
    """Mutual information is symmetric in its two images (relabelling-free symmetry), including the data-derived histogram range."""
    prog = ctx.prog
    L = "deepali.losses.functional"
    ctx.rule("T16.mi-symmetry", "mi_loss(a, b) = mi_loss(b, a) and nmi_loss(a, b) = nmi_loss(b, a) for concrete rational image pairs whose "
                                "intensity ranges differ (so that the default histogram range has to come from both images), 2 and 3 bins, "
                                "batches of 1 and 2, with and without a mask and with an explicit range — as identities between expressions in "
                                "exp / log atoms (the Parzen windows are evaluated symbolically, not numerically)")
    pairs = [([[0, 1, Fraction(1, 2), Fraction(1, 4)]], [[0, 3, 1, 2]]),
             ([[2, 5, 3, 2]], [[Fraction(-1), Fraction(1, 2), 0, 1]]),
             ([[0, 1, Fraction(1, 2), 1], [1, 0, 0, Fraction(1, 2)]], [[0, 3, 1, 2], [4, 1, 0, 2]])]
    for name in ("mi_loss", "nmi_loss"):
        f = prog.func(L, name)
        ctx.fn(f)
        for k, (a_, b_) in enumerate(pairs):
            for bins in (2, 3):
                def th(f=f, a_=a_, b_=b_, bins=bins, name=name):
                    reset_relations()
                    fresh_facts()
                    it = make_interp(ctx)
                    a = STensor.from_nested([[row] for row in a_]).type(symt.FLOAT)
                    b = STensor.from_nested([[row] for row in b_]).type(symt.FLOAT)
                    variants = [("default range", {}), ("explicit range", {"vmin": -1, "vmax": 5})]
                    m = STensor.from_nested([[[1, 1, 0, 1]]]).type(symt.FLOAT)
                    variants.append(("mask", {"mask": m}))
                    for what, kw in variants:
                        r1 = it.call(f, a.clone(), b.clone(), num_bins=bins, **kw)
                        r2 = it.call(f, b.clone(), a.clone(), num_bins=bins, **kw)
                        if not teq(r1, r2):
                            return False, f"{name}(a, b) != {name}(b, a) ({what}, num_bins={bins}; ranges of a and b differ)"
                    return True, ""
                _guard(ctx, "T16.mi-symmetry", f"{name}:pair{k}:bins={bins}", f, f"loss={name} image pair {k} num_bins={bins}", th)


def run_rand_sample(ctx: Ctx) -> None:
    """Random sampling inside a mask (the sampled variants of mi_loss / nmi_loss): which positions may be drawn is not random."""
    prog = ctx.prog
    fR = prog.func("deepali.core.image", "rand_sample")
    fM = prog.func("deepali.core.random", "multinomial")
    ctx.fn(fR)
    ctx.rule("T16.rand-sample", "rand_sample(data, k, mask) for a batch of 2 images, with and without replacement: the sampling weights handed to "
                                "multinomial() (an uninterpreted callee: the draw itself is random) are, for image n, the mask of image n (a shared "
                                "(1, 1, ...) mask for both; a per-image (N, 1, ...) mask row by row), so no position outside an image's own mask "
                                "can be drawn; the returned values are the values of that image (every channel, every data tensor of a sequence) "
                                "at the drawn positions")
    masks = {"shared": [[[[1, 0, 1], [0, 1, 1]]]], "per-image": [[[[1, 0, 1], [0, 0, 1]]], [[[0, 1, 0], [1, 1, 0]]]]}
    for what, m_ in masks.items():
        for repl in (False, True):
            def th(m_=m_, what=what, repl=repl):
                reset_relations()
                fresh_facts()
                it = make_interp(ctx)
                rec = []

                def fake_multinomial(interp, args, kwargs):
                    b = dict(zip(fM.pos_params, args))
                    b.update(kwargs)
                    w, k = b["input"], int(b["num_samples"])
                    rec.append(w.clone())
                    rows = []
                    for n in range(w.shape[0]):
                        allowed = [i for i, v in enumerate(w[n].flat()) if not to_rat(v).is_zero()]
                        if not allowed:
                            raise AnalysisError("T16.rand-sample: empty mask row (adaptor)")
                        rows.append([allowed[j % len(allowed)] for j in range(k)])
                    return STensor.from_nested(rows).type(symt.INT)
                it.overrides[fM.key] = fake_multinomial
                a = STensor.symbols("a", [2, 2, 2, 3])
                b_ = STensor.symbols("b", [2, 2, 2, 3])
                mask = STensor.from_nested(m_).type(symt.FLOAT)
                out = it.call(fR, [a, b_], 2, mask=mask, replacement=repl)
                if len(rec) != 1:
                    return False, f"multinomial reached {len(rec)} times"
                w = rec[0]
                if list(w.shape) != [2, 6]:
                    return False, f"sampling weights of shape {tuple(w.shape)} for 2 images of 6 points"
                for n in range(2):
                    mrow = mask[n if mask.shape[0] > 1 else 0].reshape([-1])
                    for i in range(6):
                        if to_rat(w[n, i].flat()[0]).is_zero() != to_rat(mrow[i].flat()[0]).is_zero():
                            return False, (f"{what} mask: image {n} may draw position {i} with weight {to_rat(w[n, i].flat()[0])} although its mask there is "
                                           f"{to_rat(mrow[i].flat()[0])} (weights row {n} is not the mask of image {n})")
                    allowed = [i for i in range(6) if not to_rat(mrow[i].flat()[0]).is_zero()]
                    for x, o in ((a, out[0]), (b_, out[1])):
                        for c in range(x.shape[1]):
                            for j in range(2):
                                want = x[n, c].reshape([-1])[allowed[j % len(allowed)]]
                                if not teq(o[n, c, j], want):
                                    return False, f"{what} mask: sample {j} of image {n} channel {c} is not the value of that image at the drawn position"
                return True, ""
            _guard(ctx, "T16.rand-sample", f"{what}:replacement={repl}", fR, f"rand_sample mask={what} replacement={repl}", th)


def run_sample_mask(ctx: Ctx) -> None:
    """The mask a patch-wise loss hands on: sampled from the binarised input mask, whatever its dtype."""
    prog = ctx.prog
    fG = prog.func("deepali.core.image", "grid_sample_mask")
    ctx.fn(fG)
    ctx.fn(prog.func("deepali.losses.image", "PatchwiseImageLoss.forward"))
    ctx.rule("T16.sample-mask", "grid_sample_mask(mask, grid, threshold) (used by PatchwiseImageLoss for its mask): the tensor interpolated by "
                                "torch.grid_sample is the indicator of mask > threshold — a sample whose mask value is zero stays masked out (with the "
                                "default threshold a 0/1 mask is itself) — identically for float, integer and bool masks, with zero padding and "
                                "linear interpolation; sampled at its own lattice the mask comes back unchanged")
    from .t11_expv import identity_coords
    shape = (2, 3)
    for ac in (True, False):
        def th(ac=ac):
            reset_relations()
            fresh_facts()
            it = make_interp(ctx)
            grid = identity_coords(shape, ac).reshape([1] + list(shape) + [2])
            cases = [("float 0/1", [0, 1, 1, 0, 1, 0], symt.FLOAT, {}, [0, 1, 1, 0, 1, 0]),
                     ("int64 0/1", [0, 1, 1, 0, 1, 0], symt.INT, {}, [0, 1, 1, 0, 1, 0]),
                     ("bool", [False, True, True, False, True, False], symt.BOOL, {}, [0, 1, 1, 0, 1, 0]),
                     ("float weights", [0, Fraction(1, 2), 2, 0, Fraction(1, 4), 0], symt.FLOAT, {}, [0, 1, 1, 0, 1, 0]),
                     ("float weights, threshold 1/3", [0, Fraction(1, 2), 2, 0, Fraction(1, 4), 0], symt.FLOAT, {"threshold": Fraction(1, 3)}, [0, 1, 1, 0, 0, 0])]
            for what, vals, dt, kw, want in cases:
                m = STensor.from_flat(vals, [1, 1] + list(shape), dt)
                del symt.GRID_SAMPLE_CALLS[:]
                r = it.call(fG, m, grid, align_corners=ac, **kw)
                calls = list(symt.GRID_SAMPLE_CALLS)
                if len(calls) != 1:
                    return False, f"{len(calls)} torch.grid_sample calls"
                c = calls[0]
                got = [to_rat(int(v) if isinstance(v, bool) else v) for v in c["input"].flat()]
                if len(got) != 6 or any(not g.equals(Rat.of(w)) for g, w in zip(got, want)):
                    return False, (f"{what} mask {vals}: the interpolated tensor is {[str(g) for g in got]}, expected the indicator {want} of mask > "
                                   f"{kw.get('threshold', 0)} (a zero of the mask must stay masked out)")
                if str(c["padding_mode"]).lower().find("zero") < 0 or bool(c["align_corners"]) != ac:
                    return False, f"{what}: sampled with padding {c['padding_mode']} / align_corners={c['align_corners']}"
                if not teq(r.reshape([6]), STensor.from_flat(want, [6])):
                    return False, f"{what}: sampled at its own lattice the mask is {tstr(r)[:60]}, expected {want}"
            return True, ""
        _guard(ctx, "T16.sample-mask", f"align_corners={ac}", fG, f"grid_sample_mask align_corners={ac}", th)


def run_wlcc(ctx: Ctx) -> None:
    """Weighted local correlation (wlcc_loss / WLCC): symmetry, repeatability with reused mask tensors, reductions, reduction to lcc."""
    prog = ctx.prog
    L = "deepali.losses.functional"
    f = prog.func(L, "wlcc_loss")
    fl = prog.func(L, "lcc_loss")
    ctx.fn(f)
    ctx.rule("T16.wlcc", "wlcc_loss with epsilon = 0 on concrete rational images and positive float masks (3x3 and 3x3x3 windows clipped by the "
                         "border): wlcc(s, t, ms, mt) = wlcc(t, s, mt, ms) with the *same* mask tensors reused across the calls (a loss that "
                         "writes into its mask arguments is not repeatable); a second identical call returns the same value; identical images "
                         "and masks score 0; 'mean' / 'sum' are the masked mean / sum of 'none'; an intensity map a*x + b of the source changes "
                         "nothing; with unit masks it equals lcc_loss")
    for D in (2, 3):
        def th(D=D):
            reset_relations()
            fresh_facts()
            it = make_interp(ctx)
            n = 3 ** D
            shape = [1, 1] + [3] * D
            s = STensor.from_flat([Fraction((7 * i * i + 3 * i) % 11, 3) for i in range(n)], shape)
            t = STensor.from_flat([Fraction((5 * i * i + i + 2) % 13, 5) for i in range(n)], shape)
            ms = STensor.from_flat([Fraction(1 + (i % 3), 2) for i in range(n)], shape)
            mt = STensor.from_flat([Fraction(1 + ((2 * i + 1) % 4), 3) for i in range(n)], shape)
            ms0, mt0 = ms.clone(), mt.clone()
            k = dict(kernel_size=3, epsilon=0)
            a = it.call(f, s, t, source_mask=ms, target_mask=mt, reduction="none", **k)
            if not teq(ms, ms0) or not teq(mt, mt0):
                return False, "wlcc_loss modified a mask tensor it was given (later evaluations with the same masks are weighted differently)"
            b = it.call(f, t, s, source_mask=mt, target_mask=ms, reduction="none", **k)
            if not teq(a, b):
                return False, "wlcc(s, t, ms, mt) differs from wlcc(t, s, mt, ms) evaluated with the same mask tensors"
            a2 = it.call(f, s, t, source_mask=ms, target_mask=mt, reduction="none", **k)
            if not teq(a2, a):
                return False, "a second identical call of wlcc_loss returns another value"
            w = ms.mul(mt)
            mean = it.call(f, s, t, source_mask=ms, target_mask=mt, reduction="mean", **k)
            tot = it.call(f, s, t, source_mask=ms, target_mask=mt, reduction="sum", **k)
            none_sum = sum((to_rat(x) for x in a.flat()), Rat.of(0))
            if not to_rat(tot.flat()[0]).equals(none_sum):
                return False, "'sum' is not the sum of the 'none' output"
            wsum = sum((to_rat(x) for x in w.flat()), Rat.of(0))
            if not to_rat(mean.flat()[0]).equals(none_sum / wsum):
                return False, "'mean' is not the sum of the 'none' output divided by the sum of the mask"
            z = it.call(f, s, s.clone(), source_mask=ms, target_mask=ms.clone(), reduction="none", **k)
            if not all(to_rat(x).is_zero() for x in z.flat()):
                return False, "identical images and masks do not score 0"
            sc = it.call(f, s.mul(-2).add(Fraction(3, 4)), t, source_mask=ms, target_mask=mt, reduction="none", **k)
            if not teq(sc, a):
                return False, "an intensity map -2 x + 3/4 of the source changes the weighted local correlation"
            one = symt.ones(*shape)
            u = it.call(f, s, t, source_mask=one, target_mask=one.clone(), reduction="none", **k)
            v = it.call(fl, s, t, reduction="none", **k)
            if not teq(u, v):
                return False, "with unit masks wlcc_loss differs from lcc_loss"
            return True, ""
        _guard(ctx, "T16.wlcc", f"D={D}", f, f"loss=wlcc_loss D={D}", th)
