"""T13: data and grid move in lock-step (C04) — ImageBatch/Image spatial methods evaluated end-to-end over the ring domain.

The real methods (data/image.py -> core/image.py + core/grid.py) are interpreted on a batch of symbolic voxel values with
per-image symbolic grids.  Oracle = the property statement: the returned grid has the shape of the returned data and each
retained voxel value sits at the world position it had before (index relation derived from the two grids' own
index->world maps); for averaging ops, a linear intensity ramp in world space stays the same ramp.
"""
from __future__ import annotations

import itertools
from fractions import Fraction
from typing import Any, Dict, List, Optional, Sequence, Tuple

from .. import symt
from ..core import Ctx
from ..index import AnalysisError
from ..ring import Poly, Rat, reset_relations
from ..symt import InterpError, STensor, Unsupported, simplify, to_rat
from ..tae import Interp, Obj, STObj
from .gridsym import fresh_facts, rotation
from .t1_grid import ScenarioUnavailable, _guard, apply, as_h, compose, identity_h, make_interp, teq, tstr


class BatchEnv:
    def __init__(self, ctx: Ctx, shape: Tuple[int, ...], N: int = 2, C: int = 1, ac: bool = True, same_grid: bool = False,
                 fractional: bool = False):
        reset_relations()
        self.ctx = ctx
        self.facts = fresh_facts()
        self.it = make_interp(ctx)
        prog = ctx.prog
        self.D = D = len(shape)
        self.shape = shape
        self.size = tuple(reversed(shape))
        self.N, self.C = N, C
        self.Grid = prog.cls("deepali.core.grid", "Grid")
        self.Axes = prog.cls("deepali.core.grid", "Axes")
        self.IB = prog.cls("deepali.data.image", "ImageBatch")
        self.grids = []
        for b in range(N):
            tag = "" if same_grid else f"g{b}"
            s = [Rat.atom(f"s{tag}{i}") for i in range(D)]
            c = [Rat.atom(f"c{tag}{i}") for i in range(D)]
            for x in s:
                self.facts.declare_positive(x)
            R = rotation(D, tag)
            if fractional:
                # grid with a non-integral internal float size: downsample() of size 2n-1 keeps _size = n - 1/2, reports size() = n
                g0 = self.it.new(self.Grid, size=tuple(2 * n - 1 for n in self.size), spacing=STensor.from_flat(s, [D]),
                                 center=STensor.from_flat(c, [D]), direction=R, align_corners=ac)
                g = self.it.method(g0, "downsample")
                if tuple(int(x) for x in self.it.method(g, "size")) != tuple(self.size) or \
                        all(to_rat(x).equals(to_rat(y)) for x, y in zip(g.attrs["_size"].flat(), self.size)):
                    raise ScenarioUnavailable("downsample() of an odd-sized grid does not keep a non-integral internal size: no fractional-size grid can be built")
                self.grids.append(g)
                continue
            self.grids.append(self.it.new(self.Grid, size=self.size, spacing=STensor.from_flat(s, [D]),
                                          center=STensor.from_flat(c, [D]), direction=R, align_corners=ac))
        self.data = STensor.symbols("I", [N, C] + list(shape))
        self.batch = self.it.new(self.IB, self.data.clone(), tuple(self.grids))

    def gw(self, g: Obj) -> STensor:
        return as_h(self.it.method(g, "transform", self.it.enum(self.Axes, "GRID"), self.it.enum(self.Axes, "WORLD")))

    def wg(self, g: Obj) -> STensor:
        return as_h(self.it.method(g, "transform", self.it.enum(self.Axes, "WORLD"), self.it.enum(self.Axes, "GRID")))

    def index_map(self, g_old: Obj, g_new: Obj) -> Optional[List[List[Fraction]]]:
        """new index j -> old index i as a constant rational affine map, or None if it is not constant."""
        m = compose(self.wg(g_old), self.gw(g_new))
        out = []
        for row in m.tolist():
            r = []
            for v in row:
                v = to_rat(v)
                if not v.is_const():
                    return None
                r.append(v.const_value())
            out.append(r)
        return out


def _check_index_only(env: BatchEnv, r, fill=None, mode: str = "constant") -> Tuple[bool, str]:
    it = env.it
    D, N, C = env.D, env.N, env.C
    if not isinstance(r, STObj) or r.cls != env.IB:
        return False, f"result is {type(r).__name__}, expected ImageBatch"
    grids = it.method(r, "grids")
    if len(grids) != r.shape[0] or r.shape[0] != N:
        return False, f"{r.shape[0]} images but {len(grids)} grids"
    if r.shape[1] != C:
        return False, f"channels {r.shape[1]}"
    sp = tuple(r.shape[2:])
    for b in range(N):
        g2 = grids[b]
        gsz = tuple(int(x) for x in it.method(g2, "size"))
        if tuple(reversed(gsz)) != sp:
            return False, f"item {b}: grid size {gsz} does not match data shape {sp}"
        A = env.index_map(env.grids[b], g2)
        if A is None:
            return False, f"item {b}: returned grid is not an index-shifted copy of the input grid"
        for jx in itertools.product(*[range(n) for n in sp]):
            j = list(reversed(jx))  # (x, y, z)
            i = [sum(A[d][k] * j[k] for k in range(D)) + A[d][D] for d in range(D)]
            if any(Fraction(v).denominator != 1 for v in i):
                return False, f"item {b}: output index {j} maps to fractional input index {[str(v) for v in i]}"
            i = [int(v) for v in i]
            inside = all(0 <= i[d] < env.size[d] for d in range(D))
            for c in range(C):
                got = to_rat(r.plain()[(b, c) + tuple(jx)].flat()[0])
                if inside:
                    want = to_rat(env.data[(b, c) + tuple(reversed(i))].flat()[0])
                elif mode == "constant":
                    want = to_rat(0 if fill is None else fill)
                elif mode == "replicate":
                    ii = [min(max(i[d], 0), env.size[d] - 1) for d in range(D)]
                    want = to_rat(env.data[(b, c) + tuple(reversed(ii))].flat()[0])
                else:
                    continue
                if not got.equals(want):
                    where = "inside" if inside else "outside"
                    return False, (f"item {b}: output voxel {j} lies at input index {i} ({where} the input) according to the two grids, "
                                   f"but holds {got} instead of {want}")
    return True, ""


def _ramp_subst(env: BatchEnv) -> Dict[str, Rat]:
    """I[b,c,(z),y,x] := world-linear ramp a_b . i + k_b in index space (a linear function of world position)."""
    sub = {}
    D = env.D
    for b in range(env.N):
        a = [Rat.atom(f"a{b}{d}") for d in range(D)]
        k = Rat.atom(f"k{b}")
        for c in range(env.C):
            for ix in itertools.product(*[range(n) for n in env.shape]):
                name = "I" + "".join(str(v) for v in (b, c) + ix)
                idx = list(reversed(ix))
                sub[name] = sum((a[d] * idx[d] for d in range(D)), k) + c
    return sub


def _check_ramp(env: BatchEnv, r) -> Tuple[bool, str]:
    it = env.it
    D, N, C = env.D, env.N, env.C
    if not isinstance(r, STObj):
        return False, "result is not an ImageBatch"
    grids = it.method(r, "grids")
    if len(grids) != N:
        return False, f"{len(grids)} grids for {N} images"
    sub = _ramp_subst(env)
    sp = tuple(r.shape[2:])
    for b in range(N):
        g2 = grids[b]
        gsz = tuple(int(x) for x in it.method(g2, "size"))
        if tuple(reversed(gsz)) != sp:
            return False, f"item {b}: grid size {gsz} does not match data shape {sp}"
        A = env.index_map(env.grids[b], g2)
        if A is None:
            return False, f"item {b}: returned grid not related to input grid by a constant index map"
        a = [Rat.atom(f"a{b}{d}") for d in range(D)]
        k = Rat.atom(f"k{b}")
        for jx in itertools.product(*[range(n) for n in sp]):
            j = list(reversed(jx))
            i = [sum(A[d][q] * j[q] for q in range(D)) + A[d][D] for d in range(D)]
            for c in range(C):
                got = to_rat(r.plain()[(b, c) + tuple(jx)].flat()[0]).subs(sub)
                want = sum((a[d] * i[d] for d in range(D)), k) + c
                if not got.equals(want):
                    return False, f"item {b}: ramp value at output {j} (input index {[str(v) for v in i]}) is {got}, expected {want}"
    return True, ""


def run_lockstep(ctx: Ctx) -> None:
    prog = ctx.prog
    IBm = {n: prog.func("deepali.data.image", f"ImageBatch.{n}") for n in
           ("crop", "pad", "center_crop", "center_pad", "region_of_interest", "narrow", "avg_pool", "resize", "resample",
            "downsample", "upsample", "sample", "conv", "_make_instance", "grid_")}
    for f in IBm.values():
        ctx.fn(f)
    for n in ("crop", "pad", "center_crop", "center_pad", "region_of_interest", "avg_pool"):
        ctx.fn(prog.func("deepali.core.image", n))
    ctx.rule("T13.index-only", "ImageBatch crop/pad/center_crop/center_pad/region_of_interest/narrow (batch of 2 images with distinct "
                               "oriented grids): one grid per image; grid size = data shape; every output voxel holds the input voxel "
                               "that lies at the same world position according to the two grids' own maps; voxels outside hold the pad value")
    ctx.rule("T13.ramp", "avg_pool: an image that is a linear function of world position stays the same linear function on the returned grid")
    ctx.rule("T13.interp-flag", "resize/downsample/upsample: torch's interpolate receives the align_corners flag under which the returned grid "
                                "was derived, and the requested output size equals the returned grid's shape")
    ctx.rule("T13.sample", "ImageBatch.sample(grid | grids): torch's grid_sample receives, for image b, the target grid's sample coordinates "
                           "mapped target-cube -> world -> source_b-cube with one consistent convention, and the result carries the target grid(s)")
    shapes = {2: (3, 4), 3: (2, 3, 2)}
    for D in (2, 3):
        shape = shapes[D]
        size = tuple(reversed(shape))
        for ac in (True, False):
            env = BatchEnv(ctx, shape, N=2, C=(2 if D == 2 else 1), ac=ac)
            it, b = env.it, env.batch
            tag = f"D={D},align_corners={ac}"
            z = (0, 0) * D
            cases: List[Tuple[str, str, tuple, dict, Any, str]] = []
            if D == 2:
                cases += [
                    ("crop", "num=(1,0,0,1)", (), dict(num=(1, 0, 0, 1)), None, "constant"),
                    ("crop", "margin=(1,0)", (), dict(margin=(1, 0)), None, "constant"),
                    ("crop", "margin=1", (), dict(margin=1), None, "constant"),
                    ("crop", "num=(-1,2,0,-1),value=7", (), dict(num=(-1, 2, 0, -1), value=7), 7, "constant"),
                    ("pad", "num=(2,0,1,1),value=5", (), dict(num=(2, 0, 1, 1), value=5), 5, "constant"),
                    ("pad", "margin=(0,1)", (), dict(margin=(0, 1)), None, "constant"),
                    ("pad", "num=(-1,0,0,1)", (), dict(num=(-1, 0, 0, 1)), None, "constant"),
                    ("pad", "num=(1,2,0,1),mode=replicate", (), dict(num=(1, 2, 0, 1), mode="replicate"), None, "replicate"),
                    ("center_crop", "(2,2)", ((2, 2),), {}, None, "constant"),
                    ("center_crop", "(3,2)", ((3, 2),), {}, None, "constant"),
                    ("center_crop", "(1,3)", ((1, 3),), {}, None, "constant"),
                    ("center_crop", "(9,2) larger than the image on x", ((9, 2),), {}, None, "constant"),
                    ("center_crop", "(2,8) larger than the image on y", ((2, 8),), {}, None, "constant"),
                    ("center_pad", "(2,7) smaller than the image on x", ((2, 7),), {}, None, "constant"),
                    ("center_pad", "(8,1) smaller than the image on y", ((8, 1),), {}, None, "constant"),
                    ("center_pad", "(7,4)", ((7, 4),), {}, None, "constant"),
                    ("center_pad", "(6,6),value=3", ((6, 6),), dict(value=3), 3, "constant"),
                    ("center_pad", "(5,3)", ((5, 3),), {}, None, "constant"),
                    ("region_of_interest", "start=(1,0),size=(2,2)", ((1, 0), (2, 2)), {}, None, "constant"),
                    ("region_of_interest", "start=(-1,1),size=(4,3),value=9", ((-1, 1), (4, 3)), dict(value=9), 9, "constant"),
                    ("narrow", "dim=3,start=1,length=2", (3, 1, 2), {}, None, "constant"),
                    ("narrow", "dim=2,start=0,length=2", (2, 0, 2), {}, None, "constant"),
                    ("narrow", "dim=3,start=-2,length=2 (from the end)", (3, -2, 2), {}, None, "constant"),
                    ("narrow", "dim=2,start=-3,length=2 (from the end)", (2, -3, 2), {}, None, "constant"),
                ]
            else:
                cases += [
                    ("crop", "num=(0,1,1,0,0,0)", (), dict(num=(0, 1, 1, 0, 0, 0)), None, "constant"),
                    ("pad", "num=(1,0,0,2,1,0),value=2", (), dict(num=(1, 0, 0, 2, 1, 0), value=2), 2, "constant"),
                    ("center_crop", "(1,2,1)", ((1, 2, 1),), {}, None, "constant"),
                    ("center_pad", "(3,4,5)", ((3, 4, 5),), {}, None, "constant"),
                    ("center_crop", "(1,9,2) larger than the image on y", ((1, 9, 2),), {}, None, "constant"),
                    ("center_pad", "(1,5,1) smaller than the image on x,z", ((1, 5, 1),), {}, None, "constant"),
                    ("region_of_interest", "start=(0,1,0),size=(2,2,1)", ((0, 1, 0), (2, 2, 1)), {}, None, "constant"),
                    ("narrow", "dim=4,start=0,length=1", (4, 0, 1), {}, None, "constant"),
                    ("narrow", "dim=2,start=1,length=1", (2, 1, 1), {}, None, "constant"),
                    ("narrow", "dim=4,start=-1,length=1 (from the end)", (4, -1, 1), {}, None, "constant"),
                ]
            for op, desc, args, kw, fill, mode in cases:
                def th(op=op, args=args, kw=kw, fill=fill, mode=mode):
                    r = it.method(b, op, *args, **kw)
                    return _check_index_only(env, r, fill, mode)
                _guard(ctx, "T13.index-only", f"{tag}:{op}:{desc}", IBm[op], f"op={op} {desc} {tag}", th)
            # averaging
            for k, kwp in (((2, {}),) if D == 3 else ((2, {}), ((2, 1), {}), (3, {}))):  # (Grid.pool supports the default stride only)
                def thp(k=k, kwp=kwp):
                    r = it.method(b, "avg_pool", k, **kwp)
                    return _check_ramp(env, r)
                _guard(ctx, "T13.ramp", f"{tag}:avg_pool:{k}:{kwp}", IBm["avg_pool"], f"op=avg_pool kernel={k} {kwp} {tag}", thp)
            # sampling on other grids
            _sample_obligations(ctx, env, tag, IBm["sample"])
            _resample_obligations(ctx, shape, ac, tag, IBm["resample"])
            _conv_obligations(ctx, D, ac, tag, IBm["conv"])
            # interpolation flag pairing (own environment: sizes within the property's quantifier size / 2^levels >= 2)
            env_i = BatchEnv(ctx, (4, 6) if D == 2 else (4, 4, 6), N=2, C=1, ac=ac)
            size_i = tuple(reversed(env_i.shape))
            for op, args, kws in (("resize", (tuple(2 * n - 1 for n in size_i),), [{}, {"align_corners": True}, {"align_corners": False}]),
                                  ("downsample", (), [{}, {"align_corners": True}, {"align_corners": False}]),
                                  ("upsample", (), [{}, {"align_corners": not ac}])):
                for kw in kws:
                    def thi(op=op, args=args, kw=kw):
                        del symt.INTERPOLATE_CALLS[:]
                        del symt.GRID_SAMPLE_CALLS[:]
                        it_, env_ = env_i.it, env_i
                        r = it_.method(env_i.batch, op, *args, **kw)
                        eff = kw.get("align_corners", ac)
                        grids = it_.method(r, "grids")
                        if len(grids) != env_.N:
                            return False, f"{len(grids)} grids"
                        for g2 in grids:
                            gsz = tuple(int(x) for x in it_.method(g2, "size"))
                            if tuple(reversed(gsz)) != tuple(r.shape[2:]):
                                return False, f"grid size {gsz} vs data shape {tuple(r.shape[2:])}"
                        calls = list(symt.INTERPOLATE_CALLS) + list(symt.GRID_SAMPLE_CALLS)
                        if not calls:
                            return False, "no interpolation call reached torch"
                        last = calls[-1]
                        if bool(last["align_corners"]) != bool(eff):
                            return False, f"torch interpolation got align_corners={last['align_corners']} but the grid was derived with {eff}"
                        # geometry of derived grid under eff flag: corner/extent preservation is C03's job; here: same flag
                        g_ref = [it_.method(g, op, *args, **({"align_corners": eff})) for g in env_.grids]
                        for g2, gr in zip(grids, g_ref):
                            if not teq(env_.gw(g2), env_.gw(gr)):
                                return False, "returned grid differs from Grid." + op + " under the flag given to the tensor operation"
                        return True, ""
                    _guard(ctx, "T13.interp-flag", f"{tag}:{op}:{kw}", IBm[op], f"op={op} kw={kw} {tag}", thi)
            # the same operations on images whose grids carry a non-integral internal size (a pyramid level of an odd-sized grid)
            try:
                envf = BatchEnv(ctx, shape, N=2, C=1, ac=ac, fractional=True)
            except ScenarioUnavailable as e:
                if f"T13 fractional-size scenario skipped: {e}" not in ctx.notes:
                    ctx.notes.append(f"T13 fractional-size scenario skipped: {e}")
                continue
            for op, desc, args, kw, fill, mode in cases:
                def thf(op=op, args=args, kw=kw, fill=fill, mode=mode):
                    r = envf.it.method(envf.batch, op, *args, **kw)
                    return _check_index_only(envf, r, fill, mode)
                _guard(ctx, "T13.index-only", f"{tag},fractional-size:{op}:{desc}", IBm[op], f"op={op} {desc} {tag},fractional-size", thf)


def _conv_obligations(ctx: Ctx, D: int, ac: bool, tag: str, fC) -> None:
    """ImageBatch.conv with per-axis kernels of different extent and no padding: the grid is cropped by what the data lost, per axis."""
    ctx.rule("T13.conv", "ImageBatch.conv(kernel, padding=0) with symmetric normalised 1-D kernels of different extent per axis (3 and 5 taps, "
                         "None = axis not filtered) and with one separable kernel: the returned grid of each image has the shape of the "
                         "filtered data and a world-linear intensity ramp is returned as the same ramp at the returned grid's positions "
                         "(a symmetric normalised kernel reproduces linear functions)")
    k3 = STensor.from_flat([Fraction(1, 4), Fraction(1, 2), Fraction(1, 4)], [3])
    k5 = STensor.from_flat([Fraction(1, 16), Fraction(4, 16), Fraction(6, 16), Fraction(4, 16), Fraction(1, 16)], [5])
    shape = (6, 7) if D == 2 else (5, 6, 7)
    if D == 2:
        cases = [("[k3, k5]", [k3, k5]), ("[k5, k3]", [k5, k3]), ("[None, k5]", [None, k5]), ("k3 (separable)", k3)]
    else:
        cases = [("[k3, None, k5]", [k3, None, k5]), ("[k5, k3, k3]", [k5, k3, k3])]
    for desc, kern in cases:
        def th(kern=kern):
            env = BatchEnv(ctx, shape, N=2, C=1, ac=ac)
            r = env.it.method(env.batch, "conv", [k.clone() if isinstance(k, STensor) else k for k in kern] if isinstance(kern, list) else kern.clone(),
                              padding=0)
            return _check_ramp(env, r)
        _guard(ctx, "T13.conv", f"{tag}:{desc}", fC, f"op=conv kernel={desc} padding=0 {tag}", th)


def _resample_obligations(ctx: Ctx, shape, ac: bool, tag: str, fR) -> None:
    """ImageBatch.resample(spacing): the data is interpolated at the world positions of the returned grid's samples."""
    ctx.rule("T13.resample", "ImageBatch.resample(spacing) (images sharing a symbolic spacing, own centers / orientations): the returned grid of "
                             "each image is Grid.resample(spacing) of its grid, its size is the data shape, and torch.grid_sample reads output "
                             "sample j at the continuous input index W_in^-1(W_out(j)) given by the two grids — for factors that divide the "
                             "extent and factors that do not (the output extent is then larger than the input extent), for the factor 1 (nothing to do) and for "
                             "factors so close to 1 that the number of samples stays the same while their positions change")
    D = len(shape)
    for fac in (Fraction(3, 2), Fraction(1, 2), Fraction(2), Fraction(5, 4), (Fraction(3, 2), Fraction(1), Fraction(2))[:D], Fraction(1), Fraction(11, 10),
                (Fraction(1), Fraction(21, 20), Fraction(1))[:D]):  # the last two keep the number of samples while changing the spacing
        def th(fac=fac):
            env = BatchEnv(ctx, shape, N=2, C=1, ac=ac)
            it = env.it
            # same spacing for all images (required by resample), distinct centers and orientations
            s = [Rat.atom(f"s{i}") for i in range(D)]
            for x in s:
                env.facts.declare_positive(x)
            grids = []
            for b in range(2):
                c = [Rat.atom(f"cg{b}{i}") for i in range(D)]
                grids.append(it.new(env.Grid, size=env.size, spacing=STensor.from_flat(s, [D]), center=STensor.from_flat(c, [D]),
                                    direction=rotation(D, f"g{b}"), align_corners=ac))
            batch = it.new(env.IB, env.data.clone(), tuple(grids))
            facs = [fac] * D if not isinstance(fac, tuple) else list(fac)
            out_sp = STensor.from_flat([s[i] * facs[i] for i in range(D)], [D])
            del symt.GRID_SAMPLE_CALLS[:]
            r = it.method(batch, "resample", out_sp)
            calls = list(symt.GRID_SAMPLE_CALLS)
            rg = it.method(r, "grids")
            if len(rg) != 2:
                return False, f"{len(rg)} grids"
            for b in range(2):
                want_g = it.method(grids[b], "resample", out_sp)
                if not teq(env.gw(rg[b]), env.gw(want_g)):
                    return False, f"item {b}: returned grid is not Grid.resample(spacing) of the image's grid"
                gsz = tuple(int(x) for x in it.method(rg[b], "size"))
                if tuple(reversed(gsz)) != tuple(r.shape[2:]):
                    return False, f"item {b}: grid size {gsz} does not match data shape {tuple(r.shape[2:])}"
            if not calls:
                # nothing was interpolated: legitimate only if the returned grids are the images' own grids (same sample positions)
                for b in range(2):
                    if not teq(env.gw(rg[b]), env.gw(grids[b])) or tuple(r.shape[2:]) != tuple(shape):
                        return False, (f"item {b}: the data was returned without interpolation although the returned grid (spacing x {fac}) places its "
                                       f"samples elsewhere than the image's grid")
                return (teq(r.plain(), env.data), "same grid: data changed")
            if len(calls) != 1:
                return False, f"{len(calls)} torch.grid_sample calls"
            c = calls[0]
            a = bool(c["align_corners"])
            n_in = list(reversed(shape))
            for b in range(2):
                A = env.index_map(grids[b], rg[b])
                if A is None:
                    return False, f"item {b}: grids not related by a constant index map"
                pts = c["grid"][b if c["grid"].shape[0] > 1 else 0].reshape([-1, D])
                q = 0
                for jx in itertools.product(*[range(n) for n in r.shape[2:]]):
                    j = list(reversed(jx))
                    want_i = [sum(A[d][k] * j[k] for k in range(D)) + A[d][D] for d in range(D)]
                    for d in range(D):
                        x = to_rat(pts[q][d].flat()[0])
                        got_i = (x + 1) / 2 * (n_in[d] - 1) if a else ((x + 1) * n_in[d] - 1) / 2
                        if not to_rat(got_i).equals(to_rat(want_i[d])):
                            return False, (f"item {b}: output sample {j} is read at input index {to_rat(got_i)} along axis {d}, but lies at "
                                           f"{want_i[d]} according to the input and returned grids (factor {fac})")
                    q += 1
            return True, ""
        _guard(ctx, "T13.resample", f"{tag}:factor={fac}", fR, f"op=resample spacing factor={fac} {tag}", th)


def _sample_obligations(ctx: Ctx, env: BatchEnv, tag: str, fS) -> None:
    it = env.it
    D = env.D
    tshape = (2, 3) if D == 2 else (2, 2, 2)
    tsize = tuple(reversed(tshape))
    targets = []
    for k in range(2):
        s = [Rat.atom(f"ts{k}{i}") for i in range(D)]
        c = [Rat.atom(f"tc{k}{i}") for i in range(D)]
        for x in s:
            env.facts.declare_positive(x)
        R = rotation(D, f"t{k}")
        targets.append(it.new(env.Grid, size=tsize, spacing=STensor.from_flat(s, [D]), center=STensor.from_flat(c, [D]),
                              direction=R, align_corners=(k == 0)))
    from .t11_expv import identity_coords
    for desc, arg in (("one target grid", targets[0]), ("per-image target grids", tuple(targets)), ("one grid in a tuple", (targets[1],))):
        def th(arg=arg, desc=desc):
            del symt.GRID_SAMPLE_CALLS[:]
            r = it.method(env.batch, "sample", arg)
            calls = list(symt.GRID_SAMPLE_CALLS)
            if len(calls) != 1:
                return False, f"{len(calls)} grid_sample calls"
            c = calls[0]
            a = bool(c["align_corners"])
            tl = list(arg) if isinstance(arg, tuple) else [arg]
            if c["grid"].shape[0] != env.N:
                return False, f"sampling coordinates for {c['grid'].shape[0]} images, batch has {env.N}"
            cube = "CUBE_CORNERS" if a else "CUBE"
            for b in range(env.N):
                tg = tl[b if len(tl) > 1 else 0]
                ident = identity_coords(tshape, a)
                m = compose(as_h(it.method(env.grids[b], "transform", it.enum(env.Axes, "WORLD"), it.enum(env.Axes, cube))),
                            as_h(it.method(tg, "transform", it.enum(env.Axes, cube), it.enum(env.Axes, "WORLD"))))
                pts = ident.reshape([-1, D])
                got = c["grid"][b].reshape([-1, D])
                for q in range(pts.shape[0]):
                    want = apply(m, pts[q])
                    if not teq(got[q], want):
                        return False, (f"image {b}: sample point {q} is {tstr(got[q])[:110]}, expected target->world->source_{b} map "
                                       f"{tstr(want)[:110]} (convention align_corners={a})")
            if not isinstance(r, STObj):
                return False, "result is not an ImageBatch"
            rg = it.method(r, "grids")
            if len(rg) != r.shape[0]:
                return False, f"result has {r.shape[0]} images but carries {len(rg)} grid(s)"
            for b in range(len(rg)):
                tg = tl[b if len(tl) > 1 else 0]
                if not teq(env.gw(rg[b]), env.gw(tg)):
                    return False, f"result grid {b} is not the target grid"
            return True, ""
        _guard(ctx, "T13.sample", f"{tag}:{desc}", fS, f"sample {desc} {tag}", th)

    def pad_scalar():
        # a constant outside value is emulated by shifting the data: the shift must not reach the caller's image (a second sampling of the
        # same batch would read shifted values although its grids still say where the original values are)
        before = [to_rat(v) for v in env.batch.flat()]
        first = it.method(env.batch, "sample", targets[0], padding=Fraction(5, 2))
        if not all(to_rat(a).equals(b) for a, b in zip(env.batch.flat(), before)):
            return False, "sample(grid, padding=5/2) changed the voxel values of the batch it was called on"
        again = it.method(env.batch, "sample", targets[0], padding=Fraction(5, 2))
        if not teq(again, first):
            return False, "sampling the same batch a second time with the same arguments returns other values"
        return True, ""
    _guard(ctx, "T13.sample", f"{tag}:scalar padding twice", fS, f"sample with a scalar outside value, twice {tag}", pad_scalar)

    # sampling on the image's own grids returns the batch itself
    def same():
        r = it.method(env.batch, "sample", tuple(env.grids))
        return r is env.batch, "sampling on own grids must return the same batch"
    _guard(ctx, "T13.sample", f"{tag}:own grids", fS, f"sample own grids {tag}", same)


def run_pyramid(ctx: Ctx) -> None:
    """ImageBatch.pyramid / Image.pyramid: the finest level is resampled at the positions its returned grid names."""
    prog = ctx.prog
    fP = prog.func("deepali.data.image", "ImageBatch.pyramid")
    ctx.fn(fP)
    ctx.rule("T13.pyramid", "ImageBatch.pyramid(levels, spacing=h | None) for either align_corners: whichever torch resampler produces the finest "
                            "level — grid_sample with explicit coordinates or interpolate with a size and a flag — reads, for sample j of the "
                            "returned level-0 grid, the source image at the continuous index W_src^-1(W_level0(j)) (explicit coordinates "
                            "unnormalised by torch's rule for the flag handed over; interpolate's index map for its flag); every level "
                            "carries one grid per image whose shape matches the data")
    from .t11_expv import identity_coords  # noqa: F401  (same normalisation conventions)
    # (10, 18) with spacing 2: the resampled grid has the same extent, already a size of the form 2^L k + 1, but other corner samples
    for D, size in ((2, (5, 4)), (2, (10, 18))):
        for ac in (True, False):
            for hfac in ((None, Fraction(1, 2), Fraction(2, 3), 2) if size == (5, 4) else (2,)):
                def th(D=D, size=size, ac=ac, hfac=hfac):
                    reset_relations()
                    facts = fresh_facts()
                    it = make_interp(ctx)
                    Grid = prog.cls("deepali.core.grid", "Grid")
                    Axes = prog.cls("deepali.core.grid", "Axes")
                    IB = prog.cls("deepali.data.image", "ImageBatch")
                    c = [Rat.atom(f"c{i}") for i in range(D)]
                    g = it.new(Grid, size=size, spacing=(1,) * D, center=STensor.from_flat(c, [D]), direction=rotation(D), align_corners=ac)
                    data = STensor.symbols("I", [1, 1] + list(reversed(size)))
                    batch = it.new(IB, data.clone(), (g,))
                    del symt.GRID_SAMPLE_CALLS[:]
                    del symt.INTERPOLATE_CALLS[:]
                    kw = {} if hfac is None else {"spacing": hfac}
                    pyr = it.method(batch, "pyramid", 1, **kw)
                    lv0 = pyr[0]
                    g0 = it.method(lv0, "grids")[0]
                    n0 = [int(x) for x in it.method(g0, "size")]
                    if list(lv0.shape[2:]) != list(reversed(n0)):
                        return False, f"level 0 data shape {list(lv0.shape)} vs grid size {n0}"
                    GR, W = it.enum(Axes, "GRID"), it.enum(Axes, "WORLD")
                    m = compose(as_h(it.method(g, "transform", W, GR)), as_h(it.method(g0, "transform", GR, W)))  # level-0 index -> source index
                    if tuple(n0) == tuple(size) and not symt.GRID_SAMPLE_CALLS and not symt.INTERPOLATE_CALLS:
                        return teq(m, identity_h(D)), "finest level has the size of the image but another geometry"
                    if symt.GRID_SAMPLE_CALLS:
                        call = symt.GRID_SAMPLE_CALLS[0]
                        a = bool(call["align_corners"])
                        coords = call["grid"][0].reshape([-1, D])
                        k = 0
                        for idx in itertools.product(*[range(n) for n in reversed(n0)]):
                            j = list(reversed(idx))  # (x, y[, z])
                            want = apply(m, STensor.from_flat(j, [D]))
                            for d in range(D):
                                cc = to_rat(coords[k, d].flat()[0])
                                src = (cc + 1) * (size[d] - 1) / 2 if a else ((cc + 1) * size[d] - 1) / 2
                                if not src.equals(to_rat(want[d].flat()[0])):
                                    return False, (f"spacing={hfac}: level-0 sample {j} is read at source index {src} along axis {d}, its grid places "
                                                   f"it at source index {to_rat(want[d].flat()[0])} (coordinates of the new grid's own cube were "
                                                   f"handed to torch as coordinates of the image's cube)")
                            k += 1
                        return True, ""
                    if symt.INTERPOLATE_CALLS:
                        call = symt.INTERPOLATE_CALLS[0]
                        a = bool(call["align_corners"])
                        for d in range(D):
                            n_in, n_out = size[d], n0[d]
                            for j in (0, n_out - 1):
                                src = Fraction(j * (n_in - 1), max(n_out - 1, 1)) if a else Fraction(2 * j + 1, 2) * Fraction(n_in, n_out) - Fraction(1, 2)
                                e = STensor.from_flat([j if q == d else 0 for q in range(D)], [D])
                                want = to_rat(apply(m, e)[d].flat()[0])
                                if not Rat.of(src).equals(want):
                                    return False, (f"spacing={hfac}: interpolate(align_corners={a}) reads level-0 sample {j} of axis {d} at source "
                                                   f"index {src}, its grid places it at {want}")
                        return True, ""
                    return False, "no resampling call seen for the finest level"
                _guard(ctx, "T13.pyramid", f"D={D}:size={size}:ac={ac}:h={hfac}" if size != (5, 4) else f"D={D}:ac={ac}:h={hfac}", fP,
                       f"pyramid spacing={hfac} D={D} align_corners={ac}" + ("" if size == (5, 4) else f" size={size}"), th)
