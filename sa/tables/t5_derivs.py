"""T5/T11: spatial derivatives of flow fields on polynomial fields (C12) — the real finite-difference / B-spline code
interpreted over the ring domain on fields with symbolic polynomial coefficients and symbolic anisotropic spacing."""
from __future__ import annotations

import itertools
from fractions import Fraction
from typing import Any, Dict, List, Optional, Sequence, Tuple

from .. import symt
from ..core import Ctx
from ..index import AnalysisError
from ..ring import Rat, reset_relations
from ..symt import InterpError, STensor, Unsupported, to_rat
from ..tae import Interp
from .gridsym import fresh_facts
from .t1_grid import _guard, make_interp, teq, tstr

FD_MODES = ["forward", "backward", "central", "forward_central_backward"]
LETTERS = "xyz"
CH = "uvw"


def poly_field(D: int, shape: Sequence[int], h: List[Rat], degree: int, tag: str, N: int = 1) -> Tuple[STensor, Dict]:
    """Vector field u_c(p) = t_c + sum_j A_cj p_j (+ sum_jk Q_cjk p_j p_k), p_j = index_j * h_j; returns (N, D, ..., X) tensor."""
    coef: Dict[str, Any] = {"A": [[Rat.atom(f"{tag}A{c}{j}") for j in range(D)] for c in range(D)],
                            "t": [Rat.atom(f"{tag}t{c}") for c in range(D)]}
    if degree >= 2:
        coef["Q"] = [[[Rat.atom(f"{tag}Q{c}{min(j, k)}{max(j, k)}") for k in range(D)] for j in range(D)] for c in range(D)]
    vals = []
    for n in range(N):
        for c in range(D):
            for ix in itertools.product(*[range(s) for s in shape]):
                p = [h[j] * ix[D - 1 - j] for j in range(D)]  # spatial dim j (x first) <-> tensor dim D-1-j
                v = coef["t"][c]
                for j in range(D):
                    v = v + coef["A"][c][j] * p[j]
                if degree >= 2:
                    for j in range(D):
                        for k in range(j, D):
                            v = v + coef["Q"][c][j][k] * p[j] * p[k]
                vals.append(v * (n + 1))
    return STensor.from_flat(vals, [N, D] + list(shape)), coef


def interior(t: STensor, D: int, margin: int = 1) -> STensor:
    sl = (slice(None), slice(None)) + tuple(slice(margin, s - margin) for s in t.shape[2:])
    return t[sl]


def all_equal(t: STensor, value: Rat) -> Optional[str]:
    for i, v in enumerate(t.flat()):
        if not to_rat(v).equals(value):
            return f"entry {i}: {to_rat(v)} expected {value}"
    return None


def run_derivatives(ctx: Ctx) -> None:
    prog = ctx.prog
    F_ = {n: prog.func("deepali.core.flow", n) for n in ("flow_derivatives", "jacobian_det", "jacobian_dict", "jacobian_matrix", "divergence",
                                                        "curl", "lie_bracket")}
    fS = prog.func("deepali.core.image", "spatial_derivatives")
    fFD = prog.func("deepali.core.image", "finite_differences")
    for f in list(F_.values()) + [fS, fFD]:
        ctx.fn(f)
    ctx.rule("T5.first-order", "for every finite-difference mode (forward, backward, central, forward_central_backward, prewitt, sobel) and symbolic "
                               "per-axis spacing: all first derivatives du_c/dx_j of an affine field equal A_cj at every interior sample (every sample "
                               "for forward_central_backward); requesting a subset of keys equals the same entries of the full request")
    ctx.rule("T5.second-order", "second derivatives of a quadratic field equal 2 Q_cjj / Q_cjk + Q_ckj in the interior; mixed keys are symmetric (xy = yx)")
    ctx.rule("T5.jacobian", "jacobian_matrix = A (+ I), jacobian_det = det(A + I) (with / without identity, D = 2 and 3), divergence = trace A, "
                            "curl = (A32 - A23, A13 - A31, A21 - A12) / A21 - A12, lie_bracket(v, u) pointwise = J_v u - J_u v, all on affine "
                            "fields with symbolic coefficients; derivative tensors handed back by flow_derivatives are not corrupted by later use")
    ctx.rule("T5.batch-spacing", "per-batch-item spacing (N, D): item n is divided by its own spacing row")
    ctx.rule("T5.bspline", "mode='bspline': first derivatives of linear spline coefficients equal slope / spacing of that axis (anisotropic, "
                           "per-batch), second derivatives of quadratic coefficients equal 2 q / h^2, mixed = q_jk / (h_j h_k); keys map to axes")
    ctx.assumptions.append("replicate-padded one-sided schemes are only required to be exact at interior samples (as the property states)")
    for D in (2, 3):
        shape = (4, 5) if D == 2 else (4, 4, 5)
        keys1 = [f"d{CH[c]}/d{LETTERS[j]}" for c in range(D) for j in range(D)]
        for mode in FD_MODES + ["prewitt", "sobel"]:
            def th(D=D, shape=shape, mode=mode, keys1=keys1):
                reset_relations()
                facts = fresh_facts()
                it = make_interp(ctx)
                h = [Rat.atom(f"h{j}") for j in range(D)]
                for x in h:
                    facts.declare_positive(x)
                u, coef = poly_field(D, shape, h, 1, "")
                sp = STensor.from_flat(h, [D])
                d = it.call(F_["flow_derivatives"], u, order=1, mode=mode, spacing=sp)
                if sorted(d.keys()) != sorted(keys1):
                    return False, f"keys {sorted(d.keys())} expected {sorted(keys1)}"
                for c in range(D):
                    for j in range(D):
                        t = d[f"d{CH[c]}/d{LETTERS[j]}"]
                        if list(t.shape) != [1, 1] + list(shape):
                            return False, f"d{CH[c]}/d{LETTERS[j]} shape {tuple(t.shape)}"
                        reg = t if mode == "forward_central_backward" else interior(t, D)
                        bad = all_equal(reg, coef["A"][c][j])
                        if bad:
                            return False, f"mode={mode}: d{CH[c]}/d{LETTERS[j]} of an affine field: {bad}"
                # subset
                sub_keys = [keys1[1], keys1[-1]]
                ds = it.call(F_["flow_derivatives"], u, which=sub_keys, mode=mode, spacing=sp)
                if sorted(ds.keys()) != sorted(sub_keys):
                    return False, f"subset request returned keys {sorted(ds.keys())}"
                for k in sub_keys:
                    if not teq(ds[k], d[k]):
                        return False, f"subset request gives different values for {k}"
                return True, ""
            _guard(ctx, "T5.first-order", f"D={D}:{mode}", fS, f"D={D} mode={mode} first order", th)
        # second order
        for mode in ("central", "forward_central_backward"):
            def th2(D=D, mode=mode):
                reset_relations()
                facts = fresh_facts()
                it = make_interp(ctx)
                shp = (6, 6) if D == 2 else (5, 5, 5)
                h = [Rat.atom(f"h{j}") for j in range(D)]
                for x in h:
                    facts.declare_positive(x)
                u, coef = poly_field(D, shp, h, 2, "")
                sp = STensor.from_flat(h, [D])
                d = it.call(F_["flow_derivatives"], u, order=2, mode=mode, spacing=sp)
                n_checked = [0]
                for c in range(D):
                    for j in range(D):
                        for k in range(D):
                            kk = f"d{CH[c]}/d{LETTERS[j]}{LETTERS[k]}"
                            if kk not in d:
                                return False, f"second-order key {kk} missing from {sorted(d)}"
                            t = d[kk]
                            n_checked[0] += 1
                            want = coef["Q"][c][min(j, k)][max(j, k)] * (2 if j == k else 1)
                            bad = all_equal(interior(t, D, 2), want)
                            if bad:
                                return False, f"mode={mode}: second derivative {kk} of a quadratic field: {bad}"
                # mixed derivatives are symmetric
                for c in range(D):
                    for j in range(D):
                        for k in range(j + 1, D):
                            if not teq(d[f"d{CH[c]}/d{LETTERS[j]}{LETTERS[k]}"], d[f"d{CH[c]}/d{LETTERS[k]}{LETTERS[j]}"]):
                                return False, f"mixed derivative d{CH[c]}/d{LETTERS[j]}{LETTERS[k]} is not symmetric"
                return n_checked[0] == D * D * D, f"{n_checked[0]} second derivatives checked"
            _guard(ctx, "T5.second-order", f"D={D}:{mode}", fS, f"D={D} mode={mode} second order", th2)
        # jacobian family, with the spacing given in each documented form (tensor, tuple, list: all in the order (sx, sy[, sz]))
        def thj(D=D, shape=shape, form="tensor"):
            reset_relations()
            facts = fresh_facts()
            it = make_interp(ctx)
            h = [Rat.atom(f"h{j}") for j in range(D)]
            for x in h:
                facts.declare_positive(x)
            u, cu = poly_field(D, shape, h, 1, "u")
            v, cv = poly_field(D, shape, h, 1, "v")
            sp = STensor.from_flat(h, [D]) if form == "tensor" else (tuple(h) if form == "tuple" else list(h))
            A = STensor.from_nested(cu["A"])
            I = symt.eye(D)
            for add_identity in (False, True):
                J = it.call(F_["jacobian_matrix"], u, spacing=sp, add_identity=add_identity)
                want = A.add(I) if add_identity else A
                # (N, ..., X, D, D)
                flat = J.reshape([-1, D, D])
                for q in range(flat.shape[0]):
                    if not teq(flat[q], want):
                        return False, f"jacobian_matrix(add_identity={add_identity}) at sample {q}: {tstr(flat[q])[:100]} expected {tstr(want)[:100]}"
                det = it.call(F_["jacobian_det"], u, spacing=sp, add_identity=add_identity)
                wd = want.det().flat()[0]
                bad = all_equal(det, wd)
                if bad:
                    return False, f"jacobian_det(add_identity={add_identity}): {bad}"
                jd = it.call(F_["jacobian_dict"], u, spacing=sp, add_identity=add_identity)
                for c in range(D):
                    for j in range(D):
                        bad = all_equal(jd[f"d{CH[c]}/d{LETTERS[j]}"] if f"d{CH[c]}/d{LETTERS[j]}" in jd else jd[(c, j)], to_rat(want[c, j].flat()[0]))
                        if bad:
                            return False, f"jacobian_dict(add_identity={add_identity})[{c},{j}]: {bad}"
            # a batch of fields with different Jacobians (item n = (n + 1) u): every item gets its own derivatives
            ub, _cb = poly_field(D, shape, h, 1, "u", N=2)
            Jb = it.call(F_["jacobian_matrix"], ub, spacing=sp, add_identity=False)
            if Jb.shape[0] != 2:
                return False, f"jacobian_matrix of a batch of 2 fields has shape {tuple(Jb.shape)}"
            detb = it.call(F_["jacobian_det"], ub, spacing=sp, add_identity=False)
            divb = it.call(F_["divergence"], ub, spacing=sp)
            for n in range(2):
                fl = Jb[n].reshape([-1, D, D])
                for q in range(fl.shape[0]):
                    if not teq(fl[q], A.mul(n + 1)):
                        return False, f"jacobian_matrix of a batch: item {n} sample {q} is {tstr(fl[q])[:90]}, expected {n + 1} A (the Jacobian of item {n})"
                bad = all_equal(detb[n], to_rat(A.det().flat()[0]) * (n + 1) ** D)
                if bad:
                    return False, f"jacobian_det of a batch: item {n}: {bad}"
                bad = all_equal(divb[n], sum((cu["A"][c][c] for c in range(D)), Rat.of(0)) * (n + 1))
                if bad:
                    return False, f"divergence of a batch: item {n}: {bad}"
            div = it.call(F_["divergence"], u, spacing=sp)
            bad = all_equal(div, sum((cu["A"][c][c] for c in range(D)), Rat.of(0)))
            if bad:
                return False, f"divergence: {bad}"
            cl = it.call(F_["curl"], u, spacing=sp)
            a = cu["A"]
            wc = [a[2][1] - a[1][2], a[0][2] - a[2][0], a[1][0] - a[0][1]] if D == 3 else [a[1][0] - a[0][1]]
            for c, w in enumerate(wc):
                bad = all_equal(cl[:, c], w)
                if bad:
                    return False, f"curl component {c}: {bad}"
            lb = it.call(F_["lie_bracket"], v, u, spacing=sp)
            # [v, u] template: J_v u - J_u v pointwise
            B = cv["A"]
            for ix in itertools.product(*[range(s) for s in shape]):
                uu = [to_rat(u[(0, c) + ix].flat()[0]) for c in range(D)]
                vv = [to_rat(v[(0, c) + ix].flat()[0]) for c in range(D)]
                for c in range(D):
                    want_c = sum((B[c][j] * uu[j] - a[c][j] * vv[j] for j in range(D)), Rat.of(0))
                    got = to_rat(lb[(0, c) + ix].flat()[0])
                    if not got.equals(want_c) and not got.equals(-want_c):
                        return False, f"lie_bracket component {c} at {ix}: {got} expected +-({want_c})"
            # antisymmetry
            lb2 = it.call(F_["lie_bracket"], u, v, spacing=sp)
            if not teq(lb2, lb.neg()):
                return False, "lie_bracket(u, v) != -lie_bracket(v, u)"
            return True, ""
        _guard(ctx, "T5.jacobian", f"D={D}", F_["jacobian_det"], f"D={D} jacobian family", thj)
        for form in ("tuple", "list"):
            _guard(ctx, "T5.jacobian", f"D={D}:spacing-{form}", F_["jacobian_dict"], f"D={D} jacobian family spacing as {form}",
                   lambda D=D, shape=shape, form=form: thj(D, shape, form))

        # per-batch spacing
        def thb(D=D, shape=shape):
            reset_relations()
            facts = fresh_facts()
            it = make_interp(ctx)
            h = [Rat.atom(f"h{j}") for j in range(D)]
            u, coef = poly_field(D, shape, h, 1, "", N=2)
            # item n was built with positions index * h; give item 1 a spacing of 2h: its derivatives halve (times its factor 2)
            sp = STensor.from_nested([h, [x * 2 for x in h]])
            for x in h:
                facts.declare_positive(x)
            d = it.call(F_["flow_derivatives"], u, order=1, mode="forward_central_backward", spacing=sp)
            for c in range(D):
                for j in range(D):
                    t = d[f"d{CH[c]}/d{LETTERS[j]}"]
                    for n, w in ((0, coef["A"][c][j]), (1, coef["A"][c][j])):  # item 1: values doubled, spacing doubled
                        bad = all_equal(t[n:n + 1], w)
                        if bad:
                            return False, f"per-batch spacing, item {n}, d{CH[c]}/d{LETTERS[j]}: {bad}"
            return True, ""
        _guard(ctx, "T5.batch-spacing", f"D={D}", fS, f"D={D} per-batch spacing", thb)

        def thb2(D=D, shape=shape):
            # concrete spacing rows that are neither equal nor in ascending batch order, (N, D) and (N, 1)
            reset_relations()
            fresh_facts()
            it = make_interp(ctx)
            ones = [Rat.of(1)] * D
            u, coef = poly_field(D, shape, ones, 1, "", N=3)  # item n holds (n + 1) * (A i + b) at unit positions
            rows = [[Fraction(2), Fraction(1, 2), Fraction(3)][:D], [Fraction(1), Fraction(1), Fraction(1)][:D], [Fraction(1, 2), Fraction(4), Fraction(2)][:D]]
            for sp_rows in (rows, [[r[0]] for r in rows]):
                sp = STensor.from_nested(sp_rows)
                for mode in ("forward_central_backward", "central"):
                    d = it.call(F_["flow_derivatives"], u, order=1, mode=mode, spacing=sp)
                    for c in range(D):
                        for j in range(D):
                            t = d[f"d{CH[c]}/d{LETTERS[j]}"]
                            if mode == "central":
                                t = interior(t, D)
                            for n in range(3):
                                hn = sp_rows[n][j] if len(sp_rows[n]) > 1 else sp_rows[n][0]
                                bad = all_equal(t[n:n + 1], coef["A"][c][j] * (n + 1) / hn)
                                if bad:
                                    return False, (f"per-batch spacing {[[str(x) for x in r] for r in sp_rows]}, mode {mode}, item {n}, "
                                                   f"d{CH[c]}/d{LETTERS[j]} is not divided by its own spacing {hn}: {bad}")
            return True, ""
        _guard(ctx, "T5.batch-spacing", f"D={D}:unordered rows", fS, f"D={D} per-batch spacing rows not in ascending order", thb2)

        def thb3(D=D, shape=shape):
            # batch size equal to the number of spatial dimensions: a 1-D spacing is per *axis* (documented), not per image
            reset_relations()
            facts = fresh_facts()
            it = make_interp(ctx)
            h = [Rat.atom(f"h{j}") for j in range(D)]
            for x in h:
                facts.declare_positive(x)
            ones = [Rat.of(1)] * D
            u, coef = poly_field(D, shape, ones, 1, "", N=D)
            for form, sp in (("tuple", tuple(h)), ("1-D tensor", STensor.from_flat(h, [D])), ("list", list(h))):
                d = it.call(F_["flow_derivatives"], u, order=1, mode="forward_central_backward", spacing=sp)
                for c in range(D):
                    for j in range(D):
                        t = d[f"d{CH[c]}/d{LETTERS[j]}"]
                        for n in range(D):
                            bad = all_equal(t[n:n + 1], coef["A"][c][j] * (n + 1) / h[j])
                            if bad:
                                return False, (f"N = D = {D}, per-axis spacing given as {form}: item {n}, d{CH[c]}/d{LETTERS[j]} is not divided "
                                               f"by the spacing of axis {LETTERS[j]}: {bad}")
            return True, ""
        _guard(ctx, "T5.batch-spacing", f"D={D}:N=D per-axis spacing", fS, f"D={D} batch size N = D with a 1-D per-axis spacing", thb3)

        # bspline mode
        for stride in (1, 2, (2, 3) if D == 2 else (3, 1, 2)):  # scalar and per-axis (sx, sy, ...) strides
            def ths(D=D, stride=stride):
                reset_relations()
                facts = fresh_facts()
                it = make_interp(ctx)
                cshape = (5, 6) if D == 2 else (5, 5, 5)
                h = [Rat.atom(f"h{j}") for j in range(D)]
                for x in h:
                    facts.declare_positive(x)
                # coefficients polynomial in the control-point index (unit positions): spline derivative w.r.t. index, divided by spacing
                ones = [Rat.of(1)] * D
                c, coef = poly_field(D, cshape, ones, 2, "", N=2)
                sp = STensor.from_nested([h, [x * 3 for x in h]])
                d = it.call(fS, c, mode="bspline", order=1, spacing=sp, stride=stride)
                d2 = it.call(fS, c, mode="bspline", order=2, spacing=sp, stride=stride)
                st = [stride] * D if isinstance(stride, int) else list(stride)  # (x, y, ...) order
                nout = [(n - 3) * st[D - 1 - ta] for ta, n in enumerate(cshape)]
                for key, t in list(d.items()) + list(d2.items()):
                    if list(t.shape[2:]) != nout:
                        return False, f"bspline mode output shape {tuple(t.shape)} expected spatial {nout}"
                # first derivative along axis j at sample s: position p = 1 + s / stride (control point units)
                for j in range(D):
                    t = d[LETTERS[j]]
                    for n in range(2):
                        fac = (n + 1)
                        hh = h[j] * (1 if n == 0 else 3)
                        for ch in range(D):
                            for ix in itertools.product(*[range(s) for s in nout]):
                                p = [1 + Fraction(ix[D - 1 - a], st[a]) for a in range(D)]
                                want = coef["A"][ch][j]
                                for k in range(D):
                                    q = coef["Q"][ch][min(j, k)][max(j, k)]
                                    want = want + q * p[k] * (2 if k == j else 1)
                                want = want * fac / hh
                                got = to_rat(t[(n, ch) + ix].flat()[0])
                                if not got.equals(want):
                                    return False, (f"bspline d/d{LETTERS[j]} (stride={stride}) item {n} channel {ch} at {ix}: {got} expected {want} "
                                                   f"(slope / spacing of axis {LETTERS[j]})")
                for j in range(D):
                    for k in range(j, D):
                        key = LETTERS[j] + LETTERS[k]
                        t = d2.get(key, d2.get(LETTERS[k] + LETTERS[j]))
                        if t is None:
                            return False, f"second-order key {key} missing: {sorted(d2)}"
                        for ch in range(D):
                            q = coef["Q"][ch][j][k] * (2 if j == k else 1)
                            want = q / (h[j] * h[k])
                            bad = all_equal(t[0:1, ch:ch + 1], want)
                            if bad:
                                return False, f"bspline second derivative {key} channel {ch}: {bad}"
                # the flow-level entry point: all second-order keys without `which`, and mixed keys in either spelling
                fd = it.call(F_["flow_derivatives"], c, mode="bspline", order=2, spacing=sp, stride=stride)
                if D >= 2:
                    swapped = [f"d{CH[ch]}/d{LETTERS[1]}{LETTERS[0]}" for ch in range(D)]
                    fs = it.call(F_["flow_derivatives"], c, mode="bspline", which=swapped, spacing=sp, stride=stride)
                    for ch in range(D):
                        a_ = fd.get(f"d{CH[ch]}/d{LETTERS[0]}{LETTERS[1]}", fd.get(swapped[ch]))
                        b_ = fs.get(swapped[ch])
                        if a_ is None or b_ is None:
                            return False, f"flow_derivatives(mode='bspline'): mixed key {swapped[ch]} missing ({sorted(fd)[:6]} / {sorted(fs)})"
                        if not teq(a_, b_):
                            return False, f"flow_derivatives(mode='bspline'): {swapped[ch]} differs from the xy spelling"
                        if not teq(a_[0:1], d2[LETTERS[0] + LETTERS[1]][0:1, ch:ch + 1]) if (LETTERS[0] + LETTERS[1]) in d2 else False:
                            return False, "flow_derivatives(mode='bspline') mixed derivative differs from spatial_derivatives"
                return True, ""
            _guard(ctx, "T5.bspline", f"D={D}:stride={stride}", fS, f"D={D} bspline mode stride={stride}", ths)


def run_stencils(ctx: Ctx) -> None:
    prog = ctx.prog
    fFD = prog.func("deepali.core.image", "finite_differences")
    ctx.fn(fFD)
    ctx.rule("T5.stencil", "finite_differences on symbolic samples f_0..f_5 along each axis: forward = (f[i+1] - f[i]) / h (replicated at the upper "
                           "end), backward = (f[i] - f[i-1]) / h, central = (f[i+1] - f[i-1]) / (2 h), forward_central_backward = forward at "
                           "the first, backward at the last, central at all other samples; dilation d scales offsets and step; spacing per batch item")
    for D in (2, 3):
        for axis in range(D):
            for mode in FD_MODES:
                for dil in (1, 2):
                    def th(D=D, axis=axis, mode=mode, dil=dil):
                        reset_relations()
                        facts = fresh_facts()
                        it = make_interp(ctx)
                        shape = [2] * D
                        tdim = D - 1 - axis
                        n = 6
                        shape[tdim] = n
                        f = STensor.symbols("f", [2, 1] + shape)
                        h = [Rat.atom("ha"), Rat.atom("hb")]
                        for x in h:
                            facts.declare_positive(x)
                        r = it.call(fFD, f, axis, mode=mode, dilation=dil, spacing=STensor.from_flat(h, [2]))
                        if list(r.shape) != list(f.shape):
                            return False, f"shape {tuple(r.shape)} expected {tuple(f.shape)}"
                        for b in range(2):
                            for ix in itertools.product(*[range(s) for s in shape]):
                                i = ix[tdim]

                                def at(k):
                                    k = min(max(k, 0), n - 1)
                                    jx = list(ix)
                                    jx[tdim] = k
                                    return to_rat(f[(b, 0) + tuple(jx)].flat()[0])
                                if mode == "forward":
                                    want = (at(i + dil) - at(i)) / (h[b] * dil)
                                elif mode == "backward":
                                    want = (at(i) - at(i - dil)) / (h[b] * dil)
                                elif mode == "central":
                                    want = (at(i + dil) - at(i - dil)) / (h[b] * 2 * dil)
                                else:
                                    if i < dil:
                                        want = (at(i + dil) - at(i)) / (h[b] * dil)
                                    elif i >= n - dil:
                                        want = (at(i) - at(i - dil)) / (h[b] * dil)
                                    else:
                                        want = (at(i + dil) - at(i - dil)) / (h[b] * 2 * dil)
                                got = to_rat(r[(b, 0) + ix].flat()[0])
                                if not got.equals(want):
                                    return False, f"mode={mode} dilation={dil} axis={LETTERS[axis]} item {b} sample {i}: {got} expected {want}"
                        return True, ""
                    _guard(ctx, "T5.stencil", f"D={D}:{LETTERS[axis]}:{mode}:d={dil}", fFD, f"D={D} axis={LETTERS[axis]} mode={mode} dilation={dil}", th)


def run_flowfields_curl(ctx: Ctx) -> None:
    """The data-level entry point of the curl: FlowFields.curl / FlowField.curl with the spacing implied by the representation."""
    from ..tae import STObj
    prog = ctx.prog
    FF = prog.cls("deepali.data.flow", "FlowFields")
    Grid = prog.cls("deepali.core.grid", "Grid")
    Axes = prog.cls("deepali.core.grid", "Axes")
    fC = prog.find_method(FF, "curl")
    ctx.fn(fC)
    ctx.fn(prog.find_method(prog.cls("deepali.data.flow", "FlowField"), "curl"))
    ctx.rule("T5.flowfields-curl", "FlowFields.curl() / FlowField.curl() of an affine field u(i) = A i + b given in GRID, CUBE, CUBE_CORNERS or WORLD "
                                   "units (axis-aligned grid with symbolic spacing) is, at every sample, the analytic curl with respect to the "
                                   "coordinates of that representation: A21' - A12' (D = 2), (A32' - A23', A13' - A31', A21' - A12') (D = 3), "
                                   "A'_cj = A_cj / (coordinate step of axis j); the result is an image batch on the flow's grids")
    for D, shape in ((2, (3, 4)), (3, (3, 3, 4))):
        for axes in ("GRID", "CUBE", "CUBE_CORNERS", "WORLD"):
            def th(D=D, shape=shape, axes=axes):
                reset_relations()
                facts = fresh_facts()
                it = make_interp(ctx)
                size = tuple(reversed(shape))
                sp = [Rat.atom(f"s{j}") for j in range(D)]
                for x in sp:
                    facts.declare_positive(x)
                g = it.new(Grid, size=size, spacing=STensor.from_flat(sp, [D]))
                ones = [Rat.of(1)] * D
                u, coef = poly_field(D, shape, ones, 1, "", N=1)  # u_c(i) = sum_j A_cj i_j + b_c at unit index positions
                f = it.new(FF, u.clone(), g, it.enum(Axes, axes))
                r = it.method(f, "curl")
                step = {"GRID": [Rat.of(1)] * D, "WORLD": sp, "CUBE": [Rat.of(Fraction(2, n)) for n in size],
                        "CUBE_CORNERS": [Rat.of(Fraction(2, n - 1)) for n in size]}[axes]
                A = [[coef["A"][c][j] / step[j] for j in range(D)] for c in range(D)]
                want = [A[1][0] - A[0][1]] if D == 2 else [A[2][1] - A[1][2], A[0][2] - A[2][0], A[1][0] - A[0][1]]
                if not isinstance(r, STObj) or list(r.shape) != [1, len(want)] + list(shape):
                    return False, f"curl() returns {type(r).__name__} of shape {tuple(getattr(r, 'shape', ()))}, expected an image batch (1, {len(want)}, ...)"
                for k, w in enumerate(want):
                    bad = all_equal(r.plain()[0:1, k:k + 1], w)
                    if bad:
                        return False, f"curl component {k} ({axes} units): {bad}"
                g2 = it.method(r, "grids")
                if len(g2) != 1 or g2[0] is not g and not teq(it.method(g2[0], "spacing"), it.method(g, "spacing")):
                    return False, "result does not carry the flow's grid"
                one = it.method(it.method(f, "__getitem__", 0), "curl")
                if list(one.shape) != [len(want)] + list(shape) or not teq(one.plain(), r.plain()[0]):
                    return False, "FlowField.curl() differs from FlowFields.curl()[0]"
                return True, ""
            _guard(ctx, "T5.flowfields-curl", f"D={D}:{axes}", fC, f"FlowFields.curl D={D} axes={axes}", th)


def run_dtype(ctx: Ctx) -> None:
    """Derivatives of float64 fields are computed in float64 (dtype flow: no narrowing cast, no narrower intermediate)."""
    prog = ctx.prog
    fS = prog.func("deepali.core.image", "spatial_derivatives")
    F_ = {n: prog.func("deepali.core.flow", n) for n in ("lie_bracket", "jacobian_det", "divergence", "curl")}
    ctx.fn(prog.func("deepali.core.image", "finite_differences"))
    ctx.fn(prog.func("deepali.core.image", "conv1d"))
    ctx.rule("T5.dtype", "spatial_derivatives (every mode: forward, backward, central, forward_central_backward, prewitt, sobel, gaussian, bspline), "
                         "jacobian_det, divergence, curl and lie_bracket of a float64 field: the result is float64 and no dimensioned tensor is "
                         "cast to, or computed in, a narrower float type on the way (events of the dtype-tracking interpreter); the derivatives "
                         "of an integer-typed field with fractional spacing equal those of the same values held in floating point (the spacing "
                         "is not cast to the integer dtype)")
    modes = ("forward", "backward", "central", "forward_central_backward", "prewitt", "sobel", "gaussian", "bspline")
    for mode in modes:
        def th(mode=mode):
            reset_relations()
            facts = fresh_facts()
            it = make_interp(ctx)
            D = 2
            shape = (5, 6)
            u0, _ = poly_field(D, shape, [Rat.of(1)] * D, 1, "", N=1)
            u = STensor(list(u0.flat()), list(range(u0.numel())), list(u0.shape), symt.DOUBLE)
            kw = {"mode": mode}
            if mode == "gaussian":
                kw["sigma"] = Fraction(7, 10)
            del symt.PRECISION_EVENTS[:]
            d = it.call(fS, u.clone(), order=1, **kw)
            for key, t in d.items():
                if t.dtype.name != "float64":
                    return False, f"mode={mode}: derivative {key} of a float64 field has dtype {t.dtype.name}"
            if symt.PRECISION_EVENTS:
                return False, f"mode={mode}: {symt.PRECISION_EVENTS[0][0]} inside spatial_derivatives of a float64 field ({len(symt.PRECISION_EVENTS)} events)"
            if mode in ("central", "gaussian", "forward_central_backward"):
                for name, f in F_.items():
                    del symt.PRECISION_EVENTS[:]
                    args = [u.clone(), u.clone().mul(2)] if name == "lie_bracket" else [u.clone()]
                    r = it.call(f, *args, **kw)
                    if r.dtype.name != "float64" or symt.PRECISION_EVENTS:
                        why = symt.PRECISION_EVENTS[0][0] if symt.PRECISION_EVENTS else f"result dtype {r.dtype.name}"
                        return False, f"{name}(mode={mode}) of float64 fields: {why}"
            return True, ""
        _guard(ctx, "T5.dtype", f"mode={mode}", fS, f"float64 field mode={mode}", th)

    # integer-typed fields (displacements in voxels): the derivative is the derivative of the same values held in floating point — the
    # spacing in particular is not truncated to the field's integer dtype
    for mode in ("forward", "backward", "central", "forward_central_backward", "sobel", "bspline"):
        def thi(mode=mode):
            reset_relations()
            fresh_facts()
            it = make_interp(ctx)
            shape = (5, 6)
            vals = [(3 * i * i + 2 * i * j + j) % 17 - 5 for i in range(shape[0]) for j in range(shape[1])]
            ui = STensor.from_flat(vals, [1, 1] + list(shape), symt.INT)
            uf = STensor.from_flat(vals, [1, 1] + list(shape), symt.FLOAT)
            sp = (Fraction(3, 2), Fraction(9, 4))
            di = it.call(fS, ui, order=1, mode=mode, spacing=sp)
            df = it.call(fS, uf, order=1, mode=mode, spacing=sp)
            for key in df:
                if not di[key].dtype.is_floating_point:
                    return False, f"mode={mode}: derivative {key} of an integer field has dtype {di[key].dtype.name}"
                if not teq(di[key], df[key]):
                    return False, (f"mode={mode}: derivative {key} of an integer-typed field with spacing (3/2, 9/4) differs from the derivative of "
                                   f"the same values in floating point (first {to_rat(di[key].flat()[0])} vs {to_rat(df[key].flat()[0])}): the "
                                   f"spacing is cast to the field's integer dtype")
            return True, ""
        _guard(ctx, "T5.dtype", f"int:mode={mode}", fS, f"integer field mode={mode}", thi)


def run_gaussian_spacing(ctx: Ctx) -> None:
    """Derivative-of-Gaussian mode: the kernel values are not decided, but the scaling by the grid spacing is."""
    prog = ctx.prog
    fS = prog.func("deepali.core.image", "spatial_derivatives")
    fL = prog.func("deepali.core.flow", "lie_bracket")
    ctx.rule("T5.gaussian-spacing", "mode='gaussian': each first derivative computed with per-axis spacing (h_x, h_y[, h_z]) equals the same derivative "
                                    "computed with unit spacing divided by the spacing of *its own* axis, second derivatives by the product of the "
                                    "two axes' spacings (symbolic field and spacing; the Gaussian kernel entries stay opaque exp-atoms), and per-image "
                                    "(N, D) spacing rows scale their own image")
    for D, shape in ((2, (4, 5)), (3, (3, 4, 5))):
        def th(D=D, shape=shape):
            reset_relations()
            facts = fresh_facts()
            it = make_interp(ctx)
            h = [Rat.atom(f"h{j}") for j in range(D)]
            for x in h:
                facts.declare_positive(x)
            u = STensor.symbols("u", [2, 1] + list(shape))
            sig = Fraction(7, 10)
            unit = dict(it.call(fS, u.clone(), mode="gaussian", sigma=sig, order=1, spacing=1))
            sp = dict(it.call(fS, u.clone(), mode="gaussian", sigma=sig, order=1, spacing=tuple(h)))
            if D == 2:
                unit.update(it.call(fS, u.clone(), mode="gaussian", sigma=sig, order=2, spacing=1))
                sp.update(it.call(fS, u.clone(), mode="gaussian", sigma=sig, order=2, spacing=tuple(h)))
            rows = STensor.from_nested([h, [x * 2 for x in h]])
            spn = it.call(fS, u.clone(), mode="gaussian", sigma=sig, order=1, spacing=rows)
            for key, t in sp.items():
                den = Rat.of(1)
                for ch in key:
                    den = den * h[LETTERS.index(ch)]
                if not teq(t, unit[key].div(den)):
                    return False, f"gaussian derivative '{key}' with spacing (h_x, h_y, ...) is not the unit-spacing derivative divided by {den}"
            for key, t in spn.items():
                j = LETTERS.index(key)
                if not teq(t[0:1], unit[key][0:1].div(h[j])) or not teq(t[1:2], unit[key][1:2].div(h[j] * 2)):
                    return False, f"gaussian derivative '{key}' with per-image spacing rows is not divided by each image's own spacing of axis {key}"
            return True, ""
        _guard(ctx, "T5.gaussian-spacing", f"D={D}", fS, f"gaussian mode spacing D={D}", th)


def run_gaussian_structure(ctx: Ctx) -> None:
    """Derivative-of-Gaussian mode: which axis is differentiated and which are smoothed, and the sign (correlation vs convolution)."""
    prog = ctx.prog
    fS = prog.func("deepali.core.image", "spatial_derivatives")
    ctx.fn(fS)
    ctx.fn(prog.func("deepali.core.kernels", "gaussian1d_I"))
    ctx.rule("T5.gaussian-structure", "mode='gaussian' (kernel entries stay exp-atoms; sums of +k and -k entries cancel exactly): the derivative of a "
                                      "constant field is 0; for a field a*x_j that varies along one axis only, the derivative along every other axis is "
                                      "exactly 0 (the antisymmetric kernel is applied along the differentiated axis, the smoothing kernel along the "
                                      "others) and the derivative along x_j at an interior sample is c*a with a constant c > 0 (sign: conv1d correlates) "
                                      "that is the same for every axis")
    sig = Fraction(7, 10)  # radius floor(3 sigma) = 2
    for D, shape in ((2, (5, 6)), (3, (5, 5, 6))):
        def th(D=D, shape=shape):
            reset_relations()
            facts = fresh_facts()
            it = make_interp(ctx)
            a = Rat.atom("a")
            facts.declare_positive(a)
            n_el = 1
            for n in shape:
                n_el *= n
            const = STensor.from_flat([Rat.atom("c0")] * n_el, [1, 1] + list(shape))
            out = dict(it.call(fS, const, mode="gaussian", sigma=sig, order=1))
            if set(out) != set(LETTERS[:D]):
                return False, f"first-order keys {sorted(out)}"
            for key, t in out.items():
                if not all(to_rat(v).is_zero() for v in t.flat()):
                    return False, f"derivative '{key}' of a constant field is not zero"
            cs = []
            for j in range(D):  # spatial dimension j = tensor axis -1-j
                ax = D - 1 - j
                vals = []
                for idx in itertools.product(*[range(n) for n in shape]):
                    vals.append(a * idx[ax])
                ramp = STensor.from_flat(vals, [1, 1] + list(shape))
                out = dict(it.call(fS, ramp, mode="gaussian", sigma=sig, order=1))
                for k in range(D):
                    t = out[LETTERS[k]]
                    if k != j:
                        if not all(to_rat(v).is_zero() for v in t.flat()):
                            return False, (f"field a*{LETTERS[j]}: derivative '{LETTERS[k]}' is not zero (the derivative kernel is not applied along "
                                           f"the differentiated axis only)")
                    else:
                        mid = tuple(n // 2 for n in shape)
                        v = to_rat(t[(0, 0) + mid].flat()[0]) if hasattr(t[(0, 0) + mid], "flat") else to_rat(t[(0, 0) + mid])
                        c = v / a
                        if c.atoms() & {"a"}:
                            return False, f"field a*{LETTERS[j]}: derivative '{LETTERS[j]}' at an interior sample is not proportional to the slope"
                        if c.is_zero():
                            return False, (f"field a*{LETTERS[j]}: derivative '{LETTERS[j]}' at an interior sample is exactly zero (the field is "
                                           f"smoothed, not differentiated, along its own axis)")
                        s = symt._numeric_sign(c)
                        if s is None:
                            raise AnalysisError(f"gaussian-structure: sign of {c} undecided")
                        if s < 0:
                            return False, (f"field a*{LETTERS[j]} with a > 0: derivative '{LETTERS[j]}' at an interior sample is negative "
                                           f"(the derivative kernel is applied mirrored)")
                        cs.append(c)
            if any(not (c - cs[0]).is_zero() for c in cs[1:]):
                return False, "the interior derivative of a unit ramp differs between the axes"
            return True, ""
        _guard(ctx, "T5.gaussian-structure", f"D={D}", fS, f"gaussian mode structure D={D}", th)
