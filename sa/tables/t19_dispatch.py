"""T19: batches keep one correctly aligned grid per image under tensor operations (C19).

The repo's ``__torch_function__`` / ``_torch_function_grid`` / ``_torch_function_result`` / ``__getitem__`` / ``__iter__`` code is
interpreted for a list of torch operations applied to batches whose items have DISTINCT grids and voxel symbols that name
the item they belong to.  Oracle (from the property): if the result is an image type, it carries one grid per batch entry,
grid shape = spatial data shape, and entry i carries the grid (and axes) of the input item whose voxels it holds; otherwise
it must be a plain tensor.
"""
from __future__ import annotations

import itertools
from fractions import Fraction
from typing import Any, Callable, Dict, List, Optional, Sequence, Tuple

from .. import symt, tae
from ..core import Ctx
from ..index import AnalysisError
from ..ring import Rat, reset_relations
from ..symt import InterpError, STensor, Unsupported, to_rat
from ..tae import ClassVal, EnumVal, External, Interp, Obj, STObj
from .gridsym import fresh_facts
from .t1_grid import _guard, make_interp, teq


def _plain(x):
    if isinstance(x, STObj):
        return x.plain()
    if isinstance(x, (list, tuple)):
        return type(x)(_plain(v) for v in x)
    return x


def _apply_torch(func: External, args, kwargs):
    """Model of ``Tensor.__torch_function__(func, (Tensor,), args, kwargs)``: run func on plain tensors."""
    name = func.name
    parts = name.split(".")
    last = parts[-1]
    out_obj = (kwargs or {}).get("out")
    if out_obj is not None:
        # out=<tensor>: the values are written into that tensor's storage and the very same object is returned
        rest = {kk: v for kk, v in kwargs.items() if kk != "out"}
        r = _apply_torch(func, args, rest)
        if not isinstance(r, STensor) or not isinstance(out_obj, STensor):
            raise Unsupported("out= with non-tensor result")
        if tuple(r.shape) != tuple(out_obj.shape):
            raise Unsupported("out= buffer of another shape (torch would resize it)")
        for i, v in zip(out_obj.idx, r.flat()):
            out_obj.store[i] = v
        return out_obj
    a = [_plain(x) for x in args]
    k = {kk: _plain(v) for kk, v in (kwargs or {}).items()}
    is_method = len(parts) >= 3 and parts[-2] == "Tensor"
    if not is_method and last in tae._TORCH:
        return tae._TORCH[last](*a, **k)
    if a and isinstance(a[0], STensor) and hasattr(STensor, last):
        return getattr(a[0], last)(*a[1:], **k)
    raise Unsupported(f"torch function {name} is not modelled")


def _items_of(t: STensor, b: int) -> set:
    """Indices of the input items whose voxel symbols occur in batch entry b of t (symbols are named I<item>_...)."""
    out = set()
    for v in t[b].flat():
        for a in to_rat(v).atoms():
            if a.startswith("I") and "_" in a:
                out.add(int(a[1:a.index("_")]))
    return out


class DEnv:
    def __init__(self, ctx: Ctx, flow: bool = False, N: int = 3, flag_twins: bool = False):
        reset_relations()
        fresh_facts()
        self.ctx = ctx
        self.it = it = make_interp(ctx)
        prog = ctx.prog
        self.Grid = prog.cls("deepali.core.grid", "Grid")
        self.Axes = prog.cls("deepali.core.grid", "Axes")
        self.IB = prog.cls("deepali.data.image", "ImageBatch")
        self.IM = prog.cls("deepali.data.image", "Image")
        self.FF = prog.cls("deepali.data.flow", "FlowFields")
        self.F1 = prog.cls("deepali.data.flow", "FlowField")
        self.N = N
        self.shape = (2, 3)
        self.flow = flow
        self.cls = self.FF if flow else self.IB
        self.C = 2 if flow else 1
        # grids 0..N-1 belong to the batch under test, grids N..2N-1 to a second batch with other items (for cat / append)
        self.grids = [it.new(self.Grid, size=(3, 2), spacing=(k + 1, 2 * k + 1), center=(k, -k)) for k in range(2 * N)]
        if flag_twins:
            # per-item grids that compare equal as Grid (Grid.__eq__ ignores the flag) but differ in align_corners
            self.grids = [it.new(self.Grid, size=(3, 2), spacing=(2, 3), center=(1, -1), align_corners=(k % 2 == 0)) for k in range(2 * N)]

        def items(lo, hi):
            vals = []
            for b in range(lo, hi):
                for c in range(self.C):
                    for y in range(2):
                        for x in range(3):
                            vals.append(Rat.atom(f"I{b}_{c}{y}{x}"))
            return STensor.from_flat(vals, [hi - lo, self.C, 2, 3])
        self.data = items(0, N)
        self.data2 = items(N, 2 * N)
        if flow:
            self.axes = it.enum(self.Axes, "WORLD")
            self.batch = it.new(self.FF, self.data.clone(), tuple(self.grids[:N]), self.axes)
            self.other = it.new(self.FF, self.data2.clone(), tuple(self.grids[N:]), self.axes)
        else:
            self.axes = None
            self.batch = it.new(self.IB, self.data.clone(), tuple(self.grids[:N]))
            self.other = it.new(self.IB, self.data2.clone(), tuple(self.grids[N:]))
        # model Tensor.__torch_function__
        tae._EXTERNAL_FUNCS["torch.Tensor.__torch_function__"] = lambda func, types, args=(), kwargs=None: _apply_torch(func, args, kwargs)

    def buffer(self, n: int):
        """A preallocated batch of n entries whose grids (and, for flows, axes) differ from those of the operands."""
        it = self.it
        data = symt.zeros([n, self.C, 2, 3])
        grids = tuple(it.new(self.Grid, size=(3, 2), spacing=(7 + k, 11 + k), center=(-5 - k, 9 + k)) for k in range(n))
        if self.flow:
            return it.new(self.FF, data, grids, it.enum(self.Axes, "GRID"))
        return it.new(self.IB, data, grids)

    def dispatch(self, func: str, *args, **kwargs):
        it = self.it
        f = External(func)
        return it.method(ClassVal(self.cls), "__torch_function__", f, (), tuple(args), dict(kwargs)) \
            if False else it.call_value(it.getattr(ClassVal(self.cls), "__torch_function__"), [f, (), tuple(args), dict(kwargs)], {})

    def same_grid(self, g, k: int) -> bool:
        it = self.it
        ref = self.grids[k]
        return all(teq(it.method(g, m), it.method(ref, m)) for m in ("size_tensor", "spacing", "center", "direction"))

    def check_result(self, r, what: str, expect_image: Optional[bool] = None) -> Tuple[bool, str]:
        """Property oracle on one result value."""
        it = self.it
        if isinstance(r, (tuple, list)):
            for i, x in enumerate(r):
                ok, why = self.check_result(x, f"{what}[{i}]", expect_image)
                if not ok:
                    return ok, why
            return True, ""
        if not isinstance(r, STensor):
            return True, ""
        if not isinstance(r, STObj):
            if expect_image:
                return False, f"{what}: expected an image type, got a plain tensor"
            return True, ""
        batchlike = r.cls in (self.IB, self.FF) or self.IB in self.ctx.prog.mro(r.cls)
        grids = r.attrs.get("_grid")
        if batchlike:
            if not isinstance(grids, (tuple, list)):
                return False, f"{what}: batch carries a single grid object"
            if len(grids) != r.shape[0]:
                return False, f"{what}: {r.cls.name} with {r.shape[0]} entries carries {len(grids)} grids"
            for b in range(r.shape[0]):
                gs = tuple(int(x) for x in it.method(grids[b], "size"))
                if tuple(reversed(gs)) != tuple(r.shape[2:]):
                    return False, f"{what}: entry {b} grid size {gs} does not match spatial shape {tuple(r.shape[2:])}"
                src = _items_of(r.plain(), b)
                if len(src) == 1:
                    k = next(iter(src))
                    if not self.same_grid(grids[b], k):
                        which = [j for j in range(self.N) if self.same_grid(grids[b], j)]
                        return False, f"{what}: entry {b} holds the data of input item {k} but carries the grid of item {which[0] if which else '?'}"
                elif len(src) > 1:
                    return False, f"{what}: entry {b} mixes data of items {sorted(src)} but is returned as {r.cls.name} with one item's grid"
            if self.flow and r.cls == self.FF and r.attrs.get("_axes") != self.axes:
                return False, f"{what}: axes {r.attrs.get('_axes')} differ from the input's {self.axes}"
            if self.flow and r.cls != self.FF and self.FF not in self.ctx.prog.mro(r.cls) and r.ndim >= 2 and r.shape[1] == self.C:
                return False, (f"{what}: an operation on flow fields returns {r.cls.name} — an image type that has lost the vector "
                               f"representation (axes) of its input")
        else:
            g = grids
            if isinstance(g, (tuple, list)):
                return False, f"{what}: single image carries a grid sequence"
            gs = tuple(int(x) for x in it.method(g, "size"))
            if tuple(reversed(gs)) != tuple(r.shape[1:]):
                return False, f"{what}: image grid size {gs} does not match spatial shape {tuple(r.shape[1:])}"
            src = set()
            for v in r.plain().flat():
                for a in to_rat(v).atoms():
                    if a.startswith("I") and "_" in a:
                        src.add(int(a[1:a.index("_")]))
            if len(src) == 1 and not self.same_grid(g, next(iter(src))):
                return False, f"{what}: image holds the data of item {next(iter(src))} but carries another item's grid"
            if self.flow and self.F1 in self.ctx.prog.mro(r.cls) and r.attrs.get("_axes") != self.axes:
                return False, f"{what}: flow field axes {r.attrs.get('_axes')} differ from the batch's {self.axes}"
        return True, ""


def programs(env: DEnv) -> List[Tuple[str, Callable[[], Any], Optional[bool]]]:
    b = env.batch
    other = env.other  # a second batch holding different items on different grids
    same = env.it.new(env.cls, env.data.clone(), tuple(env.grids[:env.N]), *([env.axes] if env.flow else []))
    idx = STensor.from_flat([2, 0, 1], [3], symt.INT)
    P: List[Tuple[str, Callable[[], Any], Optional[bool]]] = [
        ("torch.add(batch, 1)", lambda: env.dispatch("torch.add", b, 1), True),
        ("torch.mul(batch, batch)", lambda: env.dispatch("torch.mul", b, same), True),
        ("torch.neg(batch)", lambda: env.dispatch("torch.neg", b), True),
        ("batch.clone()", lambda: env.dispatch("torch.Tensor.clone", b), True),
        ("batch.float()", lambda: env.dispatch("torch.Tensor.float", b), True),
        ("batch.sum()", lambda: env.dispatch("torch.Tensor.sum", b), False),
        ("batch.mean(dim=0, keepdim=True)", lambda: env.dispatch("torch.Tensor.mean", b, dim=0, keepdim=True), None),
        ("torch.narrow(batch, 0, 1, 2)", lambda: env.dispatch("torch.narrow", b, 0, 1, 2), None),
        ("torch.narrow(batch, 3, 0, 2)", lambda: env.dispatch("torch.narrow", b, 3, 0, 2), None),
        ("torch.cat([batch, batch], 0)", lambda: env.dispatch("torch.cat", [b, other], dim=0), True),
        ("torch.cat([batch, batch]) default dim", lambda: env.dispatch("torch.cat", [b, other]), True),
        ("torch.cat([other, batch], 0)", lambda: env.dispatch("torch.cat", [other, b], dim=0), True),
        ("torch.cat((batch, other), 0) tuple", lambda: env.dispatch("torch.cat", (b, other), dim=0), True),
        ("torch.cat((other, batch)) tuple, default dim", lambda: env.dispatch("torch.cat", (other, b)), True),
        ("torch.cat(tensors=[batch, other], dim=0) keywords", lambda: env.dispatch("torch.cat", tensors=[b, other], dim=0), None),
        ("batch.append(other)", lambda: env.it.method(b, "append", other), True),
        ("other.append(batch)", lambda: env.it.method(other, "append", b), True),
        ("torch.mul(batch, 2, out=buffer with other grids)", lambda: env.dispatch("torch.mul", b, 2, out=env.buffer(env.N)), True),
        ("torch.cat([other, batch], 0, out=buffer with other grids)", lambda: env.dispatch("torch.cat", [other, b], dim=0, out=env.buffer(2 * env.N)), True),
        ("torch.cat([batch, plain], 0)", lambda: env.dispatch("torch.cat", [b, env.data[0:1].clone()], dim=0), None),
        ("torch.split(batch, 1)", lambda: env.dispatch("torch.split", b, 1), True),
        ("torch.split(batch, 2)", lambda: env.dispatch("torch.split", b, 2), True),
        ("torch.split(batch, [1, 2])", lambda: env.dispatch("torch.split", b, [1, 2]), True),
        ("batch.split([2, 1])", lambda: env.dispatch("torch.Tensor.split", b, [2, 1]), True),
        ("torch.split(batch, [1, 1, 1])", lambda: env.dispatch("torch.split", b, [1, 1, 1]), True),
        ("torch.split(cat, [2, 1, 2, 1])", lambda: env.dispatch("torch.split", env.it.method(b, "append", other), [2, 1, 2, 1]), True),
        ("torch.split_with_sizes(cat, [1, 3, 2])", lambda: env.dispatch("torch.split_with_sizes", env.it.method(b, "append", other), [1, 3, 2]), True),
        ("torch.tensor_split(cat, [1, 4])", lambda: env.dispatch("torch.tensor_split", env.it.method(b, "append", other), [1, 4]), True),
        ("torch.tensor_split(cat, 4)", lambda: env.dispatch("torch.tensor_split", env.it.method(b, "append", other), 4), True),
        ("torch.tensor_split(batch, 3)", lambda: env.dispatch("torch.tensor_split", b, 3), True),
        ("torch.tensor_split(batch, [1])", lambda: env.dispatch("torch.tensor_split", b, [1]), True),
        ("torch.chunk(batch, 3)", lambda: env.dispatch("torch.chunk", b, 3), None),
        ("torch.unbind(batch, 0)", lambda: env.dispatch("torch.unbind", b, 0), None),
        ("torch.flip(batch, (0,))", lambda: env.dispatch("torch.flip", b, (0,)), None),
        ("torch.flip(batch, (3,))", lambda: env.dispatch("torch.flip", b, (3,)), None),
        ("torch.roll(batch, 1, 0)", lambda: env.dispatch("torch.roll", b, 1, 0), None),
        ("torch.index_select(batch, 0, [2,0,1])", lambda: env.dispatch("torch.index_select", b, 0, idx), None),
        ("batch.repeat(2, 1, 1, 1)", lambda: env.dispatch("torch.Tensor.repeat", b, 2, 1, 1, 1), None),
        ("batch.expand(3, C, 2, 3)", lambda: env.dispatch("torch.Tensor.expand", b, 3, env.C, 2, 3), True),
        ("batch.reshape(same shape)", lambda: env.dispatch("torch.Tensor.reshape", b, 3, env.C, 2, 3), True),
        ("batch.transpose(2, 3)", lambda: env.dispatch("torch.Tensor.transpose", b, 2, 3), False),
        ("batch.permute(1, 0, 2, 3)", lambda: env.dispatch("torch.Tensor.permute", b, 1, 0, 2, 3), None),
        ("F.pad(batch, (1, 1))", lambda: env.dispatch("torch.nn.functional.pad", b, (1, 1)), False),
        ("F.avg_pool2d(batch, 1)", lambda: env.dispatch("torch.nn.functional.avg_pool2d", b, 1), True),
    ]
    return P


def run_dispatch(ctx: Ctx) -> None:
    prog = ctx.prog
    for mod, cls in (("deepali.data.image", "ImageBatch"), ("deepali.data.image", "Image"), ("deepali.data.flow", "FlowFields"), ("deepali.data.flow", "FlowField")):
        for m in ("__torch_function__", "_torch_function_grid", "_torch_function_result", "__getitem__", "__iter__", "_make_instance", "_make_subitem"):
            f = prog.find_method(prog.cls(mod, cls), m)
            if f is not None:
                ctx.fn(f)
    ctx.rule("T19.dispatch", "for each listed torch operation applied (through the class's own __torch_function__) to a batch of 3 items with "
                             "distinct grids: a result of image type carries one grid per entry whose shape matches the data, and entry i "
                             "carries the grid (and axes) of the input item whose voxels it holds; results whose batch size / spatial shape no "
                             "longer match are plain tensors")
    ctx.rule("T19.index", "__getitem__ (int, slice, list, tensor, ellipsis, tuples with channel/spatial parts) and iteration: entry i of the "
                          "result carries the grid of the item it holds; partial spatial indexing returns a plain tensor")
    for flow in (False, True):
        kind = "FlowFields" if flow else "ImageBatch"
        env0 = DEnv(ctx, flow)
        names = [p[0] for p in programs(env0)]
        anchor = prog.find_method(env0.cls, "_torch_function_result")
        for i, name in enumerate(names):
            def th(i=i, flow=flow):
                env = DEnv(ctx, flow)
                nm, run, expect = programs(env)[i]
                try:
                    r = run()
                except InterpError as e:
                    if e.exc_type in ("NotImplementedError",):
                        return True, f"rejected: {e.exc_type}"
                    raise
                return env.check_result(r, nm, expect)
            _guard(ctx, "T19.dispatch", f"{kind}:{name}", anchor, f"class={kind} op={name}", th)
        # indexing / iteration
        fG = prog.find_method(env0.cls, "__getitem__")
        idx_forms: List[Tuple[str, Any]] = [
            ("batch[1]", 1), ("batch[-1]", -1), ("batch[0:2]", slice(0, 2)), ("batch[1:]", slice(1, None)), ("batch[::2]", slice(None, None, 2)),
            ("batch[[2, 0]]", [2, 0]), ("batch[tensor([1, 2])]", STensor.from_flat([1, 2], [2], symt.INT)), ("batch[...]", Ellipsis),
            ("batch[1:, :]", (slice(1, None), slice(None))), ("batch[1, ...]", (1, Ellipsis)), ("batch[..., 0:2]", (Ellipsis, slice(0, 2))),
            ("batch[:, 0]", (slice(None), 0)), ("batch[2:3, :, :, :]", (slice(2, 3), slice(None), slice(None), slice(None))),
            # a batch index that reorders / repeats all items together with a channel slice (a flow field then stops being one)
            ("batch[[2, 0, 1], 0:1]", ([2, 0, 1], slice(0, 1))), ("batch[[1, 1, 0], 0:1]", ([1, 1, 0], slice(0, 1))),
            ("batch[tensor([2, 0, 1]), 0:1]", (STensor.from_flat([2, 0, 1], [3], symt.INT), slice(0, 1))),
            ("batch[1:3, 0:1]", (slice(1, 3), slice(0, 1))),
            # selections that shorten the batch: the result has as many grids as entries (or is refused / a plain tensor)
            ("batch[tensor([True, False, True])]", STensor.from_flat([True, False, True], [3], symt.BOOL)),
            ("batch.narrow(0, 1, 2)", ("method", "narrow", (0, 1, 2))), ("batch.narrow(0, 2, 1)", ("method", "narrow", (0, 2, 1))),
        ]
        for name, key in idx_forms:
            def thi(key=key, name=name, flow=flow):
                env = DEnv(ctx, flow)
                try:
                    if isinstance(key, tuple) and key and isinstance(key[0], str) and key[0] == "method":
                        r = env.it.method(env.batch, key[1], *key[2])
                    else:
                        r = env.it.method(env.batch, "__getitem__", key)
                except InterpError as e:
                    if e.exc_type in ("ValueError", "IndexError", "TypeError", "NotImplementedError"):
                        return True, f"refused: {e.exc_type}"  # a refusal is not a mis-described image
                    raise
                return env.check_result(r, name)
            _guard(ctx, "T19.index", f"{kind}:{name}", fG, f"class={kind} index={name}", thi)

        def thit(flow=flow):
            env = DEnv(ctx, flow)
            items = list(env.it.iterate(env.batch))
            if len(items) != env.N:
                return False, f"iteration yields {len(items)} items"
            for k, im in enumerate(items):
                if not isinstance(im, STObj):
                    return False, f"item {k} is a plain tensor"
                ok, why = env.check_result(im, f"iter item {k}")
                if not ok:
                    return ok, why
                if not env.same_grid(im.attrs["_grid"], k):
                    return False, f"iter item {k} carries another item's grid"
            return True, ""
        _guard(ctx, "T19.index", f"{kind}:iter", prog.find_method(env0.cls, "__iter__"), f"class={kind} iteration", thit)


def run_copies(ctx: Ctx) -> None:
    """copy.copy / copy.deepcopy of the four data tensor types preserve type, data, grids and vector representation."""
    from .t15_isolation import snapshot
    prog = ctx.prog
    ctx.rule("T19.copy", "copy.copy and copy.deepcopy of Image, ImageBatch, FlowField, FlowFields (non-default axes, distinct grids) return the "
                         "same type with equal data, grids and axes")
    for flow, twins in ((False, False), (True, False), (False, True), (True, True)):
        for single in (False, True):
            if twins and single:
                continue
            for deep in (False, True):
                name = ("FlowField" if single else "FlowFields") if flow else ("Image" if single else "ImageBatch")
                cls = prog.cls("deepali.data.flow" if flow else "deepali.data.image", name)
                anchor = prog.find_method(cls, "__deepcopy__" if deep else "__copy__")

                def th(flow=flow, single=single, deep=deep, name=name, twins=twins):
                    env = DEnv(ctx, flow, flag_twins=twins)
                    x = env.it.method(env.batch, "__getitem__", 1) if single else env.batch
                    if not isinstance(x, STObj) or x.cls.name != name:
                        return False, f"could not build a {name}: got {x!r}"
                    before = snapshot(x)
                    y = env.it._call_external("copy.deepcopy" if deep else "copy.copy", [x], {}, None)
                    if not isinstance(y, STObj) or y.cls != x.cls:
                        return False, f"copy is {type(y).__name__ if not isinstance(y, STObj) else y.cls.name}, expected {name}"
                    if snapshot(y) != before:
                        from .t15_isolation import _first_diff
                        return False, f"copy differs from the original: {_first_diff(before, snapshot(y))}"
                    return True, ""
                _guard(ctx, "T19.copy", f"{name}:{'deepcopy' if deep else 'copy'}" + (":grids equal up to align_corners" if twins else ""), anchor,
                       f"class={name} {'deepcopy' if deep else 'copy'}" + (" (per-item grids equal up to align_corners)" if twins else ""), th)


def run_pickle(ctx: Ctx) -> None:
    """Pickling: DataTensor.__reduce_ex__ -> (rebuild function, args); calling it with the storage copied (as unpickling does) must
    give back the same type, values, grids and axes — for whole tensors and for views into a larger storage."""
    from .t15_isolation import snapshot, _first_diff
    prog = ctx.prog
    fR = prog.func("deepali.data.tensor", "DataTensor.__reduce_ex__")
    fB = prog.func("deepali.data.tensor", "_rebuild_from_type")
    ctx.fn(fR)
    ctx.fn(fB)
    ctx.rule("T19.pickle", "the reduce / rebuild pair used by pickle (storage, offset, size, strides, type, attribute dict): rebuilding from a "
                           "copy of the storage yields the same type with equal values, grids and axes — for a whole batch, for single items "
                           "batch[i] (contiguous views at a non-zero storage offset), slices batch[1:3], and a channel slice (strided view)")
    tae._EXTERNAL_FUNCS.setdefault("torch.utils.hooks.warn_if_has_hooks", lambda *a, **k: None)
    tae._EXTERNAL_VALUES["torch._utils._rebuild_tensor_v2"] = symt.rebuild_tensor_v2
    tae._EXTERNAL_FUNCS["torch._utils._rebuild_tensor_v2"] = symt.rebuild_tensor_v2
    views = [("whole batch", lambda it, b: b), ("batch[0]", lambda it, b: it.method(b, "__getitem__", 0)),
             ("batch[2]", lambda it, b: it.method(b, "__getitem__", 2)), ("batch[1:3]", lambda it, b: it.method(b, "__getitem__", slice(1, 3))),
             ("batch[:, 1:2]", lambda it, b: it.method(b, "__getitem__", (slice(None), slice(1, 2))))]
    for flow in (False, True):
        for vname, view in views:
            if vname == "batch[:, 1:2]" and not flow:
                continue  # images of the scenario have one channel

            def th(flow=flow, vname=vname, view=view):
                env = DEnv(ctx, flow)
                it = env.it
                x = view(it, env.batch)
                if not isinstance(x, STObj):
                    return False, f"{vname} is not an image type"
                before = snapshot(x)
                red = it.method(x, "__reduce_ex__", 2)
                if not isinstance(red, tuple) or len(red) < 2:
                    return False, "__reduce_ex__ does not return (callable, args)"
                y = it.call_value(red[0], list(red[1]), {})
                if not isinstance(y, STObj) or y.cls != x.cls:
                    return False, f"unpickled {vname} is {type(y).__name__ if not isinstance(y, STObj) else y.cls.name}, expected {x.cls.name}"
                if y.store is x.store:
                    raise AnalysisError("pickle model: the rebuilt tensor shares the original storage")
                if snapshot(y) != before:
                    return False, f"unpickled {vname} differs from the original: {_first_diff(before, snapshot(y))}"
                return env.check_result(y, f"unpickled {vname}", True)
            _guard(ctx, "T19.pickle", f"{'FlowFields' if flow else 'ImageBatch'}:{vname}", fR, f"{'FlowFields' if flow else 'ImageBatch'} {vname}", th)


def run_collate(ctx: Ctx) -> None:
    """collate_samples: dataset samples holding images / flow fields are concatenated along the batch axis with their grids."""
    prog = ctx.prog
    fC = prog.func("deepali.data.collate", "collate_samples")
    ctx.fn(fC)
    ctx.rule("T19.collate", "collate_samples(samples) for a field holding Image / FlowField (one item per sample) or ImageBatch / FlowFields "
                            "(several items per sample, distinct grids): the collated field is the batch type, its data is the samples' data "
                            "in order, entry i carries the grid of the item whose data it holds (all of them, not one per sample), and flow "
                            "fields keep their axes; also for a single sample")
    tae._EXTERNAL_FUNCS["dataclasses.is_dataclass"] = lambda x: False  # (the scenario's samples are mappings)
    tae._EXTERNAL_FUNCS["torch.utils.data.dataloader.default_collate"] = \
        lambda xs: symt.stack([x.plain() if isinstance(x, STObj) else x for x in xs], 0) if xs and isinstance(xs[0], STensor) else list(xs)
    for flow in (False, True):
        for single in (True, False):
            for nsamples in (1, 2, 3):
                name = ("FlowField" if single else "FlowFields") if flow else ("Image" if single else "ImageBatch")

                def th(flow=flow, single=single, nsamples=nsamples, name=name):
                    env = DEnv(ctx, flow)
                    it = env.it
                    if single:
                        parts = [it.method(env.batch, "__getitem__", 1), it.method(env.other, "__getitem__", 2), it.method(env.batch, "__getitem__", 0)]
                        order = [1, env.N + 2, 0]
                    else:
                        parts = [it.method(env.batch, "__getitem__", slice(1, 3)), env.other, it.method(env.batch, "__getitem__", slice(0, 1))]
                        order = [1, 2] + list(range(env.N, 2 * env.N)) + [0]
                    parts = parts[:nsamples]
                    n_items = sum(1 if single else p.shape[0] for p in parts)
                    order = order[:n_items]
                    samples = [{"x": p, "id": f"s{i}"} for i, p in enumerate(parts)]
                    out = it.call(fC, samples)
                    r = out["x"] if isinstance(out, dict) else it.getattr(out, "x")
                    want_cls = env.FF if flow else env.IB
                    if not isinstance(r, STObj) or r.cls != want_cls:
                        return False, f"collated {name} field is {r.cls.name if isinstance(r, STObj) else type(r).__name__}, expected {want_cls.name}"
                    if r.shape[0] != n_items:
                        return False, f"collated batch has {r.shape[0]} entries for {n_items} items"
                    for b, k in enumerate(order):
                        if _items_of(r.plain(), b) != {k}:
                            return False, f"entry {b} does not hold the data of item {k} (sample order)"
                    ok, why = env.check_result(r, f"collate_samples of {nsamples} x {name}", True)
                    if not ok:
                        return False, why
                    if out["id"] != [f"s{i}" for i in range(nsamples)]:
                        return False, "string fields are not collected in sample order"
                    return True, ""
                _guard(ctx, "T19.collate", f"{name}:samples={nsamples}", fC, f"field type={name} samples={nsamples}", th)


def run_mixed_axes(ctx: Ctx) -> None:
    """Operations on several flow fields: the operands' vector representations must agree (refused otherwise), for batches and single fields."""
    prog = ctx.prog
    F = "deepali.data.flow"
    f1 = prog.func(F, "FlowField._torch_function_axes")
    fN = prog.func(F, "FlowFields._torch_function_axes")
    ctx.fn(f1)
    ctx.fn(fN)
    ctx.rule("T19.mixed-axes", "a torch function applied to two flow fields given in different axes (WORLD / CUBE_CORNERS / GRID, either operand "
                               "first; torch.add, torch.sub, torch.where; FlowFields batches and single FlowField objects) is refused with "
                               "ValueError — a result labelled with one operand's axes would hold vectors of the other representation; with "
                               "equal axes the result keeps them")
    for single in (False, True):
        for func, mk in (("torch.add", lambda a, b: (a, b)), ("torch.sub", lambda a, b: (b, a)),
                         ("torch.where", lambda a, b: (symt.ones([1]).type(symt.BOOL), a, b))):
            def th(single=single, func=func, mk=mk):
                env = DEnv(ctx, flow=True, N=1 if single else 2)
                it = env.it
                cls = env.F1 if single else env.FF
                grids = env.grids[0] if single else tuple(env.grids[:env.N])
                data = env.data[0] if single else env.data

                def field(axname):
                    return it.new(cls, data.clone(), grids, it.enum(env.Axes, axname))
                disp = it.getattr(ClassVal(cls), "__torch_function__")
                for a_ax, b_ax in (("WORLD", "CUBE_CORNERS"), ("GRID", "WORLD")):
                    a, b = field(a_ax), field(b_ax)
                    try:
                        r = it.call_value(disp, [External(func), (), tuple(mk(a, b)), {}], {})
                    except InterpError as e:
                        if e.exc_type == "ValueError":
                            continue
                        raise
                    lab = r.attrs.get("_axes") if isinstance(r, STObj) else None
                    return False, (f"{func} of {'FlowField' if single else 'FlowFields'} operands in {a_ax} and {b_ax} axes is accepted"
                                   f"{' and labelled ' + lab.name if lab is not None else ''}: the result mixes two vector representations")
                a, b = field("GRID"), field("GRID")
                r = it.call_value(disp, [External(func), (), tuple(mk(a, b)), {}], {})
                if not isinstance(r, STObj) or r.attrs.get("_axes") is None or r.attrs["_axes"].name != "GRID":
                    return False, f"{func} of two operands in GRID axes does not return a flow field in GRID axes"
                return True, ""
            _guard(ctx, "T19.mixed-axes", f"{'FlowField' if single else 'FlowFields'}:{func}", f1 if single else fN,
                   f"class={'FlowField' if single else 'FlowFields'} func={func} operands with different axes", th)
