"""T2/T6/T7: rotation and homogeneous-transform algebra over the ring domain (C08)."""
from __future__ import annotations

import itertools
from fractions import Fraction
from typing import Any, Dict, List, Optional, Tuple

from .. import symt, tae
from ..core import Ctx
from ..index import AnalysisError
from ..ring import Poly, Rat, declare_square, reset_relations
from ..symt import InterpError, STensor, Unsupported, declare_angle, sfunc, to_rat
from ..tae import Interp
from .gridsym import fresh_facts
from .t1_grid import _guard, apply, as_h, compose, identity_h, make_interp, teq, tstr

ORDERS = ["XYZ", "XZY", "YXZ", "YZX", "ZXY", "ZYX", "XYX", "XZX", "YXY", "YZY", "ZXZ", "ZYZ"]


def elem(axis: str, c: Rat, s: Rat) -> STensor:
    """Elementary rotation about a coordinate axis (right-handed, counter-clockwise; standard definition)."""
    if axis == "X":
        return STensor.from_nested([[1, 0, 0], [0, c, -s], [0, s, c]])
    if axis == "Y":
        return STensor.from_nested([[c, 0, s], [0, 1, 0], [-s, 0, c]])
    return STensor.from_nested([[c, -s, 0], [s, c, 0], [0, 0, 1]])


def _angles(n: int) -> Tuple[List[Rat], List[Tuple[Rat, Rat]]]:
    a = [declare_angle(f"a{k}") for k in range(n)]
    return a, [(sfunc("cos", x), sfunc("sin", x)) for x in a]


def run_euler(ctx: Ctx) -> None:
    prog = ctx.prog
    fE = prog.func("deepali.core.affine", "euler_rotation_matrix")
    fA = prog.func("deepali.core.affine", "euler_rotation_angles")
    fO = prog.func("deepali.core.affine", "euler_rotation_order")
    for f in (fE, fA, fO):
        ctx.fn(f)
    ctx.rule("T2.euler-matrix", "euler_rotation_matrix(angles, order) = R_o0(a0) R_o1(a1) R_o2(a2) (product of the elementary axis "
                                "rotations in the stated order) for all 12 orders, letter and 'Rz o Rx o Rz' notation, homogeneous or not; "
                                "D=2: [[c,-s],[s,c]]; the result is a proper rotation (R^T R = I, det = 1)")
    ctx.rule("T2.euler-angles", "euler_rotation_angles(R(a), order)[i] recovers angle a_i: atan2(Y, X) with Y c_i = X s_i, acos(Z) with Z = c_i "
                                "(round trip to the same rotation); D=2 acos(c)")
    ctx.rule("T2.order", "euler_rotation_order normalises 'zxz', 'ZXZ', 'Rz o Rx o Rz' to the same canonical string; D=2 is 'Z'")
    ctx.assumptions.append("quadrant/branch-cut behaviour of atan2/acos is not decided (angles in the principal range)")
    for order in ORDERS:
        for notation in ("letter", "lower", "compose"):
            for homogeneous in (False, True):
                if notation != "letter" and homogeneous:
                    continue
                reset_relations()
                fresh_facts()
                it = make_interp(ctx)
                a, cs = _angles(3)
                arg = order if notation == "letter" else order.lower() if notation == "lower" else " o ".join("R" + ch.lower() for ch in order)
                want = symt.matmul(symt.matmul(elem(order[0], *cs[0]), elem(order[1], *cs[1])), elem(order[2], *cs[2]))

                def th(arg=arg, homogeneous=homogeneous, want=want):
                    ang = STensor.from_flat(a, [1, 3])
                    m = it.call(fE, ang, order=arg, homogeneous=homogeneous)
                    shape = (1, 3, 4) if homogeneous else (1, 3, 3)
                    if tuple(m.shape) != shape:
                        return False, f"shape {tuple(m.shape)} expected {shape}"
                    R = m[0][:, :3]
                    if not teq(R, want):
                        return False, f"matrix {tstr(R)[:140]} expected {tstr(want)[:140]}"
                    if homogeneous and not teq(m[0][:, 3], symt.zeros(3)):
                        return False, "translation column not zero"
                    if not teq(symt.matmul(R.t(), R), symt.eye(3)) or not R.det().flat()[0].equals(1):
                        return False, "not a proper rotation"
                    return True, ""
                _guard(ctx, "T2.euler-matrix", f"{order}:{notation}:h={homogeneous}", fE, f"order={order} notation={notation} homogeneous={homogeneous}", th)
        # unbatched angles through the closed forms
        reset_relations()
        fresh_facts()
        it = make_interp(ctx)
        a, cs = _angles(3)
        want = symt.matmul(symt.matmul(elem(order[0], *cs[0]), elem(order[1], *cs[1])), elem(order[2], *cs[2]))
    # D = 2
    reset_relations()
    fresh_facts()
    it = make_interp(ctx)
    a, cs = _angles(1)

    def th2():
        m = it.call(fE, STensor.from_flat(a, [1]))
        c, s = cs[0]
        return teq(m, STensor.from_nested([[c, -s], [s, c]])), f"2-D rotation {tstr(m)}"
    _guard(ctx, "T2.euler-matrix", "D=2", fE, "D=2", th2)

    # angles
    for order in ("XZX", "ZXZ"):
        reset_relations()
        fresh_facts()
        it = make_interp(ctx)
        a, cs = _angles(3)
        R = symt.matmul(symt.matmul(elem(order[0], *cs[0]), elem(order[1], *cs[1])), elem(order[2], *cs[2])).unsqueeze(0)
        captured: Dict[str, Tuple[Rat, ...]] = {}
        orig_atan2, orig_acos = tae._TORCH["atan2"], tae._TORCH["acos"]

        def atan2_hook(y, x):
            yy, xx = to_rat(y), to_rat(x)
            key = f"atan2#{len(captured)}"
            captured[key] = ("atan2", yy, xx)
            return STensor.from_flat([Rat.atom(key)], list(y.shape))

        def acos_hook(z):
            zz = to_rat(z)
            key = f"acos#{len(captured)}"
            captured[key] = ("acos", zz)
            return STensor.from_flat([Rat.atom(key)], list(z.shape))
        tae._TORCH["atan2"], tae._TORCH["acos"] = atan2_hook, acos_hook
        try:
            def th(order=order, R=R):
                ang = it.call(fA, R, order=order)
                if tuple(ang.shape) != (1, 3):
                    return False, f"shape {tuple(ang.shape)}"
                for i in range(3):
                    v = to_rat(ang[0, i].flat()[0])
                    atoms = v.num.atoms()
                    if not (v.den.is_const() and len(atoms) == 1 and v.equals(Rat.atom(next(iter(atoms))))):
                        return False, f"angle {i} is not a single atan2/acos value: {v}"
                    rec = captured[next(iter(atoms))]
                    c, s = cs[i]
                    if rec[0] == "atan2":
                        y, x = rec[1], rec[2]
                        if not (y * c - x * s).is_zero() or (y.is_zero() and x.is_zero()):
                            return False, f"angles[{i}] = atan2({y}, {x}) does not recover angle {i} (expected ratio sin a{i} / cos a{i})"
                    else:
                        if not rec[1].equals(c):
                            return False, f"angles[{i}] = acos({rec[1]}) does not recover angle {i} (expected cos a{i})"
                return True, ""
            _guard(ctx, "T2.euler-angles", f"{order}", fA, f"order={order}", th)
        finally:
            tae._TORCH["atan2"], tae._TORCH["acos"] = orig_atan2, orig_acos
    # order normalisation
    reset_relations()
    fresh_facts()
    it = make_interp(ctx)
    for order in ORDERS:
        def tho(order=order):
            outs = {it.call(fO, order), it.call(fO, order.lower()), it.call(fO, " o ".join("R" + ch.lower() for ch in order)),
                    it.call(fO, " o ".join(order))}
            return outs == {order}, f"normalised forms {outs}"
        _guard(ctx, "T2.order", order, fO, f"order={order}", tho)

    def thd():
        return it.call(fO, None) == "ZXZ" and it.call(fO, None, ndim=2) == "Z" and it.call(fO, "zxz", 2) == "Z", "defaults"
    _guard(ctx, "T2.order", "defaults", fO, "defaults", thd)


# --------------------------------------------------------------------------- T6 homogeneous composition
def _operand(kind: str, D: int, tag: str, batch: Optional[int]) -> Tuple[STensor, List[STensor]]:
    """Return (tensor in the given form, list of reference (D, D+1) matrices per batch item)."""
    items = []
    refs = []
    n = batch or 1
    for b in range(n):
        A = STensor.symbols(f"{tag}{b}A", [D, D])
        t = STensor.symbols(f"{tag}{b}t", [D, 1])
        if kind == "translation":
            items.append(t)
            refs.append(symt.cat([symt.eye(D), t], dim=1))
        elif kind == "affine":
            items.append(A)
            refs.append(symt.cat([A, symt.zeros(D, 1)], dim=1))
        else:
            items.append(symt.cat([A, t], dim=1))
            refs.append(symt.cat([A, t], dim=1))
    if batch is None:
        return items[0], refs
    return symt.stack(items, 0), refs


def run_homogeneous(ctx: Ctx) -> None:
    prog = ctx.prog
    L = "deepali.core.linalg"
    fM = prog.func(L, "homogeneous_matmul")
    fH = prog.func(L, "hmm")
    fT = prog.func(L, "homogeneous_transform")
    fAM = prog.func(L, "as_homogeneous_matrix")
    fHM = prog.func(L, "homogeneous_matrix")
    for f in (fM, fH, fT, fAM, fHM, prog.func(L, "as_homogeneous_tensor")):
        ctx.fn(f)
    ctx.rule("T6.compose", "homogeneous_matmul(a, b) / hmm(a, b) for all 9 ordered pairs of operand forms and batch shapes (none, 1, N): "
                           "the result applied to a point equals a(b(p)) (first argument applied last); three-operand chains associate")
    ctx.rule("T6.convert", "as_homogeneous_matrix / homogeneous_matrix do not change the map for any form or batch shape; homogeneous_matrix "
                           "adds the offset and returns a copy")
    ctx.rule("T6.apply", "homogeneous_transform(T, p) = A p + t for every form; vectors=True drops exactly t; a (D,) translation works")
    kinds = ["translation", "affine", "homogeneous"]
    for D in (2, 3):
        for ka, kb in itertools.product(kinds, kinds):
            for ba, bb in ((None, None), (1, None), (None, 1), (2, None), (None, 2), (2, 2), (1, 2), (2, 1)):
                reset_relations()
                fresh_facts()
                it = make_interp(ctx)
                a, ra = _operand(ka, D, "a", ba)
                b, rb = _operand(kb, D, "b", bb)
                n = max(ba or 1, bb or 1)
                tag = f"D={D}:{ka}[{ba}]*{kb}[{bb}]"

                def th(a=a, b=b, ra=ra, rb=rb, n=n):
                    c = it.call(fM, a, b)
                    ch = it.call(fH, a, b)
                    lead = list(ch.shape[:-2])
                    chf = ch.reshape([-1, D, D + 1])
                    if chf.shape[0] != n:
                        return False, f"hmm result has {chf.shape[0]} items, expected {n}; shape {tuple(ch.shape)}"
                    # normalise c through own as_h per item
                    cf = c.reshape([-1] + list(c.shape[-2:]))
                    for i in range(n):
                        want = compose(ra[i if len(ra) > 1 else 0], rb[i if len(rb) > 1 else 0])
                        if not teq(chf[i], want):
                            return False, f"hmm item {i}: {tstr(chf[i])[:120]} expected {tstr(want)[:120]}"
                        if not teq(as_h(cf[i]), want):
                            return False, f"homogeneous_matmul item {i}: {tstr(cf[i])[:120]} expected {tstr(want)[:120]}"
                    return True, ""
                _guard(ctx, "T6.compose", tag, fM, f"a={ka} b={kb} batch=({ba},{bb}) D={D}", th)
        # integer-typed operands (voxel offsets, flips and axis permutations are naturally integer tensors) with a floating-point partner:
        # the composite has non-integral entries, so it must come back in floating point with the exact values
        for ka, kb, int_side in itertools.product(kinds, kinds, ("a", "b")):
            reset_relations()
            fresh_facts()
            it = make_interp(ctx)

            def concrete(kind, integral, D=D):
                if integral:
                    A = [[(1 if (i + 1) % D == j else 0) * (-1 if i == 0 else 1) for j in range(D)] for i in range(D)]  # signed permutation
                    t = [[2 * i - 3] for i in range(D)]
                else:
                    A = [[Fraction(2 * i + j + 1, 7) * (1 if (i + j) % 2 else -1) for j in range(D)] for i in range(D)]
                    t = [[Fraction(2 * i + 1, 4)] for i in range(D)]
                At = STensor.from_nested(A, symt.INT if integral else symt.FLOAT)
                tt = STensor.from_nested(t, symt.INT if integral else symt.FLOAT)
                Af, tf = STensor.from_nested(A), STensor.from_nested(t)
                if kind == "translation":
                    return tt, symt.cat([symt.eye(D), tf], dim=1)
                if kind == "affine":
                    return At, symt.cat([Af, symt.zeros(D, 1)], dim=1)
                return symt.cat([At, tt], dim=1), symt.cat([Af, tf], dim=1)
            a, ra = concrete(ka, int_side == "a")
            b, rb = concrete(kb, int_side == "b")

            def thi(a=a, b=b, ra=ra, rb=rb):
                want = compose(ra, rb)
                for nm, f in (("hmm", fH), ("homogeneous_matmul", fM)):
                    c = it.call(f, a, b)
                    if not c.dtype.is_floating_point:
                        return False, (f"{nm}(a, b) of an integer-typed and a floating-point operand has dtype {c.dtype.name}: the composite's "
                                       f"non-integral entries are truncated")
                    if not teq(as_h(c), want):
                        return False, f"{nm}: {tstr(as_h(c))[:120]} expected {tstr(want)[:120]}"
                return True, ""
            _guard(ctx, "T6.compose", f"D={D}:{ka}*{kb}:int-{int_side}", fM, f"a={ka} b={kb} integer operand={int_side} D={D}", thi)
        # three operands
        reset_relations()
        fresh_facts()
        it = make_interp(ctx)
        ops = [_operand(k, D, f"o{i}", None) for i, k in enumerate(["homogeneous", "translation", "affine"])]

        def th3():
            c = it.call(fM, ops[0][0], ops[1][0], ops[2][0])
            want = compose(ops[0][1][0], compose(ops[1][1][0], ops[2][1][0]))
            return teq(as_h(c), want), f"three-operand chain {tstr(as_h(c))[:120]}"
        _guard(ctx, "T6.compose", f"D={D}:chain3", fM, f"chain of three D={D}", th3)
        # conversions
        for k in kinds:
            for batch in (None, 1, 2):
                reset_relations()
                fresh_facts()
                it = make_interp(ctx)
                a, ra = _operand(k, D, "a", batch)

                def thc(a=a, ra=ra, batch=batch, k=k):
                    m = it.call(fAM, a)
                    mf = m.reshape([-1, D, D + 1])
                    for i, r in enumerate(ra):
                        if not teq(mf[i], r):
                            return False, f"as_homogeneous_matrix item {i} {tstr(mf[i])[:100]} expected {tstr(r)[:100]}"
                    off = STensor.symbols("off", [D])
                    h = it.call(fHM, a, offset=off)
                    hf = h.reshape([-1, D, D + 1])
                    for i, r in enumerate(ra):
                        want = symt.cat([r[:, :D], r[:, D:].add(off.unsqueeze(1))], dim=1)
                        if not teq(hf[i], want):
                            return False, f"homogeneous_matrix(offset) item {i} {tstr(hf[i])[:100]} expected {tstr(want)[:100]}"
                    # input must not have been modified (copy)
                    a2, _ = _operand(k, D, "a", batch)
                    if not teq(a, a2):
                        return False, "homogeneous_matrix modified its input"
                    return True, ""
                _guard(ctx, "T6.convert", f"D={D}:{k}[{batch}]", fAM, f"form={k} batch={batch} D={D}", thc)
        # vector translation (D,)
        reset_relations()
        fresh_facts()
        it = make_interp(ctx)

        def thv():
            t = STensor.symbols("t", [D])
            m = it.call(fAM, t)
            want = symt.cat([symt.eye(D), t.unsqueeze(1)], dim=1)
            p = STensor.symbols("p", [4, D])
            r = it.call(fT, t, p)
            return teq(m, want) and teq(r, p.add(t)), f"(D,) translation {tstr(m)}"
        _guard(ctx, "T6.convert", f"D={D}:vector-translation", fAM, f"form=(D,) D={D}", thv)
        # apply
        for k in kinds:
            for batch, pshape in ((None, [D]), (None, [5, D]), (None, [1, 3, D]), (1, [1, 3, D]), (2, [2, 3, D]), (2, [1, 3, D])):
                reset_relations()
                fresh_facts()
                it = make_interp(ctx)
                a, ra = _operand(k, D, "a", batch)
                p = STensor.symbols("p", pshape)

                def tha(a=a, ra=ra, p=p, batch=batch, pshape=pshape):
                    for vec in (False, True):
                        r = it.call(fT, a, p, vectors=vec)
                        n = batch or 1
                        pts = p.reshape([-1, D]) if (len(pshape) < 3) else p.reshape([pshape[0], -1, D])
                        if len(pshape) < 3:
                            want = [symt.matmul(ra[0][:, :D], q).add(0 if vec else ra[0][:, D]) for q in pts]
                            got = r.reshape([-1, D])
                            if got.shape[0] != len(want):
                                return False, f"result shape {tuple(r.shape)}"
                            for g, w in zip(got, want):
                                if not teq(g, w):
                                    return False, f"vectors={vec}: {tstr(g)[:80]} expected {tstr(w)[:80]}"
                        else:
                            N = max(n, pshape[0])
                            got = r.reshape([N, -1, D])
                            for i in range(N):
                                ref = ra[i if len(ra) > 1 else 0]
                                src = pts[i if pshape[0] > 1 else 0]
                                for j in range(src.shape[0]):
                                    w = symt.matmul(ref[:, :D], src[j]).add(0 if vec else ref[:, D])
                                    if not teq(got[i, j], w):
                                        return False, f"vectors={vec} item {i}: {tstr(got[i, j])[:80]} expected {tstr(w)[:80]}"
                    return True, ""
                _guard(ctx, "T6.apply", f"D={D}:{k}[{batch}]:p{pshape}", fT, f"form={k} batch={batch} points={pshape} D={D}", tha)


# --------------------------------------------------------------------------- T7 quaternions
def quat_ref(w, x, y, z) -> STensor:
    """Standard rotation matrix of a unit quaternion (w, x, y, z) (Hamilton convention)."""
    return STensor.from_nested([
        [1 - 2 * (y * y + z * z), 2 * (x * y - z * w), 2 * (x * z + y * w)],
        [2 * (x * y + z * w), 1 - 2 * (x * x + z * z), 2 * (y * z - x * w)],
        [2 * (x * z - y * w), 2 * (y * z + x * w), 1 - 2 * (x * x + y * y)],
    ])


def run_quaternion(ctx: Ctx) -> None:
    prog = ctx.prog
    K = "deepali.core._kornia"
    fQ = prog.func(K, "quaternion_to_rotation_matrix")
    fR = prog.func(K, "rotation_matrix_to_quaternion")
    ctx.fn(fQ)
    ctx.fn(fR)
    ctx.rule("T7.quat-to-matrix", "quaternion_to_rotation_matrix of a unit (w,x,y,z) quaternion equals the standard Hamilton matrix, is a proper "
                                  "rotation, maps (1,0,0,0) to the identity, and q and -q give the same matrix")
    ctx.rule("T7.matrix-to-quat", "rotation_matrix_to_quaternion(R(q)): in each of the four branches q_i q_j equals the true products "
                                  "(the quaternion is recovered up to sign), exact arithmetic with eps = 0")
    reset_relations()
    facts = fresh_facts()
    it = make_interp(ctx)
    x, y, z = Rat.atom("qx"), Rat.atom("qy"), Rat.atom("qz")
    declare_square("qw", Poly.const(1) - x.num * x.num - y.num * y.num - z.num * z.num)
    w = Rat.atom("qw")
    ref = quat_ref(w, x, y, z)

    def thq():
        for shape in ([4], [1, 4]):
            m = it.call(fQ, STensor.from_flat([w, x, y, z], shape))
            mm = m if m.ndim == 2 else m[0]
            if not teq(mm, ref):
                return False, f"matrix {tstr(mm)[:160]} expected {tstr(ref)[:160]}"
            if not teq(symt.matmul(mm.t(), mm), symt.eye(3)) or not mm.det().flat()[0].equals(1):
                return False, "not a proper rotation"
        m2 = it.call(fQ, STensor.from_flat([-w, -x, -y, -z], [4]))
        if not teq(m2, ref):
            return False, "q and -q give different matrices"
        mi = it.call(fQ, STensor.from_flat([1, 0, 0, 0], [4]))
        if not teq(mi, symt.eye(3)):
            return False, f"identity quaternion (1,0,0,0) maps to {tstr(mi)}"
        return True, ""
    _guard(ctx, "T7.quat-to-matrix", "unit", fQ, "unit quaternion", thq)

    # non-unit quaternion is normalised first
    def thn():
        reset_relations()
        fresh_facts()
        it2 = make_interp(ctx)
        q = [Rat.atom(n) for n in ("w", "x", "y", "z")]
        m = it2.call(fQ, STensor.from_flat(q, [4]))
        n2 = q[0] * q[0] + q[1] * q[1] + q[2] * q[2] + q[3] * q[3]
        want = quat_ref(*q)
        # ref formula with 1 -> n2 on the diagonal, all divided by n2
        want = STensor.from_nested([[(to_rat(want[i, j].flat()[0]) - (1 if i == j else 0) + (n2 if i == j else 0)) / n2 for j in range(3)] for i in range(3)])
        return teq(m, want), f"normalised matrix {tstr(m)[:160]}"
    _guard(ctx, "T7.quat-to-matrix", "non-unit", fQ, "non-unit quaternion", thn)

    # matrix -> quaternion: capture all branches through torch.where
    reset_relations()
    facts = fresh_facts()
    it = make_interp(ctx)
    declare_square("qw", Poly.const(1) - x.num * x.num - y.num * y.num - z.num * z.num)
    ref = quat_ref(w, x, y, z)
    branches: List[STensor] = []
    orig_where = tae._TORCH["where"]
    orig_gt = STensor.gt

    def where_hook(cond, a=None, b=None):
        for t in (a, b):
            if isinstance(t, STensor) and all(t is not u for u in branches):
                branches.append(t)
        return a

    def gt_hook(self, o):
        return STensor.from_flat([True] * self.numel(), self.shape, symt.BOOL)
    tae._TORCH["where"] = where_hook
    STensor.gt = gt_hook  # branch selectors are data dependent: all branches are checked instead
    try:
        try:
            it.call(fR, ref.unsqueeze(0), eps=0)
        finally:
            tae._TORCH["where"] = orig_where
            STensor.gt = orig_gt
        true_q = [w, x, y, z]
        cands = [b for b in branches if tuple(b.shape) == (1, 4)]
        ctx.require(len(cands) >= 4, f"rotation_matrix_to_quaternion: expected 4 branch results through torch.where, saw {len(cands)}")
        seen = 0
        for bi, b in enumerate(cands):
            q = [to_rat(v) for v in b.flat()]

            def thb(q=q, bi=bi):
                for i in range(4):
                    for j in range(i, 4):
                        if not (q[i] * q[j]).equals(true_q[i] * true_q[j]):
                            return False, f"branch {bi}: q[{i}]*q[{j}] = {q[i] * q[j]} expected {true_q[i] * true_q[j]}"
                return True, ""
            _guard(ctx, "T7.matrix-to-quat", f"branch{bi}", fR, f"branch={bi}", thb)
            seen += 1
    except Unsupported as e:
        raise AnalysisError(f"T7 matrix->quaternion: {e}")


def run_quaternion_log(ctx: Ctx) -> None:
    """quaternion_exp_to_log / quaternion_log_to_exp on unit quaternions with rational components (both signs of the scalar part)."""
    prog = ctx.prog
    K = "deepali.core._kornia"
    fL, fE = prog.func(K, "quaternion_exp_to_log"), prog.func(K, "quaternion_log_to_exp")
    ctx.fn(fL)
    ctx.fn(fE)
    ctx.rule("T7.quat-log-exp", "for unit quaternions (w, v) with rational components and rational |v|, scalar part positive, zero and "
                                "negative: quaternion_exp_to_log(q) = v acos(w) / |v| (the half rotation angle along the axis, in (0, pi]) and "
                                "quaternion_log_to_exp(quaternion_exp_to_log(q)) = q — as identities with cos(acos w) = w, "
                                "sin(acos w) = sqrt(1 - w^2)")
    ax = [Fraction(2, 7), Fraction(3, 7), Fraction(6, 7)]
    quats = [(Fraction(3, 5), Fraction(4, 5)), (Fraction(-3, 5), Fraction(4, 5)), (Fraction(0), Fraction(1)), (Fraction(-5, 13), Fraction(12, 13)),
             (Fraction(12, 13), Fraction(-5, 13)), (Fraction(-4, 5), Fraction(-3, 5))]
    for w, a in quats:
        def th(w=w, a=a):
            reset_relations()
            fresh_facts()
            it = make_interp(ctx)
            v = [a * x for x in ax]
            q = STensor.from_flat([w] + v, [1, 4])
            lg = it.call(fL, q)
            import math
            na = abs(a)
            if tuple(lg.shape) != (1, 3):
                return False, f"log has shape {tuple(lg.shape)}"
            for k in range(3):
                got = symt.numeric_value(lg[0, k].flat()[0])
                want = float(v[k]) * math.acos(float(w)) / float(na)
                if got is None:
                    raise AnalysisError(f"quaternion log component is not a constant expression: {lg[0, k].flat()[0]}")
                if abs(got - want) > 1e-9:
                    return False, (f"log of (w={w}, |v|={na}): component {k} = {tstr(lg[0, k])[:60]} ~ {got:.6f}, expected "
                                   f"v_k acos(w)/|v| ~ {want:.6f} (half rotation angle acos(w) = {math.acos(float(w)):.6f})")
            back = it.call(fE, lg)
            if tuple(back.shape) != (1, 4) or not teq(back, q):
                return False, f"exp(log(q)) = {tstr(back)[:100]} differs from q = {tstr(q)[:60]} (w = {w})"
            return True, ""
        _guard(ctx, "T7.quat-log-exp", f"w={w},|v|={abs(a)},sign={'+' if a > 0 else '-'}", fL, f"unit quaternion w={w} a={a}", th)


def run_angle_axis(ctx: Ctx) -> None:
    """angle_axis_to_rotation_matrix: Rodrigues' formula for a rotation vector theta * k, and its first-order branch for tiny vectors."""
    prog = ctx.prog
    K = "deepali.core._kornia"
    fA = prog.func(K, "angle_axis_to_rotation_matrix")
    ctx.fn(fA)
    ctx.rule("T7.angle-axis", "angle_axis_to_rotation_matrix(r): for r = theta k (unit axis k with rational components, symbolic theta beyond the "
                              "small-angle threshold) the antisymmetric part of the matrix is a positive multiple of 2 sin(theta) [k]x (sense of "
                              "rotation about +k; the value of the function's own axis regulariser is not prescribed) and R k is parallel to k; "
                              "for tiny r (|r|^2 below the function's threshold) it is the first-order "
                              "form I + [r]x of the *same* rotation (not of its inverse)")
    axes = [(Fraction(2, 7), Fraction(3, 7), Fraction(6, 7)), (Fraction(0), Fraction(3, 5), Fraction(-4, 5)), (Fraction(1), Fraction(0), Fraction(0))]

    def skew(v):
        x, y, z = v
        return STensor.from_nested([[0, -z, y], [z, 0, -x], [-y, x, 0]])

    for k in axes:
        def th(k=k):
            reset_relations()
            facts = fresh_facts()
            it = make_interp(ctx)
            th_ = Rat.atom("theta")
            facts.declare_positive(th_)
            facts.declare_positive(th_ * th_ - Fraction(1, 10 ** 6))  # beyond the function's small-angle threshold
            s_ = sfunc("sin", th_)
            r = STensor.from_flat([th_ * x for x in k], [1, 3])
            R = it.call(fA, r)
            got = R[0][:3, :3] if R.shape[-1] == 4 else R[0]
            # the antisymmetric part carries the sense of rotation: R - R^T = 2 sin(theta) lam [k]x with lam > 0 (lam = theta / (theta + eps)
            # with the function's own regulariser; its value is not prescribed, its sign is)
            A = got.sub(got.t())
            Kx = skew([Rat.of(x) for x in k])
            mu = None
            for i in range(3):
                for j in range(3):
                    kij = to_rat(Kx[i, j].flat()[0])
                    if not kij.is_zero():
                        mu = to_rat(A[i, j].flat()[0]) / kij
                        break
                if mu is not None:
                    break
            if not teq(A, Kx.mul(mu)):
                return False, f"axis {k}: the antisymmetric part of the matrix is not proportional to [k]x"
            lam = mu / (s_ * 2)
            # cancel the common factor sin(theta) of numerator and denominator (the ring keeps fractions unreduced)
            (s_atom,) = s_.num.atoms()

            def strip(poly):
                terms = {}
                for m, c in poly.terms.items():
                    d = dict(m)
                    if d.get(s_atom, 0) < 1:
                        return None
                    d[s_atom] -= 1
                    terms[tuple(sorted((a, e) for a, e in d.items() if e))] = c
                return Poly(terms)
            while True:
                n2, d2 = strip(lam.num), strip(lam.den)
                if n2 is None or d2 is None:
                    break
                lam = Rat(n2, d2)
            sg = symt.FACTS.sign(lam)
            if sg is None:
                raise AnalysisError(f"angle-axis: cannot decide the sign of {lam}")
            if sg <= 0:
                return False, f"axis {k}: the matrix rotates about -k (antisymmetric part = {lam} * 2 sin(theta) [k]x)"
            # the axis is fixed: R k = k up to the same positive factor structure (R k parallel to k)
            kv = STensor.from_flat(list(k), [3, 1])
            Rk = symt.matmul(got, kv)
            nz = next(i for i in range(3) if k[i] != 0)
            f_ = to_rat(Rk[nz, 0].flat()[0]) / k[nz]
            if not teq(Rk, kv.mul(f_)):
                return False, f"axis {k}: R k is not parallel to k"
            return True, ""
        _guard(ctx, "T7.angle-axis", f"rodrigues:k={k}", fA, f"rotation vector theta*{k}", th)

    for r0 in ((Fraction(3, 10000), Fraction(4, 10000), Fraction(0)), (Fraction(-2, 70000), Fraction(3, 70000), Fraction(6, 70000))):
        def tht(r0=r0):
            reset_relations()
            fresh_facts()
            it = make_interp(ctx)
            R = it.call(fA, STensor.from_flat(list(r0), [1, 3]))
            got = R[0][:3, :3] if R.shape[-1] == 4 else R[0]
            want = symt.eye(3).add(skew([Rat.of(x) for x in r0]))
            if not teq(got, want):
                inv = symt.eye(3).sub(skew([Rat.of(x) for x in r0]))
                extra = " — it is the first-order matrix of the inverse rotation" if teq(got, inv) else ""
                return False, f"tiny rotation vector {tuple(str(x) for x in r0)}: matrix {tstr(got)[:120]} is not I + [r]x{extra}"
            return True, ""
        _guard(ctx, "T7.angle-axis", f"small:{tuple(str(x) for x in r0)}", fA, f"tiny rotation vector {tuple(str(x) for x in r0)}", tht)


# --------------------------------------------------------------------------- T8 parameter getters / setters of the rotation-like transforms
def run_accessors(ctx: Ctx) -> None:
    """spatial/linear.py: squashing re-parameterisations and their inverses (C08, last mechanism)."""
    prog = ctx.prog
    L = "deepali.spatial.linear"
    Grid = prog.cls("deepali.core.grid", "Grid")
    fM = prog.func(L, "EulerRotation.matrix_")
    fAs = prog.func(L, "EulerRotation.angles_")
    fAg = prog.func(L, "EulerRotation.angles")
    fA = prog.func("deepali.core.affine", "euler_rotation_angles")
    for f in (fM, fAs, fAg, prog.func(L, "EulerRotation.tensor")):
        ctx.fn(f)
    ctx.rule("T8.accessors", "parameter getters/setters of the transforms round-trip to the same rotation/scale: EulerRotation.angles_(a).angles() "
                             "= a and tensor() = R_order(a) for Parameter (tanh squashing) and buffer parameters and every stored order; "
                             "matrix_(R_order(a)) recovers a with the transform's own order (atan2/acos resolved on the principal branch) so that "
                             "tensor() = R again; QuaternionRotation.quaternion_(q).quaternion() = q, tensor() is the Hamilton matrix of q, "
                             "matrix_ stores the quaternion computed from the matrix; *Scaling.scales_(s).scales() = s; Shearing.angles_ "
                             "round-trips")

    def resolve_hooks(cs, a):
        def atan2_hook(y, x):
            yy, xx = to_rat(y), to_rat(x)
            for i, (c, s) in enumerate(cs):
                # principal branch: (y, x) a positive multiple of (sin a_i, cos a_i); positivity of the common factor is assumed
                if (yy * c - xx * s).is_zero() and not (yy.is_zero() and xx.is_zero()):
                    return STensor.from_flat([a[i]], list(y.shape))
            return STensor.from_flat([sfunc("atan2", yy, xx)], list(y.shape))

        def acos_hook(z):
            zz = to_rat(z)
            for i, (c, s) in enumerate(cs):
                if zz.equals(c):
                    return STensor.from_flat([a[i]], list(z.shape))
            return STensor.from_flat([sfunc("acos", zz)], list(z.shape))
        return atan2_hook, acos_hook

    for order_arg in (None, "ZXZ", "XZX", "xzx", "Rx o Rz o Rx"):
        for kind in (True, False):
            def th(order_arg=order_arg, kind=kind):
                reset_relations()
                facts = fresh_facts()
                it = make_interp(ctx)
                a, cs = _angles(3)
                grid = it.new(Grid, size=(3, 3, 3))
                ci = prog.cls(L, "EulerRotation")
                t = it.new(ci, grid, params=kind) if order_arg is None else it.new(ci, grid, params=kind, order=order_arg)
                order = it.getattr(t, "order")
                fO = prog.func("deepali.core.affine", "euler_rotation_order")
                order = it.call(fO, None, ndim=3) if order_arg is None else "".join(ch for ch in order_arg.upper().replace("R", "") if ch in "XYZ")
                R = symt.matmul(symt.matmul(elem(order[0], *cs[0]), elem(order[1], *cs[1])), elem(order[2], *cs[2]))
                ang = STensor.from_flat(a, [1, 3])
                it.method(t, "angles_", ang)
                if not teq(it.method(t, "angles"), ang):
                    return False, f"angles_(a).angles() = {tstr(it.method(t, 'angles'))} != a"
                if not teq(it.method(t, "tensor")[0], R):
                    return False, "tensor() after angles_(a) is not the product of elementary rotations in the stored order"
                t2 = it.new(ci, grid, params=kind) if order_arg is None else it.new(ci, grid, params=kind, order=order_arg)
                o1, o2 = tae._TORCH["atan2"], tae._TORCH["acos"]
                tae._TORCH["atan2"], tae._TORCH["acos"] = resolve_hooks(cs, a)
                try:
                    it.method(t2, "matrix_", R.unsqueeze(0))
                finally:
                    tae._TORCH["atan2"], tae._TORCH["acos"] = o1, o2
                got = it.method(t2, "tensor")[0]
                if not teq(got, R):
                    return False, (f"EulerRotation(order={order_arg!r}).matrix_(R).matrix() != R: the angles extracted by matrix_ "
                                   f"({tstr(it.method(t2, 'angles'))[:120]}) do not reproduce the rotation")
                return True, ""
            _guard(ctx, "T8.accessors", f"euler:{order_arg}:{kind}", fM, f"EulerRotation order={order_arg!r} params={'parameter' if kind else 'buffer'}", th)

    # the inverted transform (t.inverse(), a copy with the invert flag) for every one of the twelve orders: its matrix is the transpose
    # of R_order(a) — the product of the elementary rotations by the negated angles in the *reversed* order — and composes to I both ways
    all_orders = ["".join(p_) for p_ in itertools.permutations("XYZ")] + [a_ + b_ + a_ for a_ in "XYZ" for b_ in "XYZ" if a_ != b_]
    for order in all_orders:
        def thi(order=order):
            reset_relations()
            fresh_facts()
            it = make_interp(ctx)
            a, cs = _angles(3)
            grid = it.new(Grid, size=(3, 3, 3))
            ci = prog.cls(L, "EulerRotation")
            t = it.new(ci, grid, params=False, order=order)
            it.method(t, "angles_", STensor.from_flat(a, [1, 3]))
            R = symt.matmul(symt.matmul(elem(order[0], *cs[0]), elem(order[1], *cs[1])), elem(order[2], *cs[2]))
            M = it.method(t, "tensor")[0]
            if not teq(M, R):
                return False, f"order={order}: tensor() is not the product of the elementary rotations in the stored order"
            for via in ("inverse", "inv"):
                inv = it.getattr(t, "inv") if via == "inv" else it.method(t, "inverse")
                Mi = it.method(inv, "tensor")[0]
                I3 = symt.eye(3)
                if not teq(Mi, R.transpose(0, 1)) or not teq(symt.matmul(Mi, M), I3) or not teq(symt.matmul(M, Mi), I3):
                    return False, f"order={order}: the matrix of t.{via} is not the inverse (transpose) of the rotation R_{order}(a)"
                if not teq(it.method(it.method(inv, "inverse"), "tensor")[0], R):
                    return False, f"order={order}: t.{via}.inverse() is not the rotation again"
            return True, ""
        _guard(ctx, "T8.accessors", f"euler-inverted:{order}", fM, f"EulerRotation order={order!r} inverted", thi)

    def th2d():
        reset_relations()
        fresh_facts()
        it = make_interp(ctx)
        a, cs = _angles(1)
        grid = it.new(Grid, size=(3, 3))
        for kind in (True, False, "frozen"):
            t = it.new(prog.cls(L, "EulerRotation"), grid, params=bool(kind))
            if kind == "frozen":
                it.method(t, "requires_grad_", False)
            ang = STensor.from_flat(a, [1, 1])
            it.method(t, "angles_", ang)
            if not teq(it.method(t, "angles"), ang):
                return False, "2-D angles_(a).angles() != a"
            c, s = cs[0]
            if not teq(it.method(t, "tensor")[0], STensor.from_nested([[c, -s], [s, c]])):
                return False, "2-D tensor()"
        return True, ""
    _guard(ctx, "T8.accessors", "euler:2d", fAs, "EulerRotation D=2", th2d)

    # quaternion
    fQm = prog.func(L, "QuaternionRotation.matrix_")
    fQs = prog.func(L, "QuaternionRotation.quaternion_")
    fR2Q = prog.func("deepali.core._kornia", "rotation_matrix_to_quaternion")
    ctx.fn(fQm)
    ctx.fn(fQs)
    for kind in (True, False):
        def thq(kind=kind):
            reset_relations()
            fresh_facts()
            it = make_interp(ctx)
            x, y, z = Rat.atom("qx"), Rat.atom("qy"), Rat.atom("qz")
            declare_square("qw", Poly.const(1) - x.num * x.num - y.num * y.num - z.num * z.num)
            w = Rat.atom("qw")
            q = STensor.from_flat([w, x, y, z], [1, 4])
            grid = it.new(Grid, size=(3, 3, 3))
            ci = prog.cls(L, "QuaternionRotation")
            t = it.new(ci, grid, params=kind)
            it.method(t, "quaternion_", q)
            if not teq(it.method(t, "quaternion"), q):
                return False, "quaternion_(q).quaternion() != q"
            ref = quat_ref(w, x, y, z)
            if not teq(it.method(t, "tensor")[0], ref):
                return False, "tensor() is not the Hamilton matrix of the stored (w,x,y,z) quaternion"
            seen = []

            def fake(interp, args, kwargs):
                seen.append(args[0])
                return q
            it.overrides[fR2Q.key] = fake
            t2 = it.new(ci, grid, params=kind)
            it.method(t2, "matrix_", ref.unsqueeze(0))
            if len(seen) != 1 or not teq(seen[0][0], ref):
                return False, "matrix_ does not convert the given matrix with rotation_matrix_to_quaternion"
            if not teq(it.method(t2, "tensor")[0], ref):
                return False, "matrix_(R).matrix() != R"
            return True, ""
        _guard(ctx, "T8.accessors", f"quaternion:{kind}", fQm, f"QuaternionRotation params={'parameter' if kind else 'buffer'}", thq)

    # scalings / shearing
    for cls, get, set_, nparam in (("IsotropicScaling", "scales", "scales_", lambda D: 1), ("AnisotropicScaling", "scales", "scales_", lambda D: D),
                                   ("Shearing", "angles", "angles_", lambda D: D * (D - 1) // 2)):
        ci = prog.cls(L, cls)
        fS = prog.find_method(ci, set_)
        ctx.fn(fS)
        ctx.fn(prog.find_method(ci, get))
        for D in (2, 3):
            for kind in (True, False, "frozen"):
                def ths(cls=cls, ci=ci, get=get, set_=set_, n=nparam(D), D=D, kind=kind):
                    reset_relations()
                    facts = fresh_facts()
                    it = make_interp(ctx)
                    grid = it.new(Grid, size=(3,) * D)
                    t = it.new(ci, grid, params=bool(kind))
                    vals = STensor.symbols("k", [1, n])
                    for v in vals.flat():
                        facts.declare_positive(v)
                    if kind == "frozen":
                        # a Parameter excluded from optimisation (requires_grad_(False)) keeps its squashed representation
                        it.method(t, "requires_grad_", False)
                        if not it.method(t, "has_parameters"):
                            raise AnalysisError("frozen-parameter scenario: requires_grad_(False) no longer keeps the Parameter")
                    it.method(t, set_, vals)
                    if not teq(it.method(t, get), vals):
                        return False, f"{cls}.{set_}(v).{get}() = {tstr(it.method(t, get))[:120]} != v"
                    if kind is True:
                        before = it.method(t, "tensor")
                        it.method(t, "requires_grad_", False)
                        if not teq(it.method(t, get), vals) or not teq(it.method(t, "tensor"), before):
                            return False, f"{cls}: freezing the parameters (requires_grad_(False)) changes {get}() / tensor()"
                    return True, ""
                _guard(ctx, "T8.accessors", f"{cls}:D={D}:{kind}", fS,
                       f"{cls} D={D} params={'frozen parameter' if kind == 'frozen' else 'parameter' if kind else 'buffer'}", ths)


def run_quaternion_angle_axis(ctx: Ctx) -> None:
    """quaternion <-> rotation vector <-> matrix conversions on unit quaternions with rational components, half-turns included."""
    import math
    prog = ctx.prog
    K = "deepali.core._kornia"
    fQA = prog.func(K, "quaternion_to_angle_axis")
    fAQ = prog.func(K, "angle_axis_to_quaternion")
    fMA = prog.func(K, "rotation_matrix_to_angle_axis")
    for f in (fQA, fAQ, fMA):
        ctx.fn(f)
    ctx.rule("T7.quat-angle-axis", "for unit quaternions q = (w, v) with rational components and rational |v| — scalar part positive, negative "
                                   "and exactly zero (half-turns) — the rotation vector quaternion_to_angle_axis(q) describes the rotation of q "
                                   "(Rodrigues' formula of the returned vector = the rotation matrix of q, compared after constant folding, "
                                   "|r| <= pi); angle_axis_to_quaternion of it is +-q; rotation_matrix_to_angle_axis(M) is the rotation vector of "
                                   "the quaternion rotation_matrix_to_quaternion returns for M (that conversion is T7.matrix-to-quat)")
    ax = [Fraction(2, 7), Fraction(3, 7), Fraction(6, 7)]
    quats = [(Fraction(3, 5), [Fraction(4, 5) * x for x in ax]), (Fraction(-3, 5), [Fraction(4, 5) * x for x in ax]),
             (Fraction(0), list(ax)), (Fraction(0), [Fraction(1), Fraction(0), Fraction(0)]), (Fraction(0), [Fraction(0), Fraction(0), Fraction(-1)]),
             (Fraction(-5, 13), [Fraction(-12, 13) * x for x in ax]), (Fraction(12, 13), [Fraction(0), Fraction(-5, 13), Fraction(0)])]
    # (the identity quaternion is left out: torch evaluates 0/0 in the branch it then discards; exact arithmetic cannot)

    def qmat(w, v):
        x, y, z = v
        return [[1 - 2 * (y * y + z * z), 2 * (x * y - z * w), 2 * (x * z + y * w)],
                [2 * (x * y + z * w), 1 - 2 * (x * x + z * z), 2 * (y * z - x * w)],
                [2 * (x * z - y * w), 2 * (y * z + x * w), 1 - 2 * (x * x + y * y)]]

    def rodrigues(r):
        th = math.sqrt(sum(c * c for c in r))
        if th < 1e-12:
            return [[1.0 if i == j else 0.0 for j in range(3)] for i in range(3)]
        k = [c / th for c in r]
        Kx = [[0, -k[2], k[1]], [k[2], 0, -k[0]], [-k[1], k[0], 0]]
        K2 = [[sum(Kx[i][m] * Kx[m][j] for m in range(3)) for j in range(3)] for i in range(3)]
        return [[(1.0 if i == j else 0.0) + math.sin(th) * Kx[i][j] + (1 - math.cos(th)) * K2[i][j] for j in range(3)] for i in range(3)]

    def numeric(t, what):
        out = []
        for x in t.flat():
            v = symt.numeric_value(x)
            if v is None:
                raise AnalysisError(f"{what}: component is not a constant expression: {x}")
            out.append(v)
        return out

    def same_rotation(r, M):
        R = rodrigues(r)
        return max(abs(R[i][j] - float(M[i][j])) for i in range(3) for j in range(3)) < 1e-9

    for w, v in quats:
        def th(w=w, v=v):
            reset_relations()
            fresh_facts()
            it = make_interp(ctx)
            q = STensor.from_flat([w] + list(v), [1, 4])
            M = qmat(w, v)
            r = it.call(fQA, q)
            if tuple(r.shape) != (1, 3):
                return False, f"rotation vector has shape {tuple(r.shape)}"
            rv = numeric(r, "quaternion_to_angle_axis")
            if math.sqrt(sum(c * c for c in rv)) > math.pi + 1e-9:
                return False, f"rotation vector of q=(w={w}) has angle {math.sqrt(sum(c * c for c in rv)):.6f} > pi"
            if not same_rotation(rv, M):
                return False, (f"quaternion_to_angle_axis(w={w}, v={[str(x) for x in v]}) ~ {[round(c, 6) for c in rv]} does not describe the "
                               f"rotation of the quaternion")
            qb = numeric(it.call(fAQ, r), "angle_axis_to_quaternion")
            want = [float(w)] + [float(x) for x in v]
            if min(max(abs(a - s * b) for a, b in zip(qb, want)) for s in (1, -1)) > 1e-9:
                return False, f"angle_axis_to_quaternion(quaternion_to_angle_axis(q)) ~ {[round(c, 6) for c in qb]} is not +-q"
            # rotation_matrix_to_angle_axis: composition of the two conversions that are decided on their own (T7.matrix-to-quat on every
            # branch; the unselected branches of a *concrete* half-turn matrix divide by zero in exact arithmetic, torch discards them)
            fMQ = prog.func(K, "rotation_matrix_to_quaternion")
            seen = {}

            def fake_mq(interp, args, kwargs):
                seen["m"] = args[0] if args else kwargs.get("rotation_matrix")
                return q
            it.overrides[fMQ.key] = fake_mq
            try:
                Mt = STensor.from_nested([M])
                rm = it.call(fMA, Mt)
            finally:
                del it.overrides[fMQ.key]
            if seen.get("m") is None or not teq(seen["m"], Mt):
                return False, "rotation_matrix_to_angle_axis does not convert the given matrix to a quaternion first"
            if not same_rotation(numeric(rm, "rotation_matrix_to_angle_axis"), M):
                return False, "rotation_matrix_to_angle_axis(M) is not the rotation vector of the quaternion of M"
            return True, ""
        _guard(ctx, "T7.quat-angle-axis", f"w={w},v={[str(x) for x in v]}", fQA, f"unit quaternion w={w} v={[str(x) for x in v]}", th)


def run_aliases(ctx: Ctx) -> None:
    """core/affine.py helpers that wrap the homogeneous algebra, and the plain getters / setters of Translation and HomogeneousTransform."""
    prog = ctx.prog
    A, L, S = "deepali.core.affine", "deepali.core.linalg", "deepali.spatial.linear"
    F_ = {n: prog.func(A, n) for n in ("apply_transform", "transform_points", "transform_vectors", "identity_transform", "translation",
                                       "rotation_matrix", "euler_rotation_matrix", "affine_rotation_matrix")}
    for f in F_.values():
        ctx.fn(f)
    ctx.rule("T6.helpers", "apply_transform / transform_points / transform_vectors apply A p + t (vectors: A v) for every operand form; "
                           "identity_transform and translation(offset, homogeneous) build the matrices their names say for offsets of shape "
                           "(D,), (N, D), (N, D, 1); rotation_matrix is euler_rotation_matrix; affine_rotation_matrix(R Sh S) = R for a rational "
                           "rotation, an upper-triangular unit shear and positive scales; Translation.offset_ / HomogeneousTransform.matrix_ "
                           "round-trip through offset() / tensor(); the part getters of the predefined composites return the member that "
                           "was constructed for that part")
    for D in (2, 3):
        def th(D=D):
            reset_relations()
            fresh_facts()
            it = make_interp(ctx)
            p = STensor.symbols("p", [1, 4, D])
            for kind in ("translation", "affine", "homogeneous"):
                a, ra = _operand(kind, D, "a", 1)
                Aa, ta = ra[0][:, :D], ra[0][:, D]
                want_p = symt.matmul(p, Aa.t()).add(ta)
                want_v = symt.matmul(p, Aa.t())
                if not teq(it.call(F_["apply_transform"], a, p), want_p) or not teq(it.call(F_["transform_points"], a, p), want_p):
                    return False, f"apply_transform / transform_points with a {kind} operand is not A p + t"
                if not teq(it.call(F_["apply_transform"], a, p, vectors=True), want_v) or not teq(it.call(F_["transform_vectors"], a, p), want_v):
                    return False, f"apply_transform(vectors=True) / transform_vectors with a {kind} operand is not A v"
            I = it.call(F_["identity_transform"], (2, D))
            Ih = it.call(F_["identity_transform"], 2, D, homogeneous=True)
            eye = symt.eye(D)
            if list(I.shape) != [2, D, D] or not all(teq(I[i], eye) for i in range(2)):
                return False, f"identity_transform((2, {D})) = {tstr(I)[:80]}"
            if list(Ih.shape) != [2, D, D + 1] or not all(teq(Ih[i], symt.cat([eye, symt.zeros(D, 1)], dim=1)) for i in range(2)):
                return False, f"identity_transform(2, {D}, homogeneous=True) = {tstr(Ih)[:80]}"
            for shape in ([D], [2, D], [2, D, 1]):
                off = STensor.symbols("o", shape)
                col = off.reshape([-1, D])
                m = it.call(F_["translation"], off)
                if list(m.shape) != shape[:-1] + [D, 1] if shape[-1] != 1 else list(m.shape) != shape:
                    return False, f"translation(offset of shape {shape}) has shape {list(m.shape)}"
                if not teq(m.reshape([-1, D]), col):
                    return False, f"translation(offset of shape {shape}) does not hold the offsets"
                mh = it.call(F_["translation"], off, homogeneous=True).reshape([-1, D, D + 1])
                for i in range(mh.shape[0]):
                    if not teq(mh[i], symt.cat([eye, col[i].unsqueeze(1)], dim=1)):
                        return False, f"translation(offset of shape {shape}, homogeneous=True) item {i} = {tstr(mh[i])[:80]}"
            return True, ""
        _guard(ctx, "T6.helpers", f"D={D}:apply", F_["apply_transform"], f"helpers D={D}", th)

    def thr():
        reset_relations()
        fresh_facts()
        it = make_interp(ctx)
        a, cs = _angles(3)
        ang = STensor.from_flat(a, [1, 3])
        for order in ("ZXZ", "XYZ"):
            if not teq(it.call(F_["rotation_matrix"], ang, order=order), it.call(F_["euler_rotation_matrix"], ang, order=order)):
                return False, f"rotation_matrix(order={order}) differs from euler_rotation_matrix"
        # affine_rotation_matrix: M = R Sh S with R from a rational unit quaternion, unit upper-triangular shear, positive scales
        w, x, y, z = Fraction(1, 3), Fraction(2, 3), Fraction(2, 3), Fraction(0)
        R = STensor.from_nested([[1 - 2 * (y * y + z * z), 2 * (x * y - z * w), 2 * (x * z + y * w)],
                                 [2 * (x * y + z * w), 1 - 2 * (x * x + z * z), 2 * (y * z - x * w)],
                                 [2 * (x * z - y * w), 2 * (y * z + x * w), 1 - 2 * (x * x + y * y)]])
        Sh = STensor.from_nested([[1, Fraction(1, 2), Fraction(-1, 3)], [0, 1, Fraction(2, 5)], [0, 0, 1]])
        Sc = symt.diag(STensor.from_flat([2, Fraction(3, 2), Fraction(1, 4)], [3]))
        M = symt.matmul(symt.matmul(R, Sh), Sc)
        for Min in (M.unsqueeze(0), symt.cat([M, STensor.from_nested([[5], [6], [7]])], dim=1).unsqueeze(0)):
            got = it.call(F_["affine_rotation_matrix"], Min)
            if list(got.shape) != [1, 3, 3] or not teq(got[0], R):
                return False, f"affine_rotation_matrix(R Sh S) = {tstr(got)[:120]} expected R = {tstr(R)[:120]}"
        return True, ""
    _guard(ctx, "T6.helpers", "rotation", F_["affine_rotation_matrix"], "rotation_matrix alias / affine_rotation_matrix", thr)

    Grid = prog.cls("deepali.core.grid", "Grid")
    for kind in (True, False):
        def tha(kind=kind):
            reset_relations()
            fresh_facts()
            it = make_interp(ctx)
            for D in (2, 3):
                grid = it.new(Grid, size=(3,) * D)
                t = it.new(prog.cls(S, "Translation"), grid, params=kind)
                off = STensor.symbols("o", [1, D])
                it.method(t, "offset_", off)
                if not teq(it.method(t, "offset"), off) or not teq(it.method(t, "tensor"), off.unsqueeze(-1)):
                    return False, f"Translation.offset_(o): offset() / tensor() do not return o (D={D})"
                h = it.new(prog.cls(S, "HomogeneousTransform"), grid, params=kind)
                m = STensor.symbols("m", [1, D, D + 1])
                it.method(h, "matrix_", m)
                if not teq(it.method(h, "tensor"), m):
                    return False, f"HomogeneousTransform.matrix_(m): tensor() does not return m (D={D})"
            return True, ""
        _guard(ctx, "T6.helpers", f"accessors:{'parameter' if kind else 'buffer'}", prog.func(S, "Translation.offset_"),
               f"Translation / HomogeneousTransform accessors params={'parameter' if kind else 'buffer'}", tha)

    parts = {"RigidTransform": {"rotation": "EulerRotation", "translation": "Translation"},
             "RigidQuaternionTransform": {"rotation": "QuaternionRotation", "translation": "Translation"},
             "SimilarityTransform": {"rotation": "EulerRotation", "scaling": "IsotropicScaling", "translation": "Translation"},
             "AffineTransform": {"rotation": "EulerRotation", "scaling": "AnisotropicScaling", "translation": "Translation"},
             "FullAffineTransform": {"rotation": "EulerRotation", "scaling": "AnisotropicScaling", "shearing": "Shearing", "translation": "Translation"}}
    for cname, want in parts.items():
        def thp(cname=cname, want=want):
            reset_relations()
            fresh_facts()
            it = make_interp(ctx)
            t = it.new(prog.cls(S, cname), it.new(Grid, size=(3, 3, 3)))
            members = list(it.method(t, "transforms"))
            seen = []
            for part, cls in want.items():
                m = it.getattr(t, part)
                if not isinstance(m, tae.ModObj) or m.cls.name != cls:
                    return False, f"{cname}.{part} is a {getattr(getattr(m, 'cls', None), 'name', type(m).__name__)}, expected {cls}"
                if not any(m is x for x in members):
                    return False, f"{cname}.{part} is not one of the members the composite applies"
                if any(m is s_ for s_ in seen):
                    return False, f"{cname}.{part} returns the same member as another part getter"
                seen.append(m)
            return True, ""
        _guard(ctx, "T6.helpers", f"parts:{cname}", prog.func(S, f"{cname}.__init__"), f"part getters of {cname}", thp)
