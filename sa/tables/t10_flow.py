"""T10x: flow fields mean the same displacement in every vector representation (C10)."""
from __future__ import annotations

import itertools
from fractions import Fraction
from typing import Any, Dict, List, Optional, Tuple

from .. import symt
from ..core import Ctx
from ..index import AnalysisError
from ..ring import Rat, reset_relations
from ..symt import InterpError, STensor, Unsupported, to_rat
from ..tae import STObj, ClassVal as tae_ClassVal
from .gridsym import fresh_facts, rotation
from .t1_grid import ScenarioUnavailable, _guard, apply, as_h, compose, make_interp, teq, tstr
from .t11_expv import identity_coords

AXES = ["GRID", "CUBE", "CUBE_CORNERS", "WORLD"]


def ref_vmap(it, g, a: str, to: str) -> STensor:
    """Reference: linear part of the a -> to point map of grid g, written out from the documented conventions and the grid's
    reported size(), spacing() and direction() (index i <-> cube (2i+1)/n - 1 <-> cube-corners 2i/(n-1) - 1 <-> o + R diag(s) i)."""
    n = [int(x) for x in it.method(g, "size")]
    D = len(n)
    RS = symt.matmul(it.method(g, "direction"), symt.diag(it.method(g, "spacing")))
    to_grid = {"GRID": symt.eye(D), "CUBE": symt.diag(STensor.from_flat([Fraction(k, 2) for k in n], [D])),
               "CUBE_CORNERS": symt.diag(STensor.from_flat([Fraction(k - 1, 2) for k in n], [D])), "WORLD": symt.inverse(RS)}
    from_grid = {"GRID": symt.eye(D), "CUBE": symt.diag(STensor.from_flat([Fraction(2, k) for k in n], [D])),
                 "CUBE_CORNERS": symt.diag(STensor.from_flat([Fraction(2, k - 1) for k in n], [D])), "WORLD": RS}
    return symt.matmul(from_grid[to], to_grid[a])


class FEnv:
    def __init__(self, ctx: Ctx, D: int, axes: str, N: int = 2, rotate: bool = True, fractional: bool = False):
        reset_relations()
        self.ctx = ctx
        self.facts = fresh_facts()
        self.it = it = make_interp(ctx)
        prog = ctx.prog
        self.D, self.N = D, N
        self.Grid = prog.cls("deepali.core.grid", "Grid")
        self.Axes = prog.cls("deepali.core.grid", "Axes")
        self.FF = prog.cls("deepali.data.flow", "FlowFields")
        self.F1 = prog.cls("deepali.data.flow", "FlowField")
        self.shape = (2, 3) if D == 2 else (2, 2, 3)
        self.size = tuple(reversed(self.shape))
        self.grids = []
        for b in range(N):
            s = [Rat.atom(f"s{b}{i}") for i in range(D)]
            c = [Rat.atom(f"c{b}{i}") for i in range(D)]
            for x in s:
                self.facts.declare_positive(x)
            R = rotation(D, f"g{b}") if rotate else symt.eye(D)
            if fractional:
                # a pyramid level of an odd-sized grid: downsample() of size 2n-1 keeps the internal float size n - 1/2, size() = n
                g0 = it.new(self.Grid, size=tuple(2 * n - 1 for n in self.size), spacing=STensor.from_flat(s, [D]),
                            center=STensor.from_flat(c, [D]), direction=R, align_corners=(b % 2 == 0))
                g = it.method(g0, "downsample")
                if tuple(int(x) for x in it.method(g, "size")) != tuple(self.size) or \
                        all(to_rat(x).equals(to_rat(y)) for x, y in zip(g.attrs["_size"].flat(), self.size)):
                    raise ScenarioUnavailable("downsample() of an odd-sized grid does not keep a non-integral internal size: no fractional-size grid can be built")
                self.grids.append(g)
                continue
            self.grids.append(it.new(self.Grid, size=self.size, spacing=STensor.from_flat(s, [D]), center=STensor.from_flat(c, [D]),
                                     direction=R, align_corners=(b % 2 == 0)))
        self.data = STensor.symbols("U", [N, D] + list(self.shape))
        self.ax = {a: it.enum(self.Axes, a) for a in AXES}
        self.axes = axes
        self.flow = it.new(self.FF, self.data.clone(), tuple(self.grids), self.ax[axes])

    def vmap(self, b: int, a: str, to: str) -> STensor:
        return ref_vmap(self.it, self.grids[b], a, to)

    def convert(self, data: STensor, a: str, to: str) -> STensor:
        out = []
        for b in range(self.N):
            M = self.vmap(b, a, to)
            v = data[b].permute(list(range(1, self.D + 1)) + [0]).unsqueeze(-1)  # (..., D, 1)
            w = symt.matmul(M, v).squeeze(-1)
            out.append(w.permute([self.D] + list(range(self.D))).unsqueeze(0))
        return symt.cat(out, 0)


def run_flow(ctx: Ctx) -> None:
    prog = ctx.prog
    FFm = {n: prog.func("deepali.data.flow", f"FlowFields.{n}") for n in ("axes", "exp", "sample", "warp_image")}
    for f in FFm.values():
        ctx.fn(f)
    fX = prog.func("deepali.core.flow", "expv")
    ctx.rule("T10x.axes", "FlowFields.axes(b) on a batch with distinct oriented grids: vectors of item i are multiplied by the linear part of "
                          "grid i's own map a -> b; a -> b -> a is the identity, a -> c equals a -> b -> c; result is labelled b and keeps the grids; "
                          "FlowField.axes delegates")
    ctx.rule("T10x.exp", "FlowFields.exp(): expv receives the vectors converted to the cube axes matching the align_corners flag it is given, "
                         "with the caller's scale/steps, and the result is converted back to the original representation")
    ctx.rule("T10x.warp", "FlowFields.warp_image(): torch.grid_sample receives per item the grid's own identity coordinates (convention a) plus the "
                          "vectors converted to that cube convention, with align_corners = a; the result carries the flow's grids")
    for D in (2, 3):
        for a, frac in [(x, False) for x in AXES] + [(x, True) for x in AXES]:
            def th_axes(D=D, a=a, frac=frac):
                env = FEnv(ctx, D, a, fractional=frac)
                it = env.it
                for b in AXES:
                    r = it.method(env.flow, "axes", env.ax[b])
                    if not isinstance(r, STObj) or r.attrs.get("_axes") != env.ax[b]:
                        return False, f"axes({b}) result is not labelled {b}"
                    if any(g is not h for g, h in zip(r.attrs["_grid"], env.grids)):
                        return False, "grids changed"
                    want = env.convert(env.data, a, b)
                    if not teq(r.plain(), want):
                        return False, f"{a} -> {b}: vectors differ from the grids' own vector map"
                    back = it.method(r, "axes", env.ax[a])
                    if not teq(back.plain(), env.data):
                        return False, f"{a} -> {b} -> {a} is not the identity"
                    for c in AXES:
                        rc = it.method(r, "axes", env.ax[c])
                        direct = it.method(env.flow, "axes", env.ax[c])
                        if not teq(rc.plain(), direct.plain()):
                            return False, f"{a} -> {b} -> {c} differs from {a} -> {c}"
                if it.method(env.flow, "axes") != env.ax[a]:
                    return False, "axes() getter"
                one = it.method(env.flow, "__getitem__", 1)
                r1 = it.method(one, "axes", env.ax["WORLD"])
                if not teq(r1.plain(), env.convert(env.data, a, "WORLD")[1]):
                    return False, "FlowField.axes differs from FlowFields.axes for the same item"
                return True, ""
            _guard(ctx, "T10x.axes", f"D={D}:{a}" + (":fractional-size" if frac else ""), FFm["axes"],
                   f"D={D} from={a}" + (" fractional-size" if frac else ""), th_axes)
            if frac:
                continue

            def th_exp(D=D, a=a):
                env = FEnv(ctx, D, a)
                it = env.it
                rec: List[Dict[str, Any]] = []
                R = STensor.symbols("E", list(env.data.shape))

                def fake_expv(interp, args, kwargs):
                    b = dict(zip(fX.pos_params, args))
                    b.update(kwargs)
                    rec.append(b)
                    return R
                it.overrides[fX.key] = fake_expv
                out = it.method(env.flow, "exp", scale=Fraction(1, 2), steps=3)
                if len(rec) != 1:
                    return False, f"expv reached {len(rec)} times"
                c = rec[0]
                ac = bool(c.get("align_corners", True))
                cube = "CUBE_CORNERS" if ac else "CUBE"
                want_in = env.convert(env.data, a, cube)
                if not teq(c["flow"], want_in):
                    return False, (f"representation {a}: expv(align_corners={ac}) is given vectors that are not expressed in {cube} units "
                                   f"(first {to_rat(c['flow'].flat()[0])} expected {to_rat(want_in.flat()[0])})")
                if c.get("scale") != Fraction(1, 2) or c.get("steps") != 3:
                    return False, f"scale/steps not forwarded: {c.get('scale')}, {c.get('steps')}"
                if not isinstance(out, STObj) or out.attrs.get("_axes") != env.ax[a]:
                    return False, "result not labelled with the original axes"
                want_out = env.convert(R, cube, a)
                if not teq(out.plain(), want_out):
                    return False, f"result of expv is not converted back from {cube} to {a}"
                return True, ""
            _guard(ctx, "T10x.exp", f"D={D}:{a}", FFm["exp"], f"D={D} axes={a}", th_exp)

            def th_warp(D=D, a=a):
                env = FEnv(ctx, D, a)
                it = env.it
                IB = prog.cls("deepali.data.image", "ImageBatch")
                img = it.new(IB, STensor.symbols("I", [env.N, 1] + list(env.shape)), tuple(env.grids))
                del symt.GRID_SAMPLE_CALLS[:]
                out = it.method(env.flow, "warp_image", img)
                calls = list(symt.GRID_SAMPLE_CALLS)
                if len(calls) != 1:
                    return False, f"{len(calls)} sampling calls"
                c = calls[0]
                ac = bool(c["align_corners"])
                cube = "CUBE_CORNERS" if ac else "CUBE"
                vec = env.convert(env.data, a, cube)
                for b in range(env.N):
                    ident = identity_coords(env.shape, ac)
                    want = ident.add(vec[b].permute(list(range(1, D + 1)) + [0]))
                    if not teq(c["grid"][b], want):
                        return False, (f"item {b}: sampling positions are not identity_coords(align_corners={ac}) + vectors in {cube} units "
                                       f"(first {tstr(c['grid'][b].reshape([-1, D])[0])[:80]} expected {tstr(want.reshape([-1, D])[0])[:80]})")
                if not isinstance(out, STObj) or any(g is not h for g, h in zip(out.attrs["_grid"], env.grids)):
                    return False, "warped image does not carry the flow's grids"
                return True, ""
            _guard(ctx, "T10x.warp", f"D={D}:{a}", FFm["warp_image"], f"D={D} axes={a}", th_warp)
    run_flow_sample(ctx)


def run_default_axes(ctx: Ctx) -> None:
    """Flow fields constructed without `axes`: the vectors are in the cube units of the grid's own align_corners convention."""
    prog = ctx.prog
    FF = prog.cls("deepali.data.flow", "FlowFields")
    F1 = prog.cls("deepali.data.flow", "FlowField")
    IM = prog.cls("deepali.data.image", "Image")
    Grid = prog.cls("deepali.core.grid", "Grid")
    Axes = prog.cls("deepali.core.grid", "Axes")
    f1 = prog.find_method(F1, "__init__")
    ctx.fn(f1)
    ctx.fn(prog.find_method(FF, "__init__"))
    ctx.rule("T10x.default-axes", "FlowFields(data, grid), FlowField(data, grid), FlowField.from_image(image) and FlowFields.from_images-style "
                                  "construction without `axes` label the vectors CUBE_CORNERS on a grid with align_corners=True and CUBE on a "
                                  "grid with align_corners=False (documented default: the grid's own convention), so that axes(WORLD) applies the "
                                  "grid's own cube -> world vector map; sub-items and batches keep the label")
    for D, shape in ((2, (2, 3)), (3, (2, 2, 3))):
        for ac in (True, False):
            def th(D=D, shape=shape, ac=ac):
                reset_relations()
                facts = fresh_facts()
                it = make_interp(ctx)
                s = [Rat.atom(f"s{i}") for i in range(D)]
                for x in s:
                    facts.declare_positive(x)
                g = it.new(Grid, size=tuple(reversed(shape)), spacing=STensor.from_flat(s, [D]), direction=rotation(D, "g"), align_corners=ac)
                want = it.enum(Axes, "CUBE_CORNERS" if ac else "CUBE")
                data = STensor.symbols("U", [D] + list(shape))
                objs = {
                    "FlowField(data, grid)": it.new(F1, data.clone(), g),
                    "FlowFields(data, grid)": it.new(FF, data.unsqueeze(0).clone(), g),
                    "FlowField.from_image(image)": it.method(tae_ClassVal(F1), "from_image", it.new(IM, data.clone(), g)),
                }
                objs["FlowField(data, grid).batch()"] = it.method(objs["FlowField(data, grid)"], "batch")
                objs["FlowFields(data, grid)[0]"] = it.method(objs["FlowFields(data, grid)"], "__getitem__", 0)
                for what, f in objs.items():
                    got = it.method(f, "axes")
                    if got != want:
                        return False, f"{what} on a grid with align_corners={ac} is labelled {got}, expected {want}"
                    w = it.method(f, "axes", it.enum(Axes, "WORLD")).plain()
                    M = ref_vmap(it, g, "CUBE_CORNERS" if ac else "CUBE", "WORLD")
                    src = f.plain()
                    src = src if src.ndim == D + 2 else src.unsqueeze(0)
                    w = w if w.ndim == D + 2 else w.unsqueeze(0)
                    v = src[0].permute(list(range(1, D + 1)) + [0]).unsqueeze(-1)
                    ref = symt.matmul(M, v).squeeze(-1).permute([D] + list(range(D)))
                    if not teq(w[0], ref):
                        return False, f"{what}: axes(WORLD) is not the grid's own cube -> world vector map applied to the given vectors"
                return True, ""
            _guard(ctx, "T10x.default-axes", f"D={D}:align_corners={ac}", f1, f"default axes D={D} grid align_corners={ac}", th)


def run_single_field(ctx: Ctx) -> None:
    """The single-field class FlowField delegates to a one-item batch: the representation label travels with it."""
    prog = ctx.prog
    FF = prog.cls("deepali.data.flow", "FlowFields")
    F1 = prog.cls("deepali.data.flow", "FlowField")
    Grid = prog.cls("deepali.core.grid", "Grid")
    Axes = prog.cls("deepali.core.grid", "Axes")
    fB = prog.find_method(F1, "batch")
    ctx.fn(fB)
    ctx.rule("T10x.single-field", "a FlowField given in any of the four representations: batch() is a one-item FlowFields with the same vectors, grid "
                                  "and representation label, batch()[0] is the field again; sample(grid2), crop(...) and axes(to) of the single field "
                                  "equal item 0 of the same operation on FlowFields(data[None], grid, axes) and carry the same label")
    for D, shape in ((2, (2, 3)), (3, (2, 2, 3))):
        for a in AXES:
            def th(D=D, shape=shape, a=a):
                reset_relations()
                facts = fresh_facts()
                it = make_interp(ctx)
                s = [Rat.atom(f"s{i}") for i in range(D)]
                s2 = [Rat.atom(f"n{i}") for i in range(D)]
                for x in s + s2:
                    facts.declare_positive(x)
                g = it.new(Grid, size=tuple(reversed(shape)), spacing=STensor.from_flat(s, [D]), direction=rotation(D, "g"), align_corners=False)
                g2 = it.new(Grid, size=tuple(n + 1 for n in reversed(shape)), spacing=STensor.from_flat(s2, [D]), align_corners=True)
                ax = it.enum(Axes, a)
                data = STensor.symbols("U", [D] + list(shape))
                f = it.new(F1, data.clone(), g, ax)
                ref = it.new(FF, data.unsqueeze(0).clone(), g, ax)
                b = it.method(f, "batch")
                if it.method(b, "axes") != ax:
                    return False, f"FlowField(axes={a}).batch() is labelled {it.method(b, 'axes')}"
                if not teq(b.plain(), data.unsqueeze(0)):
                    return False, "batch() changed the vectors"
                back = it.method(b, "__getitem__", 0)
                if it.method(back, "axes") != ax or not teq(back.plain(), data):
                    return False, f"batch()[0] of a FlowField(axes={a}) is not the field again"
                ops = [("sample", (g2,), {}), ("crop", (), dict(margin=(1, 0) if D == 2 else (1, 0, 0)))] + \
                      [("axes", (it.enum(Axes, t),), {}) for t in AXES if t != a]
                for name, args, kw in ops:
                    r1 = it.method(f, name, *args, **kw)
                    r2 = it.method(ref, name, *args, **kw)
                    l1, l2 = it.method(r1, "axes"), it.method(r2, "axes")
                    if l1 != l2:
                        return False, f"FlowField(axes={a}).{name}(...) is labelled {l1}, the same operation on the one-item batch {l2}"
                    if tuple(r1.plain().shape) != tuple(r2.plain()[0].shape) or not teq(r1.plain(), r2.plain()[0]):
                        return False, f"FlowField(axes={a}).{name}(...) differs from item 0 of the same operation on the one-item batch"
                return True, ""
            _guard(ctx, "T10x.single-field", f"D={D}:{a}", fB, f"single FlowField D={D} axes={a}", th)


def run_flow_sample(ctx: Ctx) -> None:
    """FlowFields.sample(grid): vectors are re-expressed in the units of the new grid (used by C10 and, as the flow part of lock-step, C04)."""
    prog = ctx.prog
    FFm = {"sample": prog.func("deepali.data.flow", "FlowFields.sample")}
    ctx.fn(FFm["sample"])
    ctx.rule("T10x.sample", "FlowFields.sample(grid): the resampled vectors are re-expressed from the old grid's to the new grid's units iff the "
                            "representation is not WORLD (old grid -> world -> new grid roles)")
    for D in (2, 3):
        for a, same_domain in [(x, False) for x in AXES] + [(x, True) for x in AXES] + [(x, "fractional-size") for x in AXES]:
            def th_sample(D=D, a=a, same_domain=same_domain):
                env = FEnv(ctx, D, a, rotate=False, fractional=(same_domain == "fractional-size"))
                it = env.it
                news = []
                for b in range(env.N):
                    if same_domain is True:
                        # same cube, other size (e.g. a pyramid level): the vectors still have to be re-expressed
                        news.append(it.method(env.grids[b], "resize", tuple(2 * n - 1 for n in env.size)))
                        continue
                    s = [Rat.atom(f"n{b}{i}") for i in range(D)]
                    for x in s:
                        env.facts.declare_positive(x)
                    news.append(it.new(env.Grid, size=tuple(n + 1 for n in env.size), spacing=STensor.from_flat(s, [D]),
                                       align_corners=(b % 2 == 1)))
                del symt.GRID_SAMPLE_CALLS[:]
                out = it.method(env.flow, "sample", tuple(news))
                calls = list(symt.GRID_SAMPLE_CALLS)
                if not calls:
                    return False, "no sampling call"
                c = calls[-1]
                raw = symt.grid_sample(c["input"], c["grid"], c["mode"], c["padding_mode"], c["align_corners"])
                if not isinstance(out, STObj) or out.attrs.get("_axes") != env.ax[a]:
                    return False, "result is not a FlowFields with the original axes"
                for b in range(env.N):
                    if a == "WORLD":
                        want = raw[b]
                    else:
                        M = symt.matmul(ref_vmap(it, news[b], "WORLD", a), ref_vmap(it, env.grids[b], a, "WORLD"))
                        v = raw[b].permute(list(range(1, D + 1)) + [0]).unsqueeze(-1)
                        want = symt.matmul(M, v).squeeze(-1).permute([D] + list(range(D)))
                    if not teq(out.plain()[b], want):
                        return False, (f"item {b}, representation {a}: resampled vectors are not re-expressed from the old to the new grid "
                                       f"(first {to_rat(out.plain()[b].flat()[0])} expected {to_rat(want.flat()[0])})")
                return True, ""
            _guard(ctx, "T10x.sample", f"D={D}:{a}:same_domain={same_domain}", FFm["sample"], f"D={D} axes={a} same_domain={same_domain}", th_sample)


def run_normalize(ctx: Ctx) -> None:
    prog = ctx.prog
    fN = prog.func("deepali.core.flow", "normalize_flow")
    fD = prog.func("deepali.core.flow", "denormalize_flow")
    gN = prog.func("deepali.core.pointset", "normalize_grid")
    gD = prog.func("deepali.core.pointset", "denormalize_grid")
    for f in (fN, fD, gN, gD):
        ctx.fn(f)
    ctx.rule("T10x.normalize", "normalize_flow / denormalize_flow (and normalize_grid / denormalize_grid) are inverse maps for both align_corners "
                               "settings, scale component j (x first) by 2/(n_j - 1) resp. 2/n_j, for channels first and last")
    for D in (2, 3):
        shape = (2, 3) if D == 2 else (2, 4, 3)
        size = tuple(reversed(shape))
        for ac in (True, False):
            for cl in (False, True):
                def th(D=D, shape=shape, size=size, ac=ac, cl=cl):
                    reset_relations()
                    fresh_facts()
                    it = make_interp(ctx)
                    u = STensor.symbols("u", ([1] + list(shape) + [D]) if cl else ([1, D] + list(shape)))
                    n = it.call(fN, u, align_corners=ac, channels_last=cl, **({"size": size} if cl else {}))
                    for j in range(D):
                        k = Fraction(2, size[j] - 1) if ac else Fraction(2, size[j])
                        got = n[..., j] if cl else n[:, j]
                        src = u[..., j] if cl else u[:, j]
                        if not teq(got, src.mul(k)):
                            return False, f"normalize_flow component {j} (n={size[j]}, align_corners={ac}) is not scaled by {k}"
                    back = it.call(fD, n, align_corners=ac, channels_last=cl, **({"size": size} if cl else {}))
                    if not teq(back, u):
                        return False, "denormalize_flow(normalize_flow(u)) != u"
                    return True, ""
                _guard(ctx, "T10x.normalize", f"D={D}:ac={ac}:channels_last={cl}", fN, f"normalize D={D} align_corners={ac} channels_last={cl}", th)
