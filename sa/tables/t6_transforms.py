"""T6x: spatial transforms under operation histories (C09; shared helpers for C06/C07/C15) — abstract execution of the
real transform classes (nn.Module model in sa/modmodel.py) on symbolic parameters.

Oracle for C09 (differential, inside the abstract domain): after a history of operations, an evaluation must equal the
evaluation of a *freshly recomputed* twin that has the same parameters / grid / conditioning but no cached buffers.
"""
from __future__ import annotations

import itertools
from collections import OrderedDict
from fractions import Fraction
from typing import Any, Callable, Dict, List, Optional, Sequence, Tuple

from .. import modmodel as MM
from .. import symt, tae
from ..core import Ctx
from ..index import AnalysisError
from ..ring import Rat, reset_relations
from ..symt import InterpError, STensor, Unsupported, to_rat
from ..tae import FuncVal, Interp, ModObj, Obj, STObj
from .gridsym import fresh_facts
from .t1_grid import _guard, make_interp, teq, tstr

NONRIGID = [
    ("deepali.spatial.nonrigid", "DisplacementFieldTransform", {}),
    ("deepali.spatial.nonrigid", "StationaryVelocityFieldTransform", {"steps": 1}),
    ("deepali.spatial.bspline", "FreeFormDeformation", {"stride": 2}),
    ("deepali.spatial.bspline", "StationaryVelocityFreeFormDeformation", {"stride": 2, "steps": 1}),
]


class HostCallable(tae.HostObject):
    """A callable standing in for a network predicting parameters from the conditioning input."""

    is_module = False

    def __init__(self, shape: Sequence[int], tag: str = "net"):
        self.shape = list(shape)
        self.tag = tag
        self.calls = 0

    def __call__(self, *args, **kwargs):
        self.calls += 1
        # the prediction depends on the conditioning input (a scalar symbol or nothing)
        base = STensor.symbols(self.tag, self.shape)
        if args:
            c = args[0]
            base = base.mul(c) if isinstance(c, (STensor, Rat, int, Fraction)) else base
        for k in sorted(kwargs):  # keyword conditioning (e.g. gain=...) enters the prediction as well
            v = kwargs[k]
            if isinstance(v, (STensor, Rat, int, Fraction)):
                base = base.mul(v)
        return base


def clone_fresh(it: Interp, t: ModObj, cond=None) -> ModObj:
    """Twin with the same parameters/grid/conditioning, but without the derived buffers u, v (recomputed by update()).
    ``cond`` = (args, kwargs) of the last conditioning the history gave this transform (the twin holds exactly that)."""
    c = ModObj(t.cls)
    c.attrs = dict(t.attrs)
    if cond is not None:
        c.attrs["_args"], c.attrs["_kwargs"] = tuple(cond[0]), dict(cond[1])
    for k in ("_buffers", "_modules", "_parameters"):
        c.attrs[k] = OrderedDict(t.attrs[k])
    c.attrs["_non_persistent_buffers_set"] = set(t.attrs["_non_persistent_buffers_set"])
    for k in ("u", "v"):
        c.attrs["_buffers"].pop(k, None)
        c.attrs["_non_persistent_buffers_set"].discard(k)
    # parameters predicted by a callable are cached in the buffer 'p': the twin starts from an uninitialised cache
    pb = c.attrs["_buffers"].get("p")
    if isinstance(pb, STensor):
        c.attrs["_buffers"]["p"] = STensor.symbols("uninitialised_p", list(pb.shape))
    return c


def fresh_tensor(it: Interp, t: ModObj, cond=None) -> STensor:
    c = clone_fresh(it, t, cond)
    it.method(c, "update")
    return it.method(c, "tensor")


class TEnv:
    def __init__(self, ctx: Ctx, D: int = 2):
        reset_relations()
        self.ctx = ctx
        self.facts = fresh_facts()
        self.it = make_interp(ctx)
        self.prog = ctx.prog
        self.D = D
        self.Grid = self.prog.cls("deepali.core.grid", "Grid")
        self.size = (5, 5) if D == 2 else (3, 3, 3)
        self.grid = self.it.new(self.Grid, size=self.size)
        # refined grid covering the same (corner aligned) domain
        self.grid2 = self.it.new(self.Grid, size=tuple(2 * n - 1 for n in self.size), spacing=Fraction(1, 2))
        self.counter = 0

    def make(self, mod: str, cls: str, kw: Dict[str, Any], kind: str) -> ModObj:
        ci = self.prog.cls(mod, cls)
        it = self.it
        if kind == "parameter":
            t = it.new(ci, self.grid, params=True, **kw)
            self.randomize(t)
        elif kind == "buffer":
            t = it.new(ci, self.grid, params=False, **kw)
            self.randomize(t)
        elif kind == "tensor":
            probe = it.new(ci, self.grid, params=False, **kw)
            shape = [1] + list(it.getattr(probe, "data_shape"))
            t = it.new(ci, self.grid, params=self.sym(shape), **kw)
        elif kind == "callable":
            probe = it.new(ci, self.grid, params=False, **kw)
            shape = [1] + list(it.getattr(probe, "data_shape"))
            t = it.new(ci, self.grid, params=HostCallable(shape), **kw)
        else:
            raise ValueError(kind)
        return t

    def sym(self, shape) -> STensor:
        self.counter += 1
        return STensor.symbols(f"q{self.counter}_", list(shape))

    def randomize(self, t: ModObj) -> None:
        p = self.it.method(t, "data")
        vals = self.sym(list(p.shape)).flat()
        for i, v in zip(p.idx, vals):
            p.store[i] = v


# operations: name -> (callable(env, t) , is_replacing)
def _ops(env: TEnv, kind: str, cls: str) -> Dict[str, Tuple[Callable[[ModObj], Any], bool]]:
    it = env.it

    def data_(t):
        p = it.method(t, "data")
        it.method(t, "data_", env.sym(list(p.shape)))

    def inplace(t):
        p = it.method(t, "data")
        p.add_(env.sym(list(p.shape)))

    def grid_(t):
        cur = it.method(t, "grid")
        it.method(t, "grid_", env.grid2 if cur is env.grid else env.grid)

    def condition_(t):
        env.counter += 1
        a = Rat.atom(f"cond{env.counter}")
        it.method(t, "condition_", a)
        env.cond = ((a,), {})

    def condition_kw(t):
        env.counter += 1
        a, g_ = Rat.atom(f"cond{env.counter}"), Rat.atom(f"gain{env.counter}")
        it.method(t, "condition_", a, gain=g_)
        env.cond = ((a,), {"gain": g_})

    def condition_copy(t):
        # conditioning a *copy* (functional condition(...)) with keyword arguments must leave this transform's conditioning alone
        env.counter += 1
        it.method(t, "condition", Rat.atom(f"cond{env.counter}"), gain=Rat.atom(f"gain{env.counter}"))

    def data_copy(t):
        p = it.method(t, "data")
        return it.method(t, "data", env.sym(list(p.shape)))

    def grid_copy(t):
        cur = it.method(t, "grid")
        return it.method(t, "grid", env.grid2 if cur is env.grid else env.grid)

    def net_step(t):
        # an optimiser step on the predicting network: the next update() must see the new prediction
        net = t.attrs.get("params")
        if not isinstance(net, HostCallable):
            raise AnalysisError("network-step scenario: the predicting callable is not stored under 'params'")
        if isinstance(net, HostCallable):
            env.counter += 1
            net.tag = f"net{env.counter}_"

    def reset(t):
        it.method(t, "reset_parameters")

    def update(t):
        it.method(t, "update")

    def call(t):
        x = STensor.symbols("x", [1, 2, env.D])
        it.call_value(t, [x], {})

    def disp(t):
        it.method(t, "disp")

    def clear(t):
        it.method(t, "clear_buffers")

    def link_(t):
        # link to another transform of the same type holding other parameters: from now on its parameters are the ones in use
        other = env.make(t.cls.module.name, cls, dict(getattr(env, "ctor_kw", {})), "buffer")
        it.method(t, "link_", other)

    def unlink_(t):
        # unlink_() resets the parameters to None (documented): they must be set before the next use
        shape = [1] + list(it.getattr(t, "data_shape"))
        it.method(t, "unlink_")
        # (given as a Parameter: torch types the slot 'params' once it has held a Parameter or a linked module; the plain-tensor
        #  form is the separate obligation T6x.unlink-slot)
        it.method(t, "data_", MM.make_parameter(env.sym(shape)))

    ops: Dict[str, Tuple[Callable, bool]] = {"update": (update, False), "call": (call, False), "disp": (disp, False),
                                              "clear_buffers": (clear, False), "condition_": (condition_, True)}
    if kind == "callable":
        ops["condition_(kw)"] = (condition_kw, True)
        ops["condition(kw) of a copy"] = (condition_copy, False)
        ops["network step"] = (net_step, False)
    else:
        ops["data(p) copy"] = (data_copy, True)
        ops["grid(g) copy"] = (grid_copy, True)
        ops["link_(other)"] = (link_, True)
        ops["unlink_ + data_(p)"] = (unlink_, True)
    if kind != "callable":
        ops["grid_"] = (grid_, True)  # with callable parameters the callable itself must follow the new grid: out of scope here
        ops["data_"] = (data_, True)
        ops["inplace-edit"] = (inplace, False)
        ops["reset_parameters"] = (reset, True)
    else:
        ops["reset_parameters"] = (reset, True)
    return ops


def run_histories(ctx: Ctx, max_len: int = 2, only_classes=None, only_kinds=None) -> None:
    prog = ctx.prog
    for mod, cls, _ in NONRIGID:
        ci = prog.cls(mod, cls)
        for c in prog.mro(ci):
            for m in c.methods.values():
                if m.name in ("update", "data_", "grid_", "condition_", "reset_parameters", "clear_buffers", "tensor", "fit", "evaluate",
                              "evaluate_spline", "data", "_data", "link_", "unlink_"):
                    ctx.fn(m)
    ctx.rule("T6x.call-fresh", "after every operation history (length <= bound) drawn from {data_, in-place edit, grid_, condition_, reset, update, "
                               "call, disp, clear_buffers}, calling the transform equals calling a twin whose buffers were recomputed from the "
                               "current parameters, grid and conditioning")
    ctx.rule("T6x.replace-fresh", "when the last operation replaced or reset state (data_, grid_, condition_, reset_parameters), tensor() and disp() "
                                  "immediately afterwards equal the freshly recomputed values (no stale buffer is served)")
    ctx.rule("T6x.regrid", "grid_(refined grid) on FFD / SVFFD re-expresses the coefficients: the spline evaluated on the new grid agrees with the "
                           "old spline at the coincident samples (function preserved); dense models keep the world displacement (vectors re-expressed "
                           "in the new grid's convention)")
    focus = getattr(ctx, "focus", None)
    if focus and not any(r.startswith(focus) for r in ("T6x.call-fresh", "T6x.replace-fresh")):
        return  # (mutation self-test of another rule)
    kinds = ["parameter", "buffer", "tensor", "callable"]
    # plus the dense models with resize=False (the buffered field is then the parameter tensor itself, not a resized copy)
    configs = NONRIGID + [(NONRIGID[0][0], NONRIGID[0][1], {"resize": False}), (NONRIGID[1][0], NONRIGID[1][1], {"steps": 1, "resize": False})]
    if only_classes is not None:
        configs = [c for c in configs if c[1] in only_classes]
    if only_kinds is not None:
        kinds = [k for k in kinds if k in only_kinds]
    PARTS = 3  # each (configuration, kind) is explored by three workers (every third history each)
    tasks = [(ctx, mod, cls, kw, kind, max_len, part) for mod, cls, kw in configs for kind in kinds for part in range(PARTS)]
    import multiprocessing as mp
    global _TASKS
    _TASKS = tasks
    try:
        with mp.get_context("fork").Pool(min(16, len(tasks))) as pool:
            results = pool.map(_history_worker, range(len(tasks)), chunksize=1)
    except (OSError, AssertionError):  # daemonic processes (mutant workers) cannot fork: run sequentially
        results = [_history_worker(i) for i in range(len(tasks))]
    merged: Dict[Tuple, List] = {}
    for (c, mod, cls, kw, kind, _, part), (n_seqs, example, bad_rep, bad_call, err) in zip(tasks, results):
        key = (mod, cls, tuple(sorted(kw.items())), kind)
        if key not in merged:
            merged[key] = [c, mod, cls, kw, kind, 0, example, [], [], ""]
        m_ = merged[key]
        m_[5] += n_seqs
        m_[7] += bad_rep
        m_[8] += bad_call
        m_[9] = m_[9] or err
    for (c, mod, cls, kw, kind, n_seqs, example, bad_rep, bad_call, err) in merged.values():
        if err:
            raise AnalysisError(f"T6x histories {cls}/{kind}: {err}")
        ci = prog.cls(mod, cls)
        anchor = prog.find_method(ci, "update")
        inst = f"{cls}:{kind}" + (":resize=False" if kw.get("resize") is False else "")
        ctx.ob("T6x.call-fresh", inst, not bad_call, {"histories": n_seqs, "example": example})
        ctx.ob("T6x.replace-fresh", inst, not bad_rep, {"histories": n_seqs})
        ctx.extra.setdefault("histories_explored", 0)
        ctx.extra["histories_explored"] += n_seqs
        for h in bad_rep[:3]:
            ctx.report("T6x.replace-fresh", anchor, f"class={cls} params={kind} history={h}",
                       f"{cls} ({kind} parameters): after history [{h}] tensor() serves a stale buffer (differs from recomputation "
                       f"from the current parameters/grid/conditioning)")
        for h in bad_call[:3]:
            ctx.report("T6x.call-fresh", anchor, f"class={cls} params={kind} history={h}",
                       f"{cls} ({kind} parameters): after history [{h}] calling the transform differs from a freshly recomputed twin")


_TASKS: List[Any] = []


def _history_worker(i: int):
    ctx, mod, cls, kw, kind, max_len, part = _TASKS[i]
    try:
        env = TEnv(ctx, 2)
        names = list(_ops(env, kind, cls))
        # all histories up to length 2 over every operation; longer ones (thorough tier) over the in-place core operations only
        core = [n for n in names if n in ("update", "call", "disp", "clear_buffers", "condition_", "grid_", "data_", "inplace-edit", "reset_parameters")]
        seqs = [s for n in range(1, min(max_len, 2) + 1) for s in itertools.product(names, repeat=n)]
        seqs += [s for n in range(3, max_len + 1) for s in itertools.product(core, repeat=n)]
        seqs = seqs[part::3]
        bad_call: List[str] = []
        bad_rep: List[str] = []
        first_only = getattr(ctx, "stop_when", None) is not None  # mutation self-test: one reported history is enough
        for seq in seqs:
            if first_only and (bad_call or bad_rep):
                break
            env = TEnv(ctx, 2)
            env.ctor_kw = kw
            it = env.it
            ops = _ops(env, kind, cls)
            try:
                t = env.make(mod, cls, kw, kind)
                it.method(t, "update")  # buffers are populated before the history starts (worst case for staleness)
                for name in seq:
                    r_ = ops[name][0](t)
                    if isinstance(r_, ModObj):
                        if r_ is t:
                            bad_rep.append(" -> ".join(seq) + ": functional setter returned the transform itself")
                        t = r_  # functional setters return a new transform: the history continues on it
                if ops[seq[-1]][1]:
                    got = it.method(t, "tensor")
                    want = fresh_tensor(it, t, getattr(env, "cond", None))
                    if not teq(got, want):
                        bad_rep.append(" -> ".join(seq))
                        continue
                x = STensor.symbols("x", [1, 2, env.D])
                want_c = clone_fresh(it, t, getattr(env, "cond", None))
                it.method(want_c, "update")
                want = it.method(want_c, "forward", x)
                got = it.call_value(t, [x], {})
                if not teq(got, want):
                    bad_call.append(" -> ".join(seq))
            except InterpError as e:
                # documented rejections of an operation (read-only callable parameters, unsupported re-gridding) end the history
                if e.exc_type in ("ReadOnlyParameters", "ValueError", "NotImplementedError"):
                    continue
                bad_call.append(" -> ".join(seq) + f" raises {e}")
        return len(seqs), " -> ".join(seqs[-1]), bad_rep, bad_call, ""
    except AnalysisError as e:
        return 0, "", [], [], str(e)


def run_regrid(ctx: Ctx, bspline: bool = True, dense: bool = True) -> None:
    prog = ctx.prog
    ctx.rule("T6x.regrid", "grid_(refined grid) on FFD / SVFFD re-expresses the coefficients: the spline evaluated on the new grid agrees with the "
                           "old spline at the coincident samples (function preserved); dense models keep the world displacement (vectors re-expressed "
                           "in the new grid's convention)")
    if bspline:
        _regrid_bspline(ctx)
    if dense:
        _regrid_dense(ctx)


def run_condition_copy(ctx: Ctx) -> None:
    """The functional form condition(*args, **kwargs): the returned copy is conditioned on exactly what was given."""
    prog = ctx.prog
    B = "deepali.spatial.base"
    fC = prog.func(B, "SpatialTransform.condition")
    fT = prog.func("deepali.spatial.transformer", "SpatialTransformer.condition")
    ctx.fn(fC)
    ctx.fn(fT)
    ctx.rule("T6x.condition-copy", "t.condition(a, gain=g), t.condition(a) and t.condition(gain=g) of a transform with predicted parameters — and "
                                   "the same calls on a SpatialTransformer wrapping it — return a new object that holds exactly that "
                                   "conditioning (positional and keyword part; a keyword-only call is a setter call too, not the getter) and, "
                                   "when called, evaluates the prediction for it; the receiver keeps its own conditioning")
    mod, cls, kw = NONRIGID[0]
    forms = [("positional+keyword", ("A",), {"gain": "G"}), ("positional", ("A",), {}), ("keyword only", (), {"gain": "G"})]
    for wrapper in (False, True):
        for what, a_, k_ in forms:
            def th(wrapper=wrapper, what=what, a_=a_, k_=k_):
                env = TEnv(ctx, 2)
                it = env.it
                t = env.make(mod, cls, kw, "callable")
                it.method(t, "condition_", Rat.atom("c0"))
                it.method(t, "update")
                recv = t
                if wrapper:
                    recv = it.new(prog.cls("deepali.spatial.transformer", "PointSetTransformer"), t)
                args = tuple(Rat.atom(x) for x in a_)
                kwargs = {k: Rat.atom(v) for k, v in k_.items()}
                r = it.method(recv, "condition", *args, **kwargs)
                if isinstance(r, tuple):
                    return False, (f"condition({what}) returned the current conditioning {r!r:.60} instead of a newly conditioned object "
                                   f"(the keyword arguments were not recognised as a request to condition)")
                if r is recv:
                    return False, "condition(...) returned the receiver itself"
                got = it.method(r, "condition")
                want = (tuple(args), dict(kwargs))
                if tuple(got[0]) != want[0] or dict(got[1]) != want[1]:
                    return False, (f"condition({what}): the returned object is conditioned on {tuple(got[0])!r}, {dict(got[1])!r} — not on the "
                                   f"arguments given {want[0]!r}, {want[1]!r}")
                inner = it.getattr(r, "transform") if wrapper else r
                inner = it.call_value(inner, [], {}) if callable(inner) and not isinstance(inner, ModObj) else inner
                if not teq(it.method(inner, "tensor"), fresh_tensor(it, inner, cond=want)):
                    return False, f"condition({what}): the returned transform does not evaluate the prediction for its conditioning"
                return True, ""
            _guard(ctx, "T6x.condition-copy", f"{'transformer' if wrapper else 'transform'}:{what}", fT if wrapper else fC,
                   f"{'SpatialTransformer' if wrapper else 'SpatialTransform'}.condition({what})", th)


def run_linked_reset(ctx: Ctx) -> None:
    """C09 'resets ... and link creation': resetting through a linked transform leaves no stale buffered field on either side's next view."""
    prog = ctx.prog
    fR = prog.func("deepali.spatial.parametric", "ParametricTransform.reset_parameters")
    ctx.fn(fR)
    ctx.rule("T6x.linked-reset", "for DDF / SVF / FFD / SVFFD with buffered displacement fields: after t2.link_(t1) (and, for the velocity models, "
                                 "t2 = t1.inverse(link=True)) and an evaluation of both, t2.reset_parameters() — and likewise t1.reset_parameters() "
                                 "followed by update() of the linked side — is followed by tensor() / disp() of the transform it was called on that "
                                 "equal the field recomputed by an explicit update() (the reset state), not the field buffered before the reset")
    from .t67_transforms import NONRIGID
    for mod, cls, kw in NONRIGID:
        for how in ("link_",) + (("inverse(link=True)",) if "Velocity" in cls else ()):
            def th(mod=mod, cls=cls, kw=kw, how=how):
                env = TEnv(ctx, 2)
                it = env.it
                t1 = env.make(mod, cls, dict(kw), "buffer")
                it.method(t1, "update")
                if how == "link_":
                    t2 = env.make(mod, cls, dict(kw), "buffer")
                    it.method(t2, "link_", t1)
                else:
                    t2 = it.method(t1, "inverse", link=True)
                it.method(t2, "update")
                before = it.method(t2, "tensor").clone()
                if all(to_rat(v).is_zero() for v in before.flat()):
                    raise AnalysisError(f"T6x.linked-reset: the linked {cls} evaluates to zero before the reset (adaptor)")
                it.method(t2, "reset_parameters")
                got_t = it.method(t2, "tensor").clone()
                got_d = it.method(t2, "disp").clone()
                it.method(t2, "update")
                want_t = it.method(t2, "tensor")
                want_d = it.method(t2, "disp")
                if not teq(got_t, want_t) or not teq(got_d.plain() if hasattr(got_d, "plain") else got_d, want_d.plain() if hasattr(want_d, "plain") else want_d):
                    stale = teq(got_t, before)
                    return False, (f"{cls} linked by {how}: tensor() / disp() right after reset_parameters() of the linked transform "
                                   f"{'still return the field buffered before the reset' if stale else 'differ from the field recomputed by update()'}")
                return True, ""
            _guard(ctx, "T6x.linked-reset", f"{cls}:{how}", fR, f"class={cls} linked by {how}", th)


def run_fit(ctx: Ctx) -> None:
    """DisplacementFieldTransform.fit(flow) with tensor parameters is exact: the transform then *is* that flow, whatever it buffered before."""
    prog = ctx.prog
    mod, cls, kw = NONRIGID[0]
    ci = prog.cls(mod, cls)
    fF = prog.find_method(ci, "fit")
    ctx.fn(fF)
    ctx.fn(prog.func("deepali.spatial.base", "SpatialTransform.fit"))
    ctx.rule("T6x.fit", "DisplacementFieldTransform.fit(flow) with parameters held as Parameter / buffer, from populated buffers, for a flow on "
                        "the transform's own grid given in WORLD, GRID or the cube axes of either convention: afterwards data(), tensor() and "
                        "a call on points serve exactly the given flow expressed in the transform's axes (vectors multiplied by the linear part "
                        "of the grid's own map between those axes) — no stale buffer, no second conversion")
    for kind in ("parameter", "buffer"):
        for ac in (True, False):
            for axname in ("WORLD", "GRID", "CUBE", "CUBE_CORNERS"):
                def th(kind=kind, ac=ac, axname=axname):
                    env = TEnv(ctx, 2)
                    it = env.it
                    g = it.new(env.Grid, size=env.size, spacing=(2, 3), align_corners=ac)
                    env.grid = g
                    t = env.make(mod, cls, kw, kind)
                    it.method(t, "update")
                    Axes = prog.cls("deepali.core.grid", "Axes")
                    FF = prog.cls("deepali.data.flow", "FlowFields")
                    ax = it.enum(Axes, axname)
                    own = it.enum(Axes, "CUBE_CORNERS" if ac else "CUBE")
                    v = env.sym([1, 2] + list(reversed(env.size)))
                    flow = it.new(FF, v.clone(), g, ax)
                    it.method(t, "fit", flow)
                    A = it.method(g, "transform", ax, own, vectors=True)
                    want = symt.matmul(A, v.permute([0, 2, 3, 1]).unsqueeze(-1)).squeeze(-1).permute([0, 3, 1, 2])
                    for what in ("data", "tensor"):
                        got = it.method(t, what)
                        if list(got.shape) != list(want.shape) or not teq(got, want):
                            return False, (f"after fit(flow in {axname} axes) {what}() is not the flow expressed in the transform's axes "
                                           f"(first {to_rat(got.flat()[0])} expected {to_rat(want.flat()[0])})")
                    if not teq(it.method(t, "tensor"), fresh_tensor(it, t)):
                        return False, "after fit(flow) the buffered displacement is not the one recomputed from the parameters"
                    return True, ""
                _guard(ctx, "T6x.fit", f"{kind}:{ac}:{axname}", fF, f"class={cls} params={kind} align_corners={ac} flow axes={axname}", th)


def run_unlink_slot(ctx: Ctx) -> None:
    """After unlink_() the transform accepts new parameters given as a plain tensor (the documented argument type of data_)."""
    prog = ctx.prog
    ctx.rule("T6x.unlink-slot", "a transform that was linked and unlinked again (link_(other); unlink_()), or an optimisable transform after "
                                "unlink_(), accepts data_(tensor) — the documented argument type — and then uses exactly those parameters")
    mod, cls, kw = NONRIGID[0]
    ci = prog.cls(mod, cls)
    fU = prog.find_method(ci, "unlink_")
    ctx.fn(fU)
    for hist in ("link_(other) -> unlink_ -> data_(tensor)", "parameter: unlink_ -> data_(tensor)", "buffer: unlink_ -> data_(tensor)"):
        def th(hist=hist):
            env = TEnv(ctx, 2)
            it = env.it
            kind = "parameter" if hist.startswith("parameter") else "buffer"
            t = env.make(mod, cls, kw, kind)
            it.method(t, "update")
            if hist.startswith("link_"):
                it.method(t, "link_", env.make(mod, cls, kw, "buffer"))
            it.method(t, "unlink_")
            p = env.sym([1] + list(it.getattr(t, "data_shape")))
            it.method(t, "data_", p.clone())
            got = it.method(t, "tensor")
            if not teq(got, fresh_tensor(it, t)) or not teq(it.method(t, "data"), p):
                return False, "after unlink_() and data_(tensor) the transform does not use the given parameters"
            return True, ""
        _guard(ctx, "T6x.unlink-slot", hist, fU, f"history={hist}", th)


def _regrid_bspline(ctx: Ctx) -> None:
    prog = ctx.prog
    # B-spline models: subdivision keeps the function
    for mod, cls, kw in NONRIGID[2:]:
        ci = prog.cls(mod, cls)
        fG = prog.find_method(ci, "grid_")
        ctx.fn(fG)
        for D in (2,):
            def th(mod=mod, cls=cls, kw=kw, D=D):
                env = TEnv(ctx, D)
                it = env.it
                t = env.make(mod, cls, kw, "parameter")
                spline_name = "evaluate_spline"
                before = it.method(t, spline_name)
                it.method(t, "grid_", env.grid2)
                after = it.method(t, spline_name)
                if list(after.shape[2:]) != [2 * n - 1 for n in before.shape[2:]]:
                    return False, f"evaluated field shape {tuple(after.shape)} after refining {tuple(before.shape)}"
                # coincident samples: new index 2 i <-> old index i
                sl = (slice(None), slice(None)) + tuple(slice(0, None, 2) for _ in range(D))
                sub = after[sl]
                if not teq(sub, before):
                    diff = [i for i, (a, b) in enumerate(zip(sub.flat(), before.flat())) if not to_rat(a).equals(to_rat(b))]
                    return False, (f"refining the control grid changed the spline at {len(diff)} of {before.numel()} coincident samples "
                                   f"(first: {to_rat(sub.flat()[diff[0]])} vs {to_rat(before.flat()[diff[0]])})"[:400])
                return True, ""
            _guard(ctx, "T6x.regrid", f"{cls}:D={D}", fG, f"class={cls} D={D} subdivision", th)

            def thbad(mod=mod, cls=cls, kw=kw, D=D):
                # grids that do NOT cover the current domain (same extent, shifted centre / other orientation; same centre, other extent):
                # the coefficients cannot be carried over by subdivision, so grid_() must refuse them — accepting one silently reads the
                # unchanged coefficients over another world domain (the deformation moves)
                env = TEnv(ctx, D)
                it = env.it
                n = list(env.size)
                cases = {
                    "same size, centre shifted by one sample": dict(size=tuple(n), center=(1,) + (0,) * (D - 1)),
                    "refined size, centre shifted by half a sample": dict(size=tuple(2 * k - 1 for k in n), spacing=Fraction(1, 2),
                                                                         center=(Fraction(1, 2),) + (0,) * (D - 1)),
                    "same size and extent, axes flipped": dict(size=tuple(n), direction=symt.diag(STensor.from_flat([-1] + [1] * (D - 1), [D]))),
                    "same size, larger spacing": dict(size=tuple(n), spacing=2),
                }
                for what, gkw in cases.items():
                    t = env.make(mod, cls, kw, "parameter")
                    g = it.new(env.Grid, **gkw)
                    try:
                        it.method(t, "grid_", g)
                    except InterpError as e:
                        if e.exc_type == "ValueError":
                            continue
                        raise
                    return False, (f"grid_() accepted a grid that does not cover the transform's domain ({what}): the coefficients are now read "
                                   f"over another world domain")
                return True, ""
            _guard(ctx, "T6x.regrid", f"{cls}:D={D}:foreign", fG, f"class={cls} D={D} grid of another domain", thbad)


def _regrid_dense(ctx: Ctx) -> None:
    prog = ctx.prog
    # dense models: vectors re-expressed when the convention changes
    ciD = prog.cls("deepali.spatial.nonrigid", "DenseVectorFieldTransform")
    fD = prog.find_method(ciD, "grid_")
    ctx.fn(fD)
    for mod, cls, kw in NONRIGID[:2]:
        for ac_from, ac_to in ((True, False), (False, True)):
            def thflag(mod=mod, cls=cls, kw=kw, ac_from=ac_from, ac_to=ac_to):
                # the same sampling points, only the align_corners convention of the grid changes (Grid.__eq__ ignores the flag)
                env = TEnv(ctx, 2)
                it = env.it
                g1 = it.new(env.Grid, size=(5, 4), spacing=(2, 3), align_corners=ac_from)
                g2 = it.method(g1, "align_corners", ac_to)
                env.grid = g1
                t = env.make(mod, cls, kw, "parameter")
                p0 = it.method(t, "data").clone()
                it.method(t, "grid_", g2)
                p1 = it.method(t, "data")
                held = it.method(t, "grid")
                Axes = env.prog.cls("deepali.core.grid", "Axes")
                ax = lambda f: it.enum(Axes, "CUBE_CORNERS" if f else "CUBE")
                W = it.enum(Axes, "WORLD")
                flag = bool(it.method(held, "align_corners"))
                # whatever grid the transform now holds, its parameters must describe the same world-space vectors as before
                A_new = it.method(held, "transform", ax(flag), W, vectors=True)
                A_old = it.method(g1, "transform", ax(ac_from), W, vectors=True)
                w1 = symt.matmul(A_new, p1.permute([0, 2, 3, 1]).unsqueeze(-1)).squeeze(-1)
                w0 = symt.matmul(A_old, p0.permute([0, 2, 3, 1]).unsqueeze(-1)).squeeze(-1)
                if not teq(w1, w0):
                    return False, (f"grid_(same grid with align_corners={ac_to}): the transform holds a grid with align_corners={flag} but its "
                                   f"parameters are expressed in the other convention — the world-space field changed "
                                   f"(first {to_rat(w1.flat()[0])} expected {to_rat(w0.flat()[0])})")
                if flag != ac_to:
                    return False, f"grid_(same grid with align_corners={ac_to}) keeps a grid with align_corners={flag}"
                if "StationaryVelocity" in cls and bool(it.getattr(it.getattr(t, "exp"), "align_corners")) != flag:
                    return False, "the exponential map uses another convention than the grid the transform holds"
                return True, ""
            _guard(ctx, "T6x.regrid", f"{cls}:flag-only:{ac_from}->{ac_to}", fD, f"class={cls} same grid, align_corners {ac_from}->{ac_to}", thflag)
        for ac_from, ac_to in ((True, False), (False, True), (True, True)):
            def thd(mod=mod, cls=cls, kw=kw, ac_from=ac_from, ac_to=ac_to):
                env = TEnv(ctx, 2)
                it = env.it
                g1 = it.new(env.Grid, size=(5, 5), align_corners=ac_from)
                g2 = it.new(env.Grid, size=(5, 5), spacing=(2, 2), align_corners=ac_to)  # different domain so that grid_ proceeds
                env.grid = g1
                t = env.make(mod, cls, kw, "parameter")
                del symt.GRID_SAMPLE_CALLS[:]
                p0 = it.method(t, "data").clone()
                it.method(t, "grid_", g2)
                p1 = it.method(t, "data")
                calls = list(symt.GRID_SAMPLE_CALLS)
                if it.method(t, "grid") is not g2:
                    return False, "grid not replaced"
                if "exp" in t.attrs.get("_modules", {}) or hasattr(t, "attrs") and "StationaryVelocity" in cls:
                    ex = it.getattr(t, "exp")
                    if bool(it.getattr(ex, "align_corners")) != bool(ac_to):
                        return False, f"after grid_() the exponential map still uses align_corners={it.getattr(ex, 'align_corners')}"
                if not calls:
                    return False, "parameters were not resampled onto the new grid"
                # the resampled field (opaque values) must be rescaled from the old to the new normalised units:
                # u_new = T_g2[WORLD->cube_to] o T_g1[cube_from->WORLD] (linear parts) applied to the sampled vectors
                sampled = symt.grid_sample(calls[-1]["input"], calls[-1]["grid"], calls[-1]["mode"], calls[-1]["padding_mode"], calls[-1]["align_corners"])
                Axes = env.prog.cls("deepali.core.grid", "Axes")
                ax = lambda f: it.enum(Axes, "CUBE_CORNERS" if f else "CUBE")
                W = it.enum(Axes, "WORLD")
                A1 = symt.matmul(it.method(g2, "transform", W, ax(ac_to), vectors=True), it.method(g1, "transform", ax(ac_from), W, vectors=True))
                want = symt.matmul(A1, sampled.permute([0, 2, 3, 1]).unsqueeze(-1)).squeeze(-1).permute([0, 3, 1, 2])
                if not teq(p1, want):
                    return False, (f"after grid_() with align_corners {ac_from} -> {ac_to} the parameters are not the resampled vectors "
                                   f"re-expressed in the new grid's convention: first {to_rat(p1.flat()[0])} expected {to_rat(want.flat()[0])}")
                return True, ""
            _guard(ctx, "T6x.regrid", f"{cls}:{ac_from}->{ac_to}", fD, f"class={cls} align_corners {ac_from}->{ac_to}", thd)


# ------------------------------------------------------------------------------------------------ composites / linked inverses
class HostDictCallable(tae.HostObject):
    """A callable standing in for a network that predicts a dictionary of component parameters from the conditioning input."""

    is_module = False

    def __init__(self, shapes: Dict[str, Sequence[int]]):
        self.shapes = {k: list(v) for k, v in shapes.items()}
        self.last = None

    def __call__(self, *args, **kwargs):
        out = {}
        for k, shape in self.shapes.items():
            base = STensor.symbols(f"net_{k}_", shape)
            out[k] = base.mul(args[0]) if args and isinstance(args[0], (STensor, Rat, int, Fraction)) else base
        self.last = out  # the tensors handed out by the most recent call (identity is checked by T20.generic-leaf)
        return out


def run_composite_histories(ctx: Ctx) -> None:
    prog = ctx.prog
    C = "deepali.spatial.composite"
    fU = prog.func(C, "CompositeTransform.update")
    fGI = prog.func("deepali.spatial.generic", "GenericSpatialTransform.inverse")
    fGU = prog.func("deepali.spatial.generic", "GenericSpatialTransform.update")
    for f in (fU, fGI, fGU, prog.func(C, "CompositeTransform.clear_buffers")):
        ctx.fn(f)
    ctx.rule("T6x.composite", "a composite (SequentialTransform of a linear member with predicted parameters and a dense member) called after any "
                              "history of re-conditioning / replacing / editing / clearing operations on its members equals the composition of "
                              "freshly recomputed twins of its members (every member's cached state is refreshed by the composite's update)")
    ctx.rule("T6x.linked-inverse", "the linked inverse (inverse(link=True), .inv) of a transform with predicted parameters — stand-alone, member "
                                   "of a composite, or a GenericSpatialTransform driven by one network — evaluates the parameters its counterpart "
                                   "holds at the moment of the call: after re-conditioning the original and calling it, inv(t(x)) = x")
    Seq = prog.cls(C, "SequentialTransform")
    Tr = prog.cls("deepali.spatial.linear", "Translation")
    DDF = prog.cls("deepali.spatial.nonrigid", "DisplacementFieldTransform")

    def build(env):
        it = env.it
        lin = it.new(Tr, env.grid, params=HostCallable([1, 2], tag="tnet"))
        it.method(lin, "condition_", Rat.atom("c0"))
        ddf = it.new(DDF, env.grid, params=False)
        env.randomize(ddf)
        seq = it.new(Seq, lin, ddf)
        return seq, lin, ddf

    def ops(env, seq, lin, ddf):
        it = env.it

        def recond():
            env.counter += 1
            it.method(lin, "condition_", Rat.atom(f"c{env.counter}"))

        def data_():
            it.method(ddf, "data_", env.sym(list(it.method(ddf, "data").shape)))

        def inplace():
            p = it.method(ddf, "data")
            p.add_(env.sym(list(p.shape)))

        def call():
            it.call_value(seq, [STensor.symbols("x", [1, 2, 2])], {})
        return {"member.condition_": recond, "member.data_": data_, "member.inplace-edit": inplace, "update": lambda: it.method(seq, "update"),
                "call": call, "clear_buffers": lambda: it.method(seq, "clear_buffers"), "disp": lambda: it.method(seq, "disp")}

    names = ["member.condition_", "member.data_", "member.inplace-edit", "update", "call", "clear_buffers", "disp"]
    seqs = [s for n in (1, 2) for s in itertools.product(names, repeat=n)]

    def th_hist():
        bad = []
        for hist in seqs:
            env = TEnv(ctx, 2)
            it = env.it
            seq, lin, ddf = build(env)
            it.method(seq, "update")
            table = ops(env, seq, lin, ddf)
            for name in hist:
                table[name]()
            x = STensor.symbols("x", [1, 2, 2])
            got = it.call_value(seq, [x], {})
            c1, c2 = clone_fresh(it, lin), clone_fresh(it, ddf)
            it.method(c1, "update")
            it.method(c2, "update")
            want = it.method(c2, "forward", it.method(c1, "forward", x))
            if not teq(got, want):
                bad.append(" -> ".join(hist))
        if bad:
            return False, f"{len(bad)} of {len(seqs)} histories end in a call that does not use the members' current state, e.g. {bad[0]}"
        return True, ""
    _guard(ctx, "T6x.composite", "sequential(translation[callable], ddf)", fU, "composite histories up to length 2", th_hist)

    # linked inverses
    def th_link_member():
        env = TEnv(ctx, 2)
        it = env.it
        lin = it.new(Tr, env.grid, params=HostCallable([1, 2], tag="tnet"))
        it.method(lin, "condition_", Rat.atom("c0"))
        rot = it.new(prog.cls("deepali.spatial.linear", "AnisotropicScaling"), env.grid, params=False)
        p = it.method(rot, "data")
        for i, v in zip(p.idx, [Rat.atom("k0"), Rat.atom("k1")]):
            p.store[i] = v
            env.facts.declare_positive(v)
        seq = it.new(Seq, rot, lin)
        x = STensor.symbols("x", [1, 2, 2])
        it.call_value(seq, [x], {})
        for via in ("inv", "inverse"):
            inv = it.getattr(seq, "inv") if via == "inv" else it.method(seq, "inverse", link=True)
            it.method(lin, "condition_", Rat.atom("c1" if via == "inv" else "c2"))
            y = it.call_value(seq, [x], {})
            x2 = it.call_value(inv, [y], {})
            if not teq(x2, x):
                return False, f"sequential composite: after re-conditioning a member, the linked inverse ({via}) taken before no longer inverts"
        return True, ""
    _guard(ctx, "T6x.linked-inverse", "sequential(scaling, translation[callable])", fU, "linked inverse of a composite", th_link_member)

    def th_link_generic():
        env = TEnv(ctx, 2)
        it = env.it
        G = "deepali.spatial.generic"
        cfg = Obj(prog.cls(G, "TransformConfig"))
        cfg.attrs.update({"transform": "Affine", "affine_model": "TS", "rotation_model": "ZXZ", "control_point_spacing": 1,
                          "scaling_and_squaring_steps": 1, "flip_grid_coords": False})
        net = HostDictCallable({"translation": [1, 2], "scaling": [1, 2]})
        t = it.new(prog.cls(G, "GenericSpatialTransform"), env.grid, params=net, config=cfg)
        it.method(t, "condition_", Rat.atom("c0"))
        x = STensor.symbols("x", [1, 2, 2])
        it.call_value(t, [x], {})
        for via in ("inv", "inverse"):
            inv = it.getattr(t, "inv") if via == "inv" else it.method(t, "inverse", link=True)
            it.method(t, "condition_", Rat.atom("c1" if via == "inv" else "c2"))
            y = it.call_value(t, [x], {})
            x2 = it.call_value(inv, [y], {})
            if not teq(x2, x):
                return False, (f"GenericSpatialTransform with predicted parameters: after re-conditioning and calling the transform, the linked "
                               f"inverse ({via}) taken before does not invert it (its members evaluate stale parameters)")
        return True, ""
    _guard(ctx, "T6x.linked-inverse", "generic[callable]", fGI, "linked inverse of GenericSpatialTransform", th_link_generic)


def run_generic_leaf(ctx: Ctx) -> None:
    """GenericSpatialTransform driven by a network: the components use the predicted tensors themselves (no re-wrapping as Parameter)."""
    prog = ctx.prog
    G = "deepali.spatial.generic"
    fU = prog.func(G, "GenericSpatialTransform.update")
    fI = prog.func(G, "GenericSpatialTransform.__init__")
    ctx.fn(fU)
    ctx.fn(fI)
    ctx.rule("T20.generic-leaf", "GenericSpatialTransform whose parameters are predicted by a callable, or given with data_(dict): after update() "
                                 "every component (affine parts and the non-rigid part) holds the very tensor it was given — same storage, not a "
                                 "torch.nn.Parameter wrapped around it (a Parameter is a new autograd leaf: the producer of the values would get "
                                 "no gradient) — and update() takes no detach() / .data of the predicted tensors on the way")
    for model in ("Affine o SVF", "DDF o Affine", "SVF", "Affine"):
        def th(model=model):
            env = TEnv(ctx, 2)
            it = env.it
            cfg = Obj(prog.cls(G, "TransformConfig"))
            cfg.attrs.update({"transform": model, "affine_model": "TS", "rotation_model": "ZXZ", "control_point_spacing": 1,
                              "scaling_and_squaring_steps": 1, "flip_grid_coords": False})
            probe = it.new(prog.cls(G, "GenericSpatialTransform"), env.grid, params=False, config=cfg)
            shapes = {}
            for name, child in probe.attrs["_modules"]["_transforms"].items() if hasattr(probe.attrs["_modules"].get("_transforms"), "items") else []:
                shapes[name] = [1] + list(it.getattr(child, "data_shape"))
            if not shapes:
                raise AnalysisError("generic-leaf: could not enumerate the components of GenericSpatialTransform")
            net = HostDictCallable(shapes)
            t = it.new(prog.cls(G, "GenericSpatialTransform"), env.grid, params=net, config=cfg)
            it.method(t, "condition_", Rat.atom("c0"))
            del symt.GRAPH_EVENTS[:]
            it.method(t, "update")
            events = list(symt.GRAPH_EVENTS)
            for name, pred in (net.last or {}).items():
                hit = [b for b, sid in events if sid == id(pred.store)]
                if hit:
                    return False, (f"{model}: update() takes {hit[0]} of the values predicted for component '{name}' (the component is cut off "
                                   f"from the graph of the network that produced them)")
            for name, child in t.attrs["_modules"]["_transforms"].items():
                p = child.attrs.get("params", child.attrs.get("_parameters", {}).get("params"))
                if p is None:
                    p = child.attrs.get("_buffers", {}).get("params", child.attrs.get("_parameters", {}).get("params"))
                if isinstance(p, MM.Param):
                    return False, (f"{model}: component '{name}' ({child.cls.name}) holds the predicted values wrapped in a new "
                                   f"torch.nn.Parameter (fresh autograd leaf)")
                used = it.method(child, "data")
                pred = net.last.get(name) if hasattr(net, "last") else None
                if pred is not None and used.store is not pred.store:
                    return False, f"{model}: component '{name}' uses a copy of the predicted tensor, not the tensor itself"
            return True, ""
        _guard(ctx, "T20.generic-leaf", model, fU, f"transform={model!r} params=callable", th)
