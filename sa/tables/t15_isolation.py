"""T15: copy isolation by abstract execution (C15) — deep copies are independent; accessor copies of data tensors and
transforms leave the original as it was (state snapshot before/after)."""
from __future__ import annotations

from collections import OrderedDict
from fractions import Fraction
from typing import Any, Dict, List, Tuple

from .. import modmodel as MM
from .. import symt
from ..core import Ctx
from ..ring import Rat, reset_relations
from ..symt import InterpError, STensor, Unsupported, to_rat
from ..tae import EnumVal, Interp, ModObj, Obj, STObj
from .gridsym import fresh_facts
from .t1_grid import _guard, make_interp, teq


def snapshot(v, depth: int = 0, seen=None):
    """Structural snapshot of an interpreter value (tensor contents by value, containers recursively)."""
    seen = seen if seen is not None else {}
    if id(v) in seen:
        return ("ref", seen[id(v)])
    if isinstance(v, STObj):
        seen[id(v)] = len(seen)
        return ("tensorobj", v.cls.name, tuple(v.shape), tuple(repr(x) for x in v.flat()),
                tuple((k, snapshot(x, depth + 1, seen)) for k, x in sorted(v.attrs.items())))
    if isinstance(v, STensor):
        return ("tensor", type(v).__name__, tuple(v.shape), tuple(repr(x) for x in v.flat()))
    if isinstance(v, Obj):
        seen[id(v)] = len(seen)
        return ("obj", v.cls.name, tuple((k, snapshot(x, depth + 1, seen)) for k, x in sorted(v.attrs.items(), key=lambda kv: kv[0])))
    if isinstance(v, (MM.HModuleDict,)):
        return ("moduledict", tuple((k, snapshot(x, depth + 1, seen)) for k, x in v.items()))
    if isinstance(v, dict):
        return ("dict", tuple((repr(k), snapshot(x, depth + 1, seen)) for k, x in v.items()))
    if isinstance(v, (tuple, list)):
        return (type(v).__name__, tuple(snapshot(x, depth + 1, seen) for x in v))
    if isinstance(v, set):
        return ("set", tuple(sorted(map(repr, v))))
    if isinstance(v, (int, str, bool, Fraction, type(None), Rat, EnumVal)):
        return ("val", repr(v))
    return ("opaque", type(v).__name__)


def run(ctx: Ctx) -> None:
    prog = ctx.prog
    ctx.rule("T15.deepcopy", "copy.deepcopy of Grid, Cube, Image, ImageBatch, FlowField, FlowFields: data, grids and axes are equal, no tensor "
                             "storage and no Grid object is shared, and an in-place setter on either side leaves the other unchanged")
    ctx.rule("T15.accessor", "accessor forms that return a new object (Grid/Cube center/origin/spacing/direction/align_corners(x), "
                             "ImageBatch/Image grid(g), FlowFields axes(a)) leave the receiver's state snapshot unchanged")
    import copy as _copy
    Grid = prog.cls("deepali.core.grid", "Grid")
    Cube = prog.cls("deepali.core.cube", "Cube")
    IB = prog.cls("deepali.data.image", "ImageBatch")
    IM = prog.cls("deepali.data.image", "Image")
    FF = prog.cls("deepali.data.flow", "FlowFields")
    F1 = prog.cls("deepali.data.flow", "FlowField")
    Axes = prog.cls("deepali.core.grid", "Axes")

    def mk():
        reset_relations()
        fresh_facts()
        it = make_interp(ctx)
        g1 = it.new(Grid, size=(6, 4), spacing=(2, 3), center=(1, 1))
        g2 = it.new(Grid, size=(6, 4), spacing=(1, 2))
        return it, g1, g2

    def storages(v, out=None, seen=None):
        out = out if out is not None else set()
        seen = seen if seen is not None else set()
        if id(v) in seen:
            return out
        seen.add(id(v))
        if isinstance(v, STensor):
            out.add(id(v.store))
        if isinstance(v, (Obj, STObj)):
            out.add(("obj", id(v)))
            for x in v.attrs.values():
                storages(x, out, seen)
        elif isinstance(v, dict):
            for x in v.values():
                storages(x, out, seen)
        elif isinstance(v, (tuple, list)):
            for x in v:
                storages(x, out, seen)
        return out

    builders = {
        "Grid": lambda it, g1, g2: g1,
        "Cube": lambda it, g1, g2: it.method(g1, "cube"),
        "ImageBatch": lambda it, g1, g2: it.new(IB, STensor.symbols("I", [2, 1, 4, 6]), (g1, g2)),
        "Image": lambda it, g1, g2: it.new(IM, STensor.symbols("I", [1, 4, 6]), g1),
        "FlowFields": lambda it, g1, g2: it.new(FF, STensor.symbols("U", [2, 2, 4, 6]), (g1, g2), it.enum(Axes, "WORLD")),
        "FlowField": lambda it, g1, g2: it.new(F1, STensor.symbols("U", [2, 4, 6]), g1, it.enum(Axes, "GRID")),
    }
    for name, build in builders.items():
        cls = {"Grid": Grid, "Cube": Cube, "ImageBatch": IB, "Image": IM, "FlowFields": FF, "FlowField": F1}[name]
        fD = prog.find_method(cls, "__deepcopy__")
        if fD is not None:
            ctx.fn(fD)

        def th(build=build, name=name):
            it, g1, g2 = mk()
            x = build(it, g1, g2)
            before = snapshot(x)
            y = it._call_external("copy.deepcopy", [x], {}, None)
            if snapshot(y) != before:
                return False, "deep copy differs from the original (type, data, grid or axes)"
            sh = storages(x) & storages(y)
            if sh:
                return False, f"deep copy shares {len(sh)} tensor storage(s) / object(s) with the original"
            # mutate the copy in place, original must stay; and vice versa
            def poke(obj):
                if isinstance(obj, STObj):
                    obj.plain().add_(1)
                    for g in (obj.attrs.get("_grid") if isinstance(obj.attrs.get("_grid"), tuple) else [obj.attrs.get("_grid")]):
                        it.method(g, "center_", 5)
                else:
                    it.method(obj, "center_", 7)
            poke(y)
            if snapshot(x) != before:
                return False, "modifying the deep copy in place changed the original"
            after_y = snapshot(y)
            poke(x)
            if snapshot(y) != after_y:
                return False, "modifying the original in place changed the deep copy"
            return True, ""
        _guard(ctx, "T15.deepcopy", name, fD or prog.func("deepali.core.grid", "Grid.clone"), f"deepcopy {name}", th)

    # accessor copies
    acc = [("Grid", "center", (STensor.from_flat([4, 5], [2]),)), ("Grid", "origin", (STensor.from_flat([4, 5], [2]),)),
           ("Grid", "spacing", (STensor.from_flat([4, 5], [2]),)), ("Grid", "direction", (STensor.from_nested([[0, -1], [1, 0]]),)),
           ("Grid", "align_corners", (False,)), ("Grid", "resize", ((5, 4),)), ("Grid", "crop", (1,)), ("Grid", "downsample", ()),
           ("Cube", "center", (STensor.from_flat([4, 5], [2]),)), ("Cube", "origin", (STensor.from_flat([4, 5], [2]),)),
           ("Cube", "direction", (STensor.from_nested([[0, -1], [1, 0]]),)), ("Cube", "extent", (STensor.from_flat([4, 5], [2]),)),
           ("ImageBatch", "grid", "G"), ("Image", "grid", "G1"), ("FlowFields", "axes", "AX"), ("FlowField", "axes", "AX"),
           ("ImageBatch", "crop", (1,)), ("Image", "pad", (1,))]
    # every spatial operation of the image types, with explicit options that differ from the receiver's own settings
    FLIP = {"align_corners": False}  # the scenario grids are built with the default align_corners=True
    for owner in ("ImageBatch", "Image", "FlowFields"):
        acc += [(owner, "pyramid", ((2,), FLIP)), (owner, "pyramid", ((1,), {})), (owner, "resize", (((5, 3),), FLIP)),
                (owner, "downsample", ((1,), FLIP)), (owner, "upsample", ((1,), FLIP)), (owner, "center_crop", (((4, 2),), {})),
                (owner, "center_pad", (((8, 6),), {})), (owner, "region_of_interest", (((1, 1), (3, 2)), {})), (owner, "avg_pool", ((2,), {})),
                (owner, "sample", "G" if owner != "Image" else "G1")]
    acc += [("ImageBatch", "narrow", ((3, 1, 2), {})), ("ImageBatch", "resample", ((STensor.from_flat([3, 3], [2]),), {})) if False else
            ("ImageBatch", "narrow", ((2, 0, 2), {}))]
    for name, meth, args in acc:
        cls = {"Grid": Grid, "Cube": Cube, "ImageBatch": IB, "Image": IM, "FlowFields": FF, "FlowField": F1}[name]
        fm = prog.find_method(cls, meth)
        ctx.fn(fm)

        def tha(name=name, meth=meth, args=args):
            it, g1, g2 = mk()
            x = builders[name](it, g1, g2)
            before = snapshot(x)
            a = args
            if args == "G":
                a = ((it.new(Grid, size=(6, 4), spacing=5), it.new(Grid, size=(6, 4), spacing=6)),)
            elif args == "G1":
                a = (it.new(Grid, size=(6, 4), spacing=5),)
            elif args == "AX":
                a = (it.enum(Axes, "CUBE"),)
            kw = {}
            if isinstance(a, tuple) and len(a) == 2 and isinstance(a[1], dict) and isinstance(a[0], tuple):
                a, kw = a
            y = it.method(x, meth, *a, **kw)
            if y is x:
                return False, f"{name}.{meth}(x) returned the receiver itself"
            if snapshot(x) != before:
                return False, f"{name}.{meth}(x) changed the object it was called on"
            return True, ""
        desc = "" if not (isinstance(args, tuple) and len(args) == 2 and isinstance(args[1], dict)) else f" args={args[0]} {args[1]}"
        _guard(ctx, "T15.accessor", f"{name}.{meth}{desc}", fm, f"accessor {name}.{meth}{desc}", tha)


def run_transforms(ctx: Ctx) -> None:
    """Accessor copies of spatial transforms: the original keeps its parameters, buffers, grid and behaviour."""
    from .t6_transforms import TEnv, HostCallable
    prog = ctx.prog
    ctx.rule("T15.transform-accessor", "t.data(p), t.grid(g), t.condition(x), t.inverse(), t.unlink(), t.link(other), t.matrix(m) return a "
                                       "new transform and leave t exactly as it was (parameters, buffers, grid, conditioning, sub-modules), "
                                       "for linear and non-rigid models with parameters held as Parameter / buffer / callable")
    cases = [
        ("deepali.spatial.linear", "Translation", {}),
        ("deepali.spatial.linear", "EulerRotation", {}),
        ("deepali.spatial.nonrigid", "DisplacementFieldTransform", {}),
        ("deepali.spatial.nonrigid", "StationaryVelocityFieldTransform", {"steps": 1}),
        ("deepali.spatial.bspline", "FreeFormDeformation", {"stride": 2}),
    ]
    for mod, cls, kw in cases:
        ci = prog.cls(mod, cls)
        for kind in ("parameter", "buffer", "callable"):
            ops = ["data", "grid", "grid:other-flag", "condition", "inverse", "inverse:update_buffers", "inverse:link",
                   "inverse:link+update_buffers", "inv", "unlink", "link"]
            for op in ops:
                fm = prog.find_method(ci, op.split(":")[0])
                if fm is None:
                    continue
                ctx.fn(fm)

                def th(mod=mod, cls=cls, kw=kw, kind=kind, op=op):
                    env = TEnv(ctx, 2)
                    it = env.it
                    t = env.make(mod, cls, kw, kind)
                    it.method(t, "update")
                    before = snapshot(t)
                    try:
                        if op == "data":
                            p = it.method(t, "data")
                            r = it.method(t, "data", env.sym(list(p.shape)))
                        elif op == "grid":
                            r = it.method(t, "grid", env.grid2)
                        elif op == "grid:other-flag":
                            # the refined grid with the other align_corners convention
                            g3 = it.new(env.Grid, size=tuple(2 * n - 1 for n in env.size), spacing=Fraction(1, 2), align_corners=False)
                            r = it.method(t, "grid", g3)
                        elif op == "condition":
                            r = it.method(t, "condition", Rat.atom("condX"))
                        elif op == "inverse":
                            r = it.method(t, "inverse")
                        elif op.startswith("inverse:"):
                            r = it.method(t, "inverse", link="link" in op, update_buffers="update_buffers" in op)
                        elif op == "inv":
                            r = it.getattr(t, "inv")
                        elif op == "unlink":
                            r = it.method(t, "unlink")
                        else:
                            other = env.make(mod, cls, kw, kind)
                            r = it.method(t, "link", other)
                    except InterpError as e:
                        if e.exc_type in ("NotImplementedError", "ValueError", "ReadOnlyParameters"):
                            return True, f"rejected: {e.exc_type}"
                        symptom[0] = f"raises:{e.exc_type}"
                        return False, f"{cls}.{op}() with {kind} parameters raises {e}"
                    if r is t:
                        return False, f"{op}() returned the receiver itself"
                    after = snapshot(t)
                    if after != before:
                        diff = _first_diff(before, after)
                        cont = [p for p in diff.split("/") if p.startswith("_")][:1]
                        symptom[0] = "original-changed:" + (cont[0] if cont else "state")
                        return False, f"{cls}.{op}() with {kind} parameters changed the original transform: {diff}"
                    return True, ""
                symptom = [""]
                try:
                    ok, detail = th()
                except InterpError as e:
                    ok, detail = False, f"raises {e}"
                    symptom[0] = f"raises:{e.exc_type}"
                ctx.ob("T15.transform-accessor", f"{cls}:{kind}:{op}", ok, {"detail": detail[:160]})
                if not ok:
                    # keyed by the defining method and the symptom, not by the concrete class: one defect, one finding
                    # (variants of one accessor share the key: one defect, one finding)
                    ctx.report("T15.transform-accessor", fm, f"accessor={op.split(':')[0] if op.startswith('grid') else op} params={kind} "
                                                             f"symptom={symptom[0]}", detail[:300])

    # composites: the functional accessors of a SequentialTransform must leave its member transforms as they were
    Seq = prog.cls("deepali.spatial.composite", "SequentialTransform")
    Tr = prog.cls("deepali.spatial.linear", "Translation")
    DDF = prog.cls("deepali.spatial.nonrigid", "DisplacementFieldTransform")
    for op in ("condition", "grid", "inverse"):
        fm = prog.find_method(Seq, op)
        ctx.fn(fm)

        def thc(op=op):
            env = TEnv(ctx, 2)
            it = env.it
            lin = it.new(Tr, env.grid, params=HostCallable([1, 2], tag="tnet"))
            ddf = it.new(DDF, env.grid, params=False)
            env.randomize(ddf)
            seq = it.new(Seq, lin, ddf)
            it.method(seq, "condition_", Rat.atom("c0"))
            it.method(seq, "update")
            before = snapshot(seq)
            try:
                if op == "condition":
                    r = it.method(seq, "condition", Rat.atom("c1"))
                elif op == "grid":
                    r = it.method(seq, "grid", env.grid2)
                else:
                    r = it.method(seq, "inverse")
            except InterpError as e:
                if e.exc_type in ("NotImplementedError", "ValueError", "ReadOnlyParameters"):
                    return True, f"rejected: {e.exc_type}", ""
                return False, f"SequentialTransform.{op}() raises {e}", f"raises:{e.exc_type}"
            if r is seq:
                return False, f"{op}() returned the receiver itself", "same-object"
            after = snapshot(seq)
            if after != before:
                diff = _first_diff(before, after)
                return False, f"SequentialTransform.{op}() changed the original composite (its member transforms): {diff}", "original-changed:members"
            return True, "", ""
        ok, detail, sym = thc()
        ctx.ob("T15.transform-accessor", f"SequentialTransform:{op}", ok, {"detail": detail[:160]})
        if not ok:
            ctx.report("T15.transform-accessor", fm, f"accessor={op} composite=SequentialTransform symptom={sym}", detail[:300])


def run_transformer_accessors(ctx: Ctx) -> None:
    """SpatialTransformer (image / point set transformers) wrap a transform: their functional accessor leaves the wrapped transform alone."""
    from .t6_transforms import TEnv, NONRIGID
    prog = ctx.prog
    T = "deepali.spatial.transformer"
    fm = prog.func(T, "SpatialTransformer.condition")
    ctx.fn(fm)
    mod, cls, kw = NONRIGID[0]
    for wname in ("PointSetTransformer", "ImageTransformer"):
        for what, a_, k_ in (("positional", ("A",), {}), ("keyword", (), {"gain": "G"})):
            def th(wname=wname, a_=a_, k_=k_):
                env = TEnv(ctx, 2)
                it = env.it
                t = env.make(mod, cls, kw, "callable")
                it.method(t, "condition_", Rat.atom("c0"))
                it.method(t, "update")
                w = it.new(prog.cls(T, wname), t)
                before = snapshot(w)
                r = it.method(w, "condition", *[Rat.atom(x) for x in a_], **{k: Rat.atom(v) for k, v in k_.items()})
                if r is w:
                    return False, "condition(...) returned the receiver itself"
                after = snapshot(w)
                if after != before:
                    return False, (f"{wname}.condition(...) changed the transformer it was called on (the copy shares the wrapped transform): "
                                   f"{_first_diff(before, after)}")
                return True, ""
            _guard(ctx, "T15.transform-accessor", f"{wname}:condition:{what}", fm, f"accessor=condition wrapper={wname} form={what}", th)


def _first_diff(a, b, path="") -> str:
    if type(a) != type(b):
        return f"{path}: {str(a)[:60]} -> {str(b)[:60]}"
    if isinstance(a, tuple):
        if len(a) != len(b):
            return f"{path}: length {len(a)} -> {len(b)}"
        for i, (x, y) in enumerate(zip(a, b)):
            if x != y:
                key = x[0] if isinstance(x, tuple) and x and isinstance(x[0], str) else i
                return _first_diff(x, y, f"{path}/{key}")
        return path
    return f"{path}: {str(a)[:60]} -> {str(b)[:60]}"


def run_copy_evaluation(ctx: Ctx) -> None:
    """Evaluating a copy obtained from an accessor (inverse(), .inv, data(p)) leaves the original as it was ("subsequent behaviour")."""
    from .t67_transforms import LEnv, LINEAR, INVERSE_MODES, _mk_linear, _linear_cls, _change
    prog = ctx.prog
    ctx.rule("T15.copy-evaluation", "for every elementary linear model with fixed (buffer) or optimisable (Parameter) parameters: after "
                                    "c = t.inverse(link, update_buffers) / t.inv, *evaluating* c — update(), tensor(), c(points), checked after every single evaluation — leaves t's "
                                    "state snapshot, t's matrix and the parameter tensor the user handed to t unchanged (copies share parameter "
                                    "tensors with the original: an in-place operation on the way to the copy's matrix writes into the original)")
    for name, dims in LINEAR[:7]:
        ci = _linear_cls(ctx, name)
        fm = prog.find_method(ci, "tensor")
        ctx.fn(fm)
        D = dims[-1]
        for kind in ("buffer", "parameter"):
            def th(name=name, D=D, kind=kind):
                for link, upd, via in INVERSE_MODES:
                    env = LEnv(ctx, D, symbolic_grid=False)
                    it = env.it
                    t = _mk_linear(env, name, kind)
                    if kind == "buffer":
                        env.set_params(t)
                    else:
                        _change(env, t, "inplace")
                    it.method(t, "update")
                    held = it.method(t, "data")
                    held0 = held.clone()
                    M0 = it.method(t, "tensor").clone()
                    before = snapshot(t)
                    c = it.getattr(t, "inv") if via == "inv" else it.method(t, "inverse", link=link, update_buffers=upd)
                    x = STensor.symbols("x", [1, 2, D])
                    evaluations = [("update()", lambda: it.method(c, "update")), ("tensor()", lambda: it.method(c, "tensor")),
                                   ("call on points", lambda: it.call_value(c, [x], {})), ("tensor() again", lambda: it.method(c, "tensor"))]
                    for what, ev in evaluations:  # checked after every single evaluation: two in-place inversions would cancel
                        ev()
                        if snapshot(t) != before:
                            return False, (f"{name} ({kind} parameters): evaluating the inverse (link={link}, update_buffers={upd}, via={via}; "
                                           f"{what}) changed the original transform: {_first_diff(before, snapshot(t))}")
                        if not all(to_rat(a).equals(to_rat(b)) for a, b in zip(held.flat(), held0.flat())):
                            return False, f"{name} ({kind} parameters): evaluating the inverse ({what}) wrote into the original's parameter tensor"
                    M1 = it.method(t, "tensor")
                    if not all(to_rat(a).equals(to_rat(b)) for a, b in zip(M1.flat(), M0.flat())):
                        return False, f"{name} ({kind} parameters): after evaluating its inverse the original's matrix differs"
                return True, ""
            _guard(ctx, "T15.copy-evaluation", f"{name}:{kind}", fm, f"class={name} params={kind} evaluate the inverse", th)


def run_evaluation_pure(ctx: Ctx) -> None:
    """Evaluating a transform (tensor(), call, disp()) is a read: the parameters of the transform and of its members stay as they were."""
    from .t67_transforms import LEnv, LINEAR, _mk_linear, _linear_cls, _members
    prog = ctx.prog
    C = "deepali.spatial.composite"
    ctx.rule("T15.evaluation-pure", "tensor(), a call on points and disp() of every linear model, and of SequentialTransform / MultiLevelTransform "
                                    "composites of linear models holding fixed parameters (plain tensors: getters hand out the tensor itself), leave "
                                    "the parameter tensors of the transform and of every member unchanged — checked after each evaluation and "
                                    "twice (an accumulation into a member's matrix shows on the second evaluation at the latest)")

    def check(it, t, members, what):
        held = [it.method(m, "data") for m in members]
        held0 = [h.clone() for h in held]
        D = len(it.method(it.method(t, "grid"), "size"))
        x = STensor.symbols("x", [1, 2, D])
        for rnd in (1, 2):
            for ev_name, ev in (("tensor()", lambda: it.method(t, "tensor")), ("call", lambda: it.call_value(t, [x], {})),
                                ("disp()", lambda: it.method(t, "disp"))):
                try:
                    ev()
                except InterpError as e:
                    if e.exc_type == "NotImplementedError":
                        continue
                    raise
                for k, (h, h0) in enumerate(zip(held, held0)):
                    if not all(to_rat(a).equals(to_rat(b)) for a, b in zip(h.flat(), h0.flat())):
                        return False, (f"{what}: {ev_name} (evaluation {rnd}) wrote into the parameters of "
                                       f"{'the transform' if len(members) == 1 else f'member {k} ({members[k].cls.name})'}")
        return True, ""

    for name, dims in LINEAR:
        ci = _linear_cls(ctx, name)
        fm = prog.find_method(ci, "tensor")
        ctx.fn(fm)

        def th(name=name, D=dims[-1]):
            env = LEnv(ctx, D, symbolic_grid=False)
            t = _mk_linear(env, name, "buffer")
            env.set_params(t)
            return check(env.it, t, _members(env, t), name)
        _guard(ctx, "T15.evaluation-pure", name, fm, f"class={name} fixed parameters", th)
    for cname in ("SequentialTransform", "MultiLevelTransform"):
        ci = prog.cls(C, cname)
        fm = prog.find_method(ci, "tensor")
        ctx.fn(fm)
        for pair in (("HomogeneousTransform", "HomogeneousTransform"), ("Translation", "HomogeneousTransform"),
                     ("HomogeneousTransform", "AnisotropicScaling")):
            def thc(cname=cname, pair=pair, ci=ci):
                env = LEnv(ctx, 2, symbolic_grid=False)
                it = env.it
                ms = []
                for nm in pair:
                    m = _mk_linear(env, nm, "buffer")
                    env.set_params(m)
                    ms.append(m)
                t = it.new(ci, *ms)
                return check(it, t, ms, f"{cname}({', '.join(pair)})")
            _guard(ctx, "T15.evaluation-pure", f"{cname}:{'+'.join(pair)}", fm, f"composite={cname} members={'+'.join(pair)}", thc)
