"""T9: derived grids keep their place in the world (C03) — Grid derivation methods evaluated over the ring domain.

Oracle: the operation's documented index relation.  For every derivation g -> g' the check is the affine identity
    T_g'[GRID->WORLD]  =  T_g[GRID->WORLD] o A_op
where A_op (new index j -> old index i) is fixed by the operation's definition (crop: i = j + low; pad: i = j - low;
pool: i = k j + (k-1)/2; resize with corner alignment: i = j (n-1)/(n'-1); extent preserving: i = (j+1/2) n/n' - 1/2).
Geometry (spacing, center, direction) is symbolic; sizes and operation arguments are enumerated concretely, and a second
pass uses symbolic sizes n = N0 + m (m > 0) for the crop/pad family where the arithmetic is linear.
"""
from __future__ import annotations

import itertools
from fractions import Fraction
from typing import Any, Callable, Dict, List, Optional, Sequence, Tuple

from .. import symt
from ..core import Ctx
from ..index import AnalysisError
from ..ring import Rat, reset_relations
from ..symt import InterpError, STensor, Unsupported, simplify, to_rat
from ..tae import Interp, Obj
from .gridsym import fresh_facts, rotation
from .t1_grid import _guard, apply, as_h, compose, make_interp, teq, tstr


def diag_h(scale: Sequence[Any], offset: Sequence[Any]) -> STensor:
    D = len(scale)
    return symt.cat([symt.diag(STensor.from_flat(list(scale), [D])), STensor.from_flat(list(offset), [D]).unsqueeze(1)], dim=1)


class Env:
    def __init__(self, ctx: Ctx, D: int, size: Sequence[Any], ac: bool, symbolic_size: bool = False, fractional: bool = False):
        reset_relations()
        self.ctx = ctx
        self.D = D
        self.facts = fresh_facts()
        self.it = make_interp(ctx)
        prog = ctx.prog
        self.Grid = prog.cls("deepali.core.grid", "Grid")
        self.Axes = prog.cls("deepali.core.grid", "Axes")
        self.s = [Rat.atom(f"s{i}") for i in range(D)]
        self.c = [Rat.atom(f"c{i}") for i in range(D)]
        for x in self.s:
            self.facts.declare_positive(x)
        if symbolic_size:
            self.m = [Rat.atom(f"m{i}") for i in range(D)]
            for x in self.m:
                self.facts.integral |= set(x.num.atoms())
                self.facts.declare_positive(x)
            size = [x + 20 for x in self.m]
            size_arg = STensor.from_flat(size, [D])
        else:
            size_arg = tuple(size)
        self.size = list(size)
        self.R = rotation(D)
        self.ac = ac
        if fractional:
            # chains: the base grid is itself derived — downsample() of the odd size 2n-1 keeps the internal float size n - 1/2
            g0 = self.it.new(self.Grid, size=tuple(2 * n - 1 for n in size), spacing=STensor.from_flat(self.s, [D]),
                             center=STensor.from_flat(self.c, [D]), direction=self.R, align_corners=ac)
            self.g = self.it.method(g0, "downsample")
            if [int(x) for x in self.it.method(self.g, "size")] != list(size) or \
                    all(to_rat(x).equals(to_rat(y)) for x, y in zip(self.g.attrs["_size"].flat(), size)):
                raise InterpError("AssertionError", "downsample() of an odd-sized grid does not keep its non-integral internal size n - 1/2 (halving and doubling would not round-trip)")
        else:
            self.g = self.it.new(self.Grid, size=size_arg, spacing=STensor.from_flat(self.s, [D]),
                                 center=STensor.from_flat(self.c, [D]), direction=self.R, align_corners=ac)
        self.GW = self.gw(self.g)
        del symt.ROUND_EVENTS[:]

    def gw(self, g: Obj) -> STensor:
        return as_h(self.it.method(g, "transform", self.it.enum(self.Axes, "GRID"), self.it.enum(self.Axes, "WORLD")))

    def size_of(self, g: Obj) -> List[Any]:
        return [simplify(to_rat(x)) for x in self.it.method(g, "size_tensor").flat()]

    def check_rel(self, g2: Obj, scale, offset, size2=None) -> Tuple[bool, str]:
        """GW(g2) == GW(g) o (i = scale*j + offset), direction/align_corners unchanged, and optionally size."""
        ev = list(symt.ROUND_EVENTS)
        del symt.ROUND_EVENTS[:]
        if ev:
            # the library documents rounding for cube coordinates and grid indices only: the world position of a derived grid's samples
            # is in the user's unit (a grid with spacing 2.5e-7 m is as valid as one with 0.25 mm) and must not be quantised
            return False, f"the derivation rounded coordinates to {ev} decimals on the way to the world position of the derived grid"
        want = compose(self.GW, diag_h(scale, offset))
        got = self.gw(g2)
        if not teq(got, want):
            return False, f"index->world of result {tstr(got)[:150]} expected {tstr(want)[:150]}"
        if not teq(self.it.method(g2, "direction"), self.R):
            return False, "direction changed"
        if self.it.method(g2, "align_corners") != self.ac:
            return False, "align_corners flag changed"
        if size2 is not None:
            sz = self.size_of(g2)
            if not all(to_rat(a).equals(to_rat(b)) for a, b in zip(sz, size2)):
                return False, f"size {sz} expected {list(size2)}"
        return True, ""


def run_derived(ctx: Ctx) -> None:
    prog = ctx.prog
    G = "deepali.core.grid"
    F = {n: prog.func(G, f"Grid.{n}") for n in ("_resize", "resize", "reshape", "resample", "pool", "avg_pool", "downsample",
                                                "upsample", "pyramid", "crop", "pad", "center_crop", "center_pad", "narrow",
                                                "region_of_interest", "same_domain_as")}
    for f in F.values():
        ctx.fn(f)
    ctx.rule("T9.crop-family", "crop/pad/narrow/center_crop/center_pad/region_of_interest/pool: spacing and orientation kept, every "
                               "retained sample keeps its world position (new index j <-> old index given by the low-border margins), "
                               "new size = old -/+ (low + high)")
    ctx.rule("T9.resize-family", "resize/reshape/downsample/upsample/pyramid/resample: center and orientation kept; with "
                                 "align_corners the corner samples keep their world positions, otherwise the extent n*s is kept; "
                                 "cube extent equal on all pyramid levels; downsample∘upsample returns the original grid")
    ctx.rule("T9.noerror", "derivation succeeds (internal allclose assertions hold as exact identities)")
    ctx.assumptions += ["exact arithmetic: 'never reports an internal consistency error caused by floating-point rounding' is NOT "
                        "decided (only that the asserted identities hold exactly)"]
    _crop_family(ctx, F)
    _resize_family(ctx, F)


def _expect_crop(D: int, size: Sequence[Any], num: Sequence[int], sign: int):
    """num = (x_low, x_high, y_low, y_high, ...) missing trailing entries = 0; sign=+1 crop, -1 pad."""
    num = list(num) + [0] * (2 * D - len(num))
    low = [num[2 * d] for d in range(D)]
    high = [num[2 * d + 1] for d in range(D)]
    size2 = [size[d] - sign * (low[d] + high[d]) for d in range(D)]
    return [1] * D, [sign * l for l in low], size2


def _crop_family(ctx: Ctx, F) -> None:
    cases2 = [(7, 5), (8, 9)]
    cases3 = [(7, 5, 6)]
    nums = {2: [(1, 2, 0, 1), (2, 0), (0, 0, 3, 1), (-1, 2, 1, -2), 1, (1, 1, 1, 1)],
            3: [(1, 2, 0, 1, 2, 0), (0, 1), (-1, 0, 2, 1, 0, -2), 2]}
    margins = {2: [(1, 2), (0, 1), 2], 3: [(1, 0, 2), 1]}
    for D, sizes in ((2, cases2), (3, cases3)):
        for size0 in sizes + ["sym", "chain"]:
            for ac in (True, False):
                size = size0
                if size0 == "chain":
                    # operation chains: the family applied to a grid that is itself the result of downsample() (fractional internal size)
                    size = (8, 9, 7)[:D]
                    tag = f"D={D},size={size} after downsample,align_corners={ac}"
                    try:
                        env = Env(ctx, D, size, ac, fractional=True)
                    except InterpError as e:
                        _guard(ctx, "T9.crop-family", f"{tag}:base", F["downsample"], f"op=downsample (base of the chains) {tag}",
                               lambda e=e: (False, f"raises {e}"))
                        continue
                else:
                    env = Env(ctx, D, size if size != "sym" else [0] * D, ac, symbolic_size=(size == "sym"))
                    tag = f"D={D},size={size},align_corners={ac}"
                it, g = env.it, env.g
                sz = env.size
                for op, sign in (("crop", 1), ("pad", -1)):
                    for num in nums[D]:
                        tup = (num,) * (2 * D) if isinstance(num, int) else num
                        sc, off, size2 = _expect_crop(D, sz, tup, sign)
                        def th(op=op, num=num, sc=sc, off=off, size2=size2):
                            g2 = it.method(g, op, num=num)
                            return env.check_rel(g2, sc, off, size2)
                        _guard(ctx, "T9.crop-family", f"{tag}:{op}:num={num}", F[op], f"op={op} num={num} {tag}", th)
                    for mg in margins[D]:
                        mt = (mg,) * D if isinstance(mg, int) else mg
                        tup = tuple(x for m in mt for x in (m, m))
                        sc, off, size2 = _expect_crop(D, sz, tup, sign)
                        def th(op=op, mg=mg, sc=sc, off=off, size2=size2):
                            g2 = it.method(g, op, margin=mg)
                            g3 = it.method(g, op, *mg) if not isinstance(mg, int) else g2
                            a = env.check_rel(g2, sc, off, size2)
                            b = env.check_rel(g3, sc, off, size2)
                            return (a[0] and b[0]), a[1] or b[1]
                        _guard(ctx, "T9.crop-family", f"{tag}:{op}:margin={mg}", F[op], f"op={op} margin={mg} {tag}", th)
                # narrow
                for dim in range(D):
                    for start, length in ((2, 3), (0, 4)):
                        def th(dim=dim, start=start, length=length):
                            g2 = it.method(g, "narrow", dim, start, length)
                            off = [start if d == dim else 0 for d in range(D)]
                            size2 = [length if d == dim else sz[d] for d in range(D)]
                            return env.check_rel(g2, [1] * D, off, size2)
                        _guard(ctx, "T9.crop-family", f"{tag}:narrow:{dim}:{start}:{length}", F["narrow"], f"op=narrow dim={dim} start={start} {tag}", th)
                # region of interest
                for start, rsz in (((1, 2, 0)[:D], (3, 2, 4)[:D]), ((0, 0, 1)[:D], (4, 3, 2)[:D]),
                                   ((-2, 1, -1)[:D], (4, 3, 5)[:D]), ((-1, -3, 2)[:D], (12, 9, 11)[:D])):  # boxes reaching beyond either border
                    def th(start=start, rsz=rsz):
                        g2 = it.method(g, "region_of_interest", start, rsz)
                        return env.check_rel(g2, [1] * D, list(start), list(rsz))
                    _guard(ctx, "T9.crop-family", f"{tag}:roi:{start}:{rsz}", F["region_of_interest"], f"op=region_of_interest start={start} size={rsz} {tag}", th)
                if size == "sym":
                    continue
                # center crop / pad (floor division: concrete sizes only)
                for tgt in ((3, 4, 2)[:D], (5, 2, 6)[:D], 4, (9, 3, 12)[:D], (4, 11, 2)[:D], 20):  # incl. requests larger than the grid (clamped per axis)
                    tt = (tgt,) * D if isinstance(tgt, int) else tgt
                    def thc(tgt=tgt, tt=tt):
                        g2 = it.method(g, "center_crop", tgt)
                        size2 = [min(m, n) for m, n in zip(sz, tt)]
                        off = [(m - n) // 2 for m, n in zip(sz, size2)]
                        return env.check_rel(g2, [1] * D, off, size2)
                    _guard(ctx, "T9.crop-family", f"{tag}:center_crop:{tgt}", F["center_crop"], f"op=center_crop size={tgt} {tag}", thc)
                for tgt in ((9, 12, 7)[:D], (8, 5, 10)[:D], 11, (3, 12, 4)[:D], (10, 2, 3)[:D], 1):  # incl. requests smaller than the grid (kept per axis)
                    tt = (tgt,) * D if isinstance(tgt, int) else tgt
                    def thp(tgt=tgt, tt=tt):
                        g2 = it.method(g, "center_pad", tgt)
                        size2 = [max(m, n) for m, n in zip(sz, tt)]
                        off = [-((n - m) // 2) for m, n in zip(sz, size2)]
                        return env.check_rel(g2, [1] * D, off, size2)
                    _guard(ctx, "T9.crop-family", f"{tag}:center_pad:{tgt}", F["center_pad"], f"op=center_pad size={tgt} {tag}", thp)
                # pooling
                for k in (2, 3, (2, 1, 3)[:D]):
                    kt = (k,) * D if isinstance(k, int) else k
                    for ceil_mode in (False, True):
                        def thk(k=k, kt=kt, ceil_mode=ceil_mode):
                            g2 = it.method(g, "avg_pool", k, ceil_mode=ceil_mode)
                            size2 = [(-(-n // kk)) if ceil_mode else n // kk for n, kk in zip(sz, kt)]
                            off = [Fraction(kk - 1, 2) for kk in kt]
                            return env.check_rel(g2, list(kt), off, size2)
                        _guard(ctx, "T9.crop-family", f"{tag}:pool:{k}:{ceil_mode}", F["pool"], f"op=pool kernel={k} ceil_mode={ceil_mode} {tag}", thk)


def _resize_rel(n: Sequence[Any], n2: Sequence[Any], ac: bool):
    sc, off = [], []
    for a, b in zip(n, n2):
        a, b = Fraction(a), Fraction(b)
        if ac:
            sc.append((a - 1) / (b - 1) if b != 1 else Fraction(0))
            off.append(Fraction(0) if b != 1 else (a - 1) / 2)
        else:
            sc.append(a / b)
            off.append(a / b / 2 - Fraction(1, 2))
    return sc, off


def _resize_family(ctx: Ctx, F) -> None:
    cases = {2: [(9, 6), (16, 24)], 3: [(8, 12, 5)]}
    targets = {2: [(5, 4), (17, 6), (9, 3)], 3: [(4, 6, 9)]}
    for D in (2, 3):
        for size in cases[D]:
            for ac in (True, False):
                env = Env(ctx, D, size, ac)
                it, g = env.it, env.g
                tag = f"D={D},size={size},align_corners={ac}"
                for tgt in targets[D]:
                    for flag in (None, True, False):
                        eff = ac if flag is None else flag
                        sc, off = _resize_rel(size, tgt, eff)
                        def th(tgt=tgt, flag=flag, sc=sc, off=off):
                            kw = {} if flag is None else {"align_corners": flag}
                            g2 = it.method(g, "resize", tgt, **kw)
                            g3 = it.method(g, "reshape", tuple(reversed(tgt)), **kw)
                            # flag given explicitly changes only the resampling rule, not the grid's stored default
                            a = env.check_rel(g2, sc, off, list(tgt))
                            b = env.check_rel(g3, sc, off, list(tgt))
                            cen = teq(it.method(g2, "center"), STensor.from_flat(env.c, [D]))
                            return (a[0] and b[0] and cen), a[1] or b[1] or "center moved"
                        _guard(ctx, "T9.resize-family", f"{tag}:resize:{tgt}:{flag}", F["_resize"], f"op=resize size={tgt} align_corners_arg={flag} {tag}", th)
                # same size -> same grid
                def same():
                    g2 = it.method(g, "resize", size)
                    return env.check_rel(g2, [1] * D, [0] * D, list(size))
                _guard(ctx, "T9.resize-family", f"{tag}:resize:same", F["_resize"], f"op=resize same size {tag}", same)
                # down / up sample
                for levels in (1, 2, 3):
                    for dims in (None, (0,), (1,)):
                        if any(Fraction(n, 2 ** levels) < 2 for d, n in enumerate(size) if dims is None or d in dims):
                            continue  # outside the property's quantifier (size / 2^levels >= 2)
                        def down(levels=levels, dims=dims):
                            kw = {} if dims is None else {"dims": dims}
                            g2 = it.method(g, "downsample", levels, **kw)
                            dd = range(D) if dims is None else dims
                            n2 = [Fraction(n, 2 ** levels) if d in dd else Fraction(n) for d, n in enumerate(size)]
                            # internal float size is kept; the *rounded* size defines the sample lattice
                            import math
                            n2r = [math.ceil(x) for x in n2]
                            sc, off = _resize_rel(size, n2r, ac)
                            a = env.check_rel(g2, sc, off, n2r)
                            if not a[0]:
                                return a
                            g3 = it.method(g2, "upsample", levels, **kw)
                            back = env.check_rel(g3, [1] * D, [0] * D, list(size))
                            if not back[0]:
                                return False, "downsample then upsample does not return the original grid: " + back[1]
                            same_dom = it.method(g2, "same_domain_as", g)
                            return bool(same_dom) or not True, "" if same_dom else "downsampled grid not same_domain_as original"
                        _guard(ctx, "T9.resize-family", f"{tag}:down-up:{levels}:{dims}", F["downsample"], f"op=downsample levels={levels} dims={dims} {tag}", down)
                        def up(levels=levels, dims=dims):
                            kw = {} if dims is None else {"dims": dims}
                            g2 = it.method(g, "upsample", levels, **kw)
                            dd = range(D) if dims is None else dims
                            n2 = [n * 2 ** levels if d in dd else n for d, n in enumerate(size)]
                            sc, off = _resize_rel(size, n2, ac)
                            a = env.check_rel(g2, sc, off, n2)
                            if not a[0]:
                                return a
                            g3 = it.method(g2, "downsample", levels, **kw)
                            return env.check_rel(g3, [1] * D, [0] * D, list(size))
                        _guard(ctx, "T9.resize-family", f"{tag}:up-down:{levels}:{dims}", F["upsample"], f"op=upsample levels={levels} dims={dims} {tag}", up)
                # explicit align_corners argument (possibly different from the grid's stored default) rules both directions
                for flag in (True, False):
                    def updown_flag(flag=flag):
                        n2 = [n * 2 for n in size]
                        sc, off = _resize_rel(size, n2, flag)
                        g2 = it.method(g, "upsample", 1, align_corners=flag)
                        a = env.check_rel(g2, sc, off, n2)
                        if not a[0]:
                            return False, f"upsample(1, align_corners={flag}) on a grid with align_corners={ac}: " + a[1]
                        g3 = it.method(g2, "downsample", 1, align_corners=flag)
                        b = env.check_rel(g3, [1] * D, [0] * D, list(size))
                        if not b[0]:
                            return False, f"upsample then downsample with align_corners={flag} does not return the original grid: " + b[1]
                        if all(Fraction(n, 2) >= 2 for n in size):
                            import math
                            n4 = [math.ceil(Fraction(n, 2)) for n in size]
                            sc4, off4 = _resize_rel(size, n4, flag)
                            g4 = it.method(g, "downsample", 1, align_corners=flag)
                            c = env.check_rel(g4, sc4, off4, n4)
                            if not c[0]:
                                return False, f"downsample(1, align_corners={flag}): " + c[1]
                            g5 = it.method(g4, "upsample", 1, align_corners=flag)
                            d = env.check_rel(g5, [1] * D, [0] * D, list(size))
                            if not d[0]:
                                return False, f"downsample then upsample with align_corners={flag} does not return the original grid: " + d[1]
                        return True, ""
                    _guard(ctx, "T9.resize-family", f"{tag}:updown-flag:{flag}", F["upsample"], f"op=upsample/downsample align_corners_arg={flag} {tag}", updown_flag)
                # min_size clamp: clamped axis keeps its size
                def clamp():
                    g2 = it.method(g, "downsample", 1, min_size=max(size))
                    return env.check_rel(g2, [1] * D, [0] * D, list(size))
                _guard(ctx, "T9.resize-family", f"{tag}:downsample:min_size", F["downsample"], f"op=downsample min_size clamp {tag}", clamp)
                # pyramid
                for levels in (1, 2, 3):
                    def pyr(levels=levels):
                        p = it.method(g, "pyramid", levels)
                        if sorted(p.keys()) != list(range(levels + 1)):
                            return False, f"levels {sorted(p.keys())}"
                        ce0 = it.method(p[0], "cube_extent")
                        prev = None
                        for lv in range(levels + 1):
                            gl = p[lv]
                            if not teq(it.method(gl, "cube_extent"), ce0):
                                return False, f"cube extent differs at level {lv}"
                            if not teq(it.method(gl, "center"), STensor.from_flat(env.c, [D])):
                                return False, f"center moved at level {lv}"
                            if not teq(it.method(gl, "direction"), env.R):
                                return False, f"direction changed at level {lv}"
                            n = [int(x) for x in env.size_of(gl)]
                            if prev is not None:
                                for a, b in zip(prev, n):
                                    if not (b == (a + 1) // 2 or b == a):
                                        return False, f"size recurrence {prev} -> {n}"
                            prev = n
                        if ac:
                            # corner alignment: level-0 grid of an n = 2^L k + 1 grid is the grid itself
                            pass
                        return True, ""
                    _guard(ctx, "T9.resize-family", f"{tag}:pyramid:{levels}", F["pyramid"], f"op=pyramid levels={levels} {tag}", pyr)
                # pyramid(min_size=, dims=): an axis whose halved size would fall below min_size keeps the size (and spacing) of the finer
                # level, axes not listed in dims are not touched; centre, orientation and cube extent as for every level
                for levels, msz, dims in ((2, 3, None), (3, 4, None), (2, max(size), None), (2, min(size) + 20, None), (2, 0, (0,)), (2, 3, (D - 1,))):
                    def pyrm(levels=levels, msz=msz, dims=dims):
                        kw = dict(min_size=msz)
                        if dims is not None:
                            kw["dims"] = list(dims)
                        p = it.method(g, "pyramid", levels, **kw)
                        if sorted(p.keys()) != list(range(levels + 1)):
                            return False, f"levels {sorted(p.keys())}"
                        ce0 = it.method(p[0], "cube_extent")
                        prev = None
                        for lv in range(levels + 1):
                            gl = p[lv]
                            if not teq(it.method(gl, "cube_extent"), ce0):
                                return False, f"cube extent differs at level {lv}"
                            if not teq(it.method(gl, "center"), STensor.from_flat(env.c, [D])):
                                return False, f"center moved at level {lv}"
                            if not teq(it.method(gl, "direction"), env.R):
                                return False, f"direction changed at level {lv}"
                            n = [int(x) for x in env.size_of(gl)]
                            if prev is not None:
                                for d, (a, b) in enumerate(zip(prev, n)):
                                    if dims is not None and d not in dims:
                                        want = a
                                    else:
                                        want = (a + 1) // 2 if (a + 1) // 2 >= msz else a
                                    if b != want:
                                        return False, (f"level {lv} axis {d}: size {a} -> {b}, documented {want} (min_size={msz}: an axis that would "
                                                       f"fall below it is not reduced; dims={dims})")
                            elif dims is not None:
                                for d in range(D):
                                    if d not in dims and n[d] != int(size[d]):
                                        return False, f"level 0 axis {d} not in dims={dims} was resized: {size[d]} -> {n[d]}"
                            prev = n
                        return True, ""
                    _guard(ctx, "T9.resize-family", f"{tag}:pyramid:{levels}:min_size={msz}:dims={dims}", F["pyramid"],
                           f"op=pyramid levels={levels} min_size={msz} dims={dims} {tag}", pyrm)
                # resample
                for fac in (Fraction(1, 2), Fraction(3, 2), 2):
                    def res(fac=fac):
                        sp = STensor.from_flat([x * fac for x in env.s], [D])
                        g2 = it.method(g, "resample", sp)
                        if not teq(it.method(g2, "spacing"), sp):
                            return False, "spacing not as requested"
                        if not teq(it.method(g2, "center"), STensor.from_flat(env.c, [D])):
                            return False, "center moved"
                        if not teq(it.method(g2, "direction"), env.R):
                            return False, "direction changed"
                        ext = it.method(g2, "extent")
                        want = [x * n for x, n in zip(env.s, size)]
                        # extent may only grow (ceil of fractional size), by less than one new spacing
                        for e, w, s2 in zip(ext.flat(), want, sp.flat()):
                            d = (to_rat(e) - w) / to_rat(s2)
                            if not d.is_const() or not (0 <= d.const_value() < 1):
                                return False, f"extent {e} vs original {w}"
                        return True, ""
                    _guard(ctx, "T9.resize-family", f"{tag}:resample:{fac}", F["resample"], f"op=resample factor={fac} {tag}", res)


def run_chains_resize(ctx: Ctx) -> None:
    """Resize family applied to a grid that is itself derived (downsample of an odd size: non-integral internal size)."""
    prog = ctx.prog
    G = "deepali.core.grid"
    F = {n: prog.func(G, f"Grid.{n}") for n in ("_resize", "resize", "resample", "downsample", "upsample")}
    for D in (2, 3):
        size = (8, 9, 7)[:D]
        for ac in (True, False):
            tag = f"D={D},size={size} after downsample,align_corners={ac}"
            try:
                env = Env(ctx, D, size, ac, fractional=True)
            except InterpError as e:
                _guard(ctx, "T9.resize-family", f"{tag}:base", F["downsample"], f"op=downsample (base of the chains) {tag}",
                       lambda e=e: (False, f"raises {e}"))
                continue
            it, g = env.it, env.g
            cen = STensor.from_flat(env.c, [D])
            ce0 = it.method(g, "cube_extent")
            ext0 = [to_rat(x) for x in it.method(g, "extent").flat()]

            def keeps(g2, what):
                if not teq(it.method(g2, "center"), cen):
                    return False, f"{what}: center moved"
                if not teq(it.method(g2, "direction"), env.R):
                    return False, f"{what}: direction changed"
                return True, ""
            for tgt in ((5, 4, 6)[:D], (16, 17, 13)[:D]):
                def rs(tgt=tgt):
                    g2 = it.method(g, "resize", tgt)
                    ok, why = keeps(g2, "resize")
                    if not ok:
                        return ok, why
                    if [int(x) for x in env.size_of(g2)] != list(tgt):
                        return False, f"size {env.size_of(g2)}"
                    if not teq(it.method(g2, "cube_extent"), ce0):
                        return False, "resize of a derived grid does not keep its cube extent (corner positions / physical extent)"
                    return True, ""
                _guard(ctx, "T9.resize-family", f"{tag}:chain-resize:{tgt}", F["_resize"], f"op=resize size={tgt} {tag}", rs)
            for fac in (Fraction(1, 2), Fraction(3, 2), 2, Fraction(1, 3)):
                def res(fac=fac):
                    sp = STensor.from_flat([to_rat(x) * fac for x in it.method(g, "spacing").flat()], [D])
                    g2 = it.method(g, "resample", sp)
                    ok, why = keeps(g2, "resample")
                    if not ok:
                        return ok, why
                    if not teq(it.method(g2, "spacing"), sp):
                        return False, "spacing not as requested"
                    for e, w, s2 in zip(it.method(g2, "extent").flat(), ext0, sp.flat()):
                        d = (to_rat(e) - w) / to_rat(s2)
                        if not d.is_const() or not (0 <= d.const_value() < 1):
                            return False, (f"resample of a derived grid: extent {e} vs extent of the input {w} (must cover it, with less than one "
                                           f"new spacing in excess)")
                    return True, ""
                _guard(ctx, "T9.resize-family", f"{tag}:chain-resample:{fac}", F["resample"], f"op=resample factor={fac} {tag}", res)

            def again():
                g2 = it.method(g, "downsample")
                ok, why = keeps(g2, "downsample")
                if not ok:
                    return ok, why
                if not teq(it.method(g2, "cube_extent"), ce0):
                    return False, "second downsample does not keep the cube extent"
                g3 = it.method(g2, "upsample")
                if not teq(it.method(g3, "cube_extent"), ce0) or not teq(it.method(g3, "spacing"), it.method(g, "spacing")):
                    return False, "downsample then upsample of a derived grid does not return its spacing / cube extent"
                return True, ""
            _guard(ctx, "T9.resize-family", f"{tag}:chain-down-up", F["downsample"], f"op=downsample,upsample {tag}", again)


def run_cube_grid(ctx: Ctx) -> None:
    """Cube.grid(): grids created over the cube of a grid (observation point of C03)."""
    prog = ctx.prog
    fG = prog.func("deepali.core.cube", "Cube.grid")
    ctx.fn(fG)
    ctx.rule("T9.cube-grid", "g.cube().grid(size | shape | spacing, align_corners) for either flag on either side: the new grid has the cube's center "
                             "and direction, covers the same cube (cube_extent, same_domain_as), has the requested size; with the size and flag of g "
                             "it is g again (same index->world map)")
    for D in (2, 3):
        size = (6, 9, 5)[:D]
        for ac in (True, False):
            env = Env(ctx, D, size, ac)
            it, g = env.it, env.g
            tag = f"D={D},size={size},align_corners={ac}"
            cube = it.method(g, "cube")
            ce0 = it.method(g, "cube_extent")
            cen = STensor.from_flat(env.c, [D])
            for flag in (True, False):
                for how, tgt in (("size", size), ("size", (4, 7, 3)[:D]), ("shape", tuple(reversed((4, 7, 3)[:D])))):
                    def th(flag=flag, how=how, tgt=tgt):
                        g2 = it.method(cube, "grid", **{how: tgt}, align_corners=flag)
                        want = list(tgt) if how == "size" else list(reversed(tgt))
                        if [int(x) for x in env.size_of(g2)] != want:
                            return False, f"size {env.size_of(g2)} expected {want}"
                        if not teq(it.method(g2, "center"), cen):
                            return False, "center of the new grid is not the cube's center"
                        if not teq(it.method(g2, "direction"), env.R):
                            return False, "direction changed"
                        if it.method(g2, "align_corners") != flag:
                            return False, "align_corners flag not as requested"
                        if not teq(it.method(g2, "cube_extent"), ce0):
                            return False, "cube extent of the new grid differs from the cube's extent"
                        if not it.method(g2, "same_domain_as", g):
                            return False, "same_domain_as(original grid) is False"
                        if flag == ac and tuple(want) == tuple(size):
                            return env.check_rel(g2, [1] * D, [0] * D, list(size))
                        return True, ""
                    _guard(ctx, "T9.cube-grid", f"{tag}:{flag}:{how}:{tgt}", fG, f"Cube.grid({how}={tgt}, align_corners={flag}) {tag}", th)

                def sp(flag=flag):
                    # spacing form: the cube extent divided by the requested spacing gives the number of cells
                    k = 3
                    ncell = [(n - 1 if ac else n) for n in size]
                    spacing = STensor.from_flat([to_rat(s) / k for s in env.s], [D])
                    g2 = it.method(cube, "grid", spacing=spacing, align_corners=flag)
                    want = [c * k + (1 if flag else 0) for c in ncell]
                    if [int(x) for x in env.size_of(g2)] != want:
                        return False, f"size {env.size_of(g2)} expected {want}"
                    if not teq(it.method(g2, "center"), cen) or not teq(it.method(g2, "cube_extent"), ce0):
                        return False, "center / cube extent of the new grid differ from the cube's"
                    if not teq(it.method(g2, "spacing"), spacing):
                        return False, "spacing not as requested"
                    return True, ""
                _guard(ctx, "T9.cube-grid", f"{tag}:{flag}:spacing", fG, f"Cube.grid(spacing=s/3, align_corners={flag}) {tag}", sp)
