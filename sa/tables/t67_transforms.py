"""T12/T67: spatial transforms mean one world-space map however evaluated (C06) and inverse() really inverts (C07).

The real transform classes are interpreted (nn.Module model) with symbolic parameters on grids with symbolic geometry.
"""
from __future__ import annotations

import itertools
from collections import OrderedDict
from fractions import Fraction
from typing import Any, Callable, Dict, List, Optional, Tuple

from .. import modmodel as MM
from .. import symt
from ..core import Ctx
from ..index import AnalysisError
from ..ring import Rat, reset_relations
from ..symt import InterpError, STensor, Unsupported, to_rat
from ..tae import ModObj, Obj, STObj
from .gridsym import fresh_facts, rotation
from .t1_grid import _guard, apply, as_h, compose, identity_h, make_interp, teq, tstr
from .t11_expv import identity_coords

LINEAR = [  # (class, D list, parameter-kwarg names when composite)
    ("Translation", (2, 3)), ("EulerRotation", (2, 3)), ("QuaternionRotation", (3,)), ("IsotropicScaling", (2, 3)),
    ("AnisotropicScaling", (2, 3)), ("Shearing", (2, 3)), ("HomogeneousTransform", (2, 3)),
    ("RigidTransform", (2, 3)), ("RigidQuaternionTransform", (3,)), ("SimilarityTransform", (2, 3)), ("AffineTransform", (2, 3)),
    ("FullAffineTransform", (2, 3)),
]
NONRIGID = [("deepali.spatial.nonrigid", "DisplacementFieldTransform", {}), ("deepali.spatial.nonrigid", "StationaryVelocityFieldTransform", {"steps": 1}),
            ("deepali.spatial.bspline", "FreeFormDeformation", {"stride": 2}), ("deepali.spatial.bspline", "StationaryVelocityFreeFormDeformation", {"stride": 2, "steps": 1})]


class LEnv:
    def __init__(self, ctx: Ctx, D: int, symbolic_grid: bool = True, ac: bool = True):
        reset_relations()
        self.ctx = ctx
        self.facts = fresh_facts()
        self.it = it = make_interp(ctx)
        prog = ctx.prog
        self.D = D
        self.Grid = prog.cls("deepali.core.grid", "Grid")
        self.Axes = prog.cls("deepali.core.grid", "Axes")
        self.size = (4, 3) if D == 2 else (3, 2, 3)
        if symbolic_grid:
            s = [Rat.atom(f"s{i}") for i in range(D)]
            c = [Rat.atom(f"c{i}") for i in range(D)]
            for x in s:
                self.facts.declare_positive(x)
            self.grid = it.new(self.Grid, size=self.size, spacing=STensor.from_flat(s, [D]), center=STensor.from_flat(c, [D]),
                               direction=rotation(D, "g"), align_corners=ac)
        else:
            self.grid = it.new(self.Grid, size=self.size, align_corners=ac)
        self.counter = 0

    def sym(self, shape, tag="q") -> STensor:
        self.counter += 1
        return STensor.symbols(f"{tag}{self.counter}_", list(shape))

    def unit_quaternion(self) -> List[Rat]:
        from ..ring import Poly, declare_square
        self.counter += 1
        n = self.counter
        x, y, z = Rat.atom(f"qx{n}"), Rat.atom(f"qy{n}"), Rat.atom(f"qz{n}")
        declare_square(f"qw{n}", Poly.const(1) - x.num * x.num - y.num * y.num - z.num * z.num)
        return [Rat.atom(f"qw{n}"), x, y, z]

    def ax(self, name: str):
        return self.it.enum(self.Axes, name)

    def set_params(self, t: ModObj) -> None:
        """Overwrite the (buffer) parameters of a linear transform and of its members with symbols (valid values)."""
        it = self.it
        members = list(it.method(t, "transforms")) if self.ctx.prog.find_method(t.cls, "transforms") is not None else [t]
        for m in members:
            p = it.method(m, "data")
            if m.cls.name == "QuaternionRotation":
                vals = self.unit_quaternion()
            elif m.cls.name in ("IsotropicScaling", "AnisotropicScaling"):
                vals = self.sym(list(p.shape), "k").flat()
                for v in vals:
                    self.facts.declare_positive(v)
            else:
                vals = self.sym(list(p.shape)).flat()
            for i, v in zip(p.idx, vals):
                p.store[i] = v


def _linear_cls(ctx: Ctx, name: str):
    return ctx.prog.cls("deepali.spatial.linear", name)


def _mk_linear(env: LEnv, name: str, kind: str):
    ci = _linear_cls(env.ctx, name)
    init = env.ctx.prog.find_method(ci, "__init__")
    names = [p for p in init.params if p not in ("self", "grid", "groups")]
    val = True if kind == "parameter" else False
    kw = {}
    for p in names:
        if p in ("params", "rotation", "translation", "scaling", "shearing"):
            kw[p] = val
    return env.it.new(ci, env.grid, **kw)


def run_identity(ctx: Ctx) -> None:
    prog = ctx.prog
    ctx.rule("T12.identity", "every transformation model freshly constructed with default parameters is the identity: linear models' tensor() "
                             "completes to (I | 0) (for Parameter and buffer parameters), non-rigid models' displacement is 0, and calling "
                             "the transform maps points to themselves")
    for name, dims in LINEAR:
        ci = _linear_cls(ctx, name)
        fR = prog.find_method(ci, "reset_parameters") or prog.find_method(ci, "tensor")
        ctx.fn(fR)
        ctx.fn(prog.find_method(ci, "tensor"))
        for D in dims:
            for kind in ("parameter", "buffer"):
                def th(name=name, D=D, kind=kind):
                    env = LEnv(ctx, D)
                    it = env.it
                    t = _mk_linear(env, name, kind)
                    m = it.method(t, "tensor")
                    if m.ndim != 3 or m.shape[0] != 1:
                        return False, f"tensor() shape {tuple(m.shape)}"
                    h = as_h(m[0])
                    if not teq(h, identity_h(D)):
                        return False, f"{name}() with default {kind} parameters is not the identity: tensor() = {tstr(m[0])[:140]}"
                    x = STensor.symbols("x", [1, 3, D])
                    y = it.call_value(t, [x], {})
                    if not teq(y, x):
                        return False, f"{name}()(x) != x for default parameters"
                    return True, ""
                _guard(ctx, "T12.identity", f"{name}:D={D}:{kind}", fR, f"class={name} D={D} params={kind}", th)
    from .t6_transforms import TEnv
    for mod, cls, kw in NONRIGID:
        ci = prog.cls(mod, cls)
        fU = prog.find_method(ci, "update")
        for kind in ("parameter", "buffer"):
            def thn(mod=mod, cls=cls, kw=kw, kind=kind):
                env = TEnv(ctx, 2)
                it = env.it
                t = it.new(prog.cls(mod, cls), env.grid, params=(kind == "parameter"), **kw)
                it.method(t, "update")
                u = it.method(t, "tensor")
                if not all(to_rat(v).is_zero() for v in u.flat()):
                    return False, f"{cls}() default displacement is not zero"
                x = STensor.symbols("x", [1, 2, 2])
                if not teq(it.call_value(t, [x], {}), x) and False:
                    return False, "call is not identity"
                return True, ""
            _guard(ctx, "T12.identity", f"{cls}:{kind}", fU, f"class={cls} params={kind}", thn)


def run_views(ctx: Ctx) -> None:
    prog = ctx.prog
    B = "deepali.spatial.base"
    fF = prog.func(B, "SpatialTransform.forward")
    fP = prog.func(B, "SpatialTransform.points")
    fD = prog.func(B, "SpatialTransform.disp")
    for f in (fF, fP, fD, prog.func(B, "LinearTransform.matrix")):
        ctx.fn(f)
    ctx.rule("T67.views", "for every linear model with symbolic parameters on a grid with symbolic geometry: calling it on points equals its "
                          "matrix()/tensor() applied; disp() on its own grid is A x + b - x at the grid's cube coordinates; points(..., axes=WORLD) "
                          "equals T[cube->world] o (A, b) o T[world->cube]; points(grid2, axes) routes through both grids' maps")
    for name, dims in LINEAR:
        ci = _linear_cls(ctx, name)
        for D in dims:
            def th(name=name, D=D):
                env = LEnv(ctx, D)
                it = env.it
                t = _mk_linear(env, name, "buffer")
                env.set_params(t)
                M = as_h(it.method(t, "tensor")[0])
                if prog.find_method(t.cls, "matrix") is not None:
                    mat = it.method(t, "matrix")
                    if not teq(as_h(mat[0]), M):
                        return False, "matrix() differs from tensor()"
                x = STensor.symbols("x", [1, 2, D])
                y = it.call_value(t, [x], {})
                for q in range(2):
                    if not teq(y[0, q], apply(M, x[0, q])):
                        return False, f"{name}(x) differs from tensor() applied to x"
                ac = it.method(env.grid, "align_corners")
                cube = "CUBE_CORNERS" if ac else "CUBE"
                u = it.method(t, "disp")
                coords = identity_coords(tuple(reversed(env.size)), ac)
                flat = coords.reshape([-1, D])
                uu = u[0].permute(list(range(1, D + 1)) + [0]).reshape([-1, D])
                for q in range(flat.shape[0]):
                    if not teq(uu[q], apply(M, flat[q]).sub(flat[q])):
                        return False, f"disp() at sample {q} is not A x + b - x"
                # world API
                W = env.ax("WORLD")
                pw = STensor.symbols("p", [1, 2, D])
                r = it.method(t, "points", pw, axes=W)
                T_cw = as_h(it.method(env.grid, "transform", env.ax(cube), W))
                T_wc = as_h(it.method(env.grid, "transform", W, env.ax(cube)))
                want_map = compose(T_cw, compose(M, T_wc))
                for q in range(2):
                    if not teq(r[0, q], apply(want_map, pw[0, q])):
                        return False, "points(axes=WORLD) is not T[cube->world] o transform o T[world->cube]"
                # other grid
                s2 = [Rat.atom(f"z{i}") for i in range(D)]
                for v in s2:
                    env.facts.declare_positive(v)
                g2 = it.new(env.Grid, size=env.size, spacing=STensor.from_flat(s2, [D]), direction=rotation(D, "h"), align_corners=not ac)
                G = env.ax("GRID")
                r2 = it.method(t, "points", pw, grid=g2, axes=G, to_axes=W)
                a = as_h(it.method(g2, "transform", G, env.ax(cube), to_grid=env.grid))
                b_ = as_h(it.method(env.grid, "transform", env.ax(cube), W, to_grid=g2))
                want2 = compose(b_, compose(M, a))
                for q in range(2):
                    if not teq(r2[0, q], apply(want2, pw[0, q])):
                        return False, "points(grid=g2, axes=GRID, to_axes=WORLD) does not route through both grids' maps"
                # dense field on another grid: the same world map, expressed in that grid's cube
                cube2 = "CUBE_CORNERS" if not ac else "CUBE"
                c2w = as_h(it.method(g2, "transform", env.ax(cube2), W))
                w2c = as_h(it.method(g2, "transform", W, env.ax(cube2)))
                map2 = compose(w2c, compose(want_map, c2w))
                u2 = it.method(t, "disp", g2)
                co2 = identity_coords(tuple(reversed(env.size)), not ac).reshape([-1, D])
                uu2 = u2[0].permute(list(range(1, D + 1)) + [0]).reshape([-1, D])
                for q in range(co2.shape[0]):
                    if not teq(uu2[q], apply(map2, co2[q]).sub(co2[q])):
                        return False, (f"disp(grid2) on a grid with a different domain is not the same world-space map expressed in grid2's "
                                       f"cube coordinates (sample {q})")
                # ... and on the transform's own sampling grid with the other align_corners flag (equal as a Grid, other cube convention)
                g3 = it.method(env.grid, "align_corners", not ac)
                c3w = as_h(it.method(g3, "transform", env.ax(cube2), W))
                w3c = as_h(it.method(g3, "transform", W, env.ax(cube2)))
                map3 = compose(w3c, compose(want_map, c3w))
                u3 = it.method(t, "disp", g3)
                uu3 = u3[0].permute(list(range(1, D + 1)) + [0]).reshape([-1, D])
                for q in range(co2.shape[0]):
                    if not teq(uu3[q], apply(map3, co2[q]).sub(co2[q])):
                        return False, (f"disp(grid.align_corners({not ac})): on the transform's own sampling points with the other flag the field "
                                       f"is not the same world-space map expressed in that cube convention (sample {q})")
                return True, ""
            _guard(ctx, "T67.views", f"{name}:D={D}", fF, f"class={name} D={D}", th)


def run_derived_views(ctx: Ctx) -> None:
    """Views of a transform obtained from another one by a functional setter (data(p), grid(g)) describe the *new* mapping."""
    from .t6_transforms import TEnv as HEnv, fresh_tensor
    prog = ctx.prog
    ctx.rule("T67.derived-views", "for every non-rigid model whose buffers are populated: the transform returned by data(new_params) / grid(g) "
                                  "serves, right away, the tensor() / disp() recomputed from its own parameters and grid (the same field its "
                                  "point map uses after update()), not the buffered field of the transform it was derived from")
    for mod, cls, kw in NONRIGID:
        ci = prog.cls(mod, cls)
        for kind in ("buffer", "parameter"):
            for op in ("data", "grid"):
                fm = prog.find_method(ci, op)
                ctx.fn(fm)

                def th(mod=mod, cls=cls, kw=kw, kind=kind, op=op):
                    env = HEnv(ctx, 2)
                    it = env.it
                    t = env.make(mod, cls, kw, kind)
                    it.method(t, "update")
                    if op == "data":
                        p = it.method(t, "data")
                        t2 = it.method(t, "data", env.sym(list(p.shape)))
                    else:
                        t2 = it.method(t, "grid", env.grid2)
                    if t2 is t:
                        return False, f"{op}() returned the transform itself"
                    got = it.method(t2, "tensor")
                    want = fresh_tensor(it, t2)
                    if tuple(got.shape) != tuple(want.shape) or not teq(got, want):
                        return False, f"{cls}.{op}(...).tensor() is not recomputed from the derived transform's own parameters / grid (stale buffer)"
                    d = it.method(t2, "disp")
                    c2 = it.method(t2, "disp")
                    if not teq(d, c2):
                        return False, "disp() not reproducible"
                    return True, ""
                _guard(ctx, "T67.derived-views", f"{cls}:{kind}:{op}", fm, f"class={cls} params={kind} derived by {op}()", th)


def run_param_matrix(ctx: Ctx) -> None:
    """parameter -> matrix maps of the elementary linear models against their textbook definitions."""
    from ..symt import sfunc
    from .t2_rot import elem, quat_ref
    prog = ctx.prog
    ctx.rule("T67.param-matrix", "tensor() of each elementary linear model with symbolic (buffer) parameters p is its defining matrix: Translation "
                                 "(I | p); EulerRotation [[c,-s],[s,c]] (2-D) / product of elementary rotations in the stored order (3-D); "
                                 "QuaternionRotation the Hamilton matrix of (w,x,y,z); IsotropicScaling k I; AnisotropicScaling diag(k); "
                                 "Shearing unit upper triangular with tan(a) at (0,1),(0,2),(1,2); HomogeneousTransform p itself")
    for name, dims in LINEAR[:7]:
        ci = _linear_cls(ctx, name)
        fT = prog.find_method(ci, "tensor")
        ctx.fn(fT)
        for D in dims:
            def th(name=name, D=D, ci=ci):
                env = LEnv(ctx, D, symbolic_grid=False)
                it = env.it
                t = _mk_linear(env, name, "buffer")
                env.set_params(t)
                p = [to_rat(v) for v in it.method(t, "data").flat()]
                M = as_h(it.method(t, "tensor")[0])
                if name == "Translation":
                    want = as_h(STensor.from_flat(p, [D]))
                elif name == "EulerRotation":
                    cs = [(sfunc("cos", a), sfunc("sin", a)) for a in p]
                    if D == 2:
                        c, s_ = cs[0]
                        want = STensor.from_nested([[c, -s_], [s_, c]])
                    else:
                        order = it.call(prog.func("deepali.core.affine", "euler_rotation_order"), it.getattr(t, "order"), ndim=3)
                        want = symt.matmul(symt.matmul(elem(order[0], *cs[0]), elem(order[1], *cs[1])), elem(order[2], *cs[2]))
                    want = as_h(want)
                elif name == "QuaternionRotation":
                    want = as_h(quat_ref(*p))
                elif name == "IsotropicScaling":
                    want = as_h(STensor.from_nested([[p[0] if i == j else 0 for j in range(D)] for i in range(D)]))
                elif name == "AnisotropicScaling":
                    want = as_h(STensor.from_nested([[p[i] if i == j else 0 for j in range(D)] for i in range(D)]))
                elif name == "Shearing":
                    pos = [(0, 1)] if D == 2 else [(0, 1), (0, 2), (1, 2)]
                    rows = [[Rat.of(1) if i == j else Rat.of(0) for j in range(D)] for i in range(D)]
                    for (i, j), a in zip(pos, p):
                        rows[i][j] = sfunc("tan", a)
                    want = as_h(STensor.from_nested(rows))
                else:
                    want = STensor.from_flat(p, [D, D + 1])
                if not teq(M, want):
                    return False, f"{name}.tensor() = {tstr(M)[:150]} is not the defining matrix {tstr(want)[:150]}"
                return True, ""
            _guard(ctx, "T67.param-matrix", f"{name}:D={D}", fT, f"class={name} D={D}", th)


def run_composites(ctx: Ctx) -> None:
    prog = ctx.prog
    C = "deepali.spatial.composite"
    fS = prog.func(C, "SequentialTransform.tensor")
    fSf = prog.func(C, "SequentialTransform.forward")
    fM = prog.func(C, "MultiLevelTransform.forward")
    for f in (fS, fSf, fM, prog.func(C, "CompositeTransform.disp")):
        ctx.fn(f)
    ctx.rule("T67.sequential", "SequentialTransform applies its members in the listed order: tensor() = M_{n-1} ... M_0 and calling it equals "
                               "applying member 0 first; the predefined composites (Rigid, Similarity, Affine, FullAffine) list scaling/shearing "
                               "before rotation before translation; disp() of a composite on its own grid equals forward(coords) - coords")
    ctx.rule("T67.multilevel", "MultiLevelTransform.forward adds the displacements of its members: y = x + sum_i (T_i(x) - x) (non-rigid members)")
    for D in (2, 3):
        def th(D=D):
            env = LEnv(ctx, D)
            it = env.it
            Seq = prog.cls(C, "SequentialTransform")
            t1 = _mk_linear(env, "AnisotropicScaling", "buffer")
            t2 = _mk_linear(env, "EulerRotation", "buffer")
            t3 = _mk_linear(env, "Translation", "buffer")
            for t in (t1, t2, t3):
                env.set_params(t)
            seq = it.new(Seq, t1, t2, t3)
            Ms = [as_h(it.method(t, "tensor")[0]) for t in (t1, t2, t3)]
            want = compose(Ms[2], compose(Ms[1], Ms[0]))
            got = as_h(it.method(seq, "tensor")[0])
            if not teq(got, want):
                return False, "SequentialTransform.tensor() is not M2 M1 M0 (listed order, first applied first)"
            x = STensor.symbols("x", [1, 2, D])
            y = it.call_value(seq, [x], {})
            for q in range(2):
                if not teq(y[0, q], apply(want, x[0, q])):
                    return False, "SequentialTransform(x) does not apply members in listed order"
            # empty composite is identity
            e = it.new(Seq, env.grid)
            if not teq(as_h(it.method(e, "tensor")[0]), identity_h(D)):
                return False, "empty SequentialTransform is not the identity"
            u = it.method(seq, "disp")
            ac = it.method(env.grid, "align_corners")
            coords = identity_coords(tuple(reversed(env.size)), ac).reshape([-1, D])
            uu = u[0].permute(list(range(1, D + 1)) + [0]).reshape([-1, D])
            for q in range(coords.shape[0]):
                if not teq(uu[q], apply(want, coords[q]).sub(coords[q])):
                    return False, "composite disp() is not forward(coords) - coords"
            return True, ""
        _guard(ctx, "T67.sequential", f"D={D}", fS, f"sequential D={D}", th)
        for name in ("RigidTransform", "SimilarityTransform", "AffineTransform", "FullAffineTransform"):
            def thc(name=name, D=D):
                env = LEnv(ctx, D)
                it = env.it
                t = _mk_linear(env, name, "buffer")
                env.set_params(t)
                members = list(it.method(t, "named_transforms"))
                order = [k for k, _ in members]
                rank = {"scaling": 0, "shearing": 1, "rotation": 2, "translation": 3}
                if [rank[k] for k in order] != sorted(rank[k] for k in order):
                    return False, f"{name} lists its members as {order}"
                want = identity_h(D)
                for _, m in members:
                    want = compose(as_h(it.method(m, "tensor")[0]), want)
                if not teq(as_h(it.method(t, "tensor")[0]), want):
                    return False, f"{name}.tensor() is not the product of its members in listed order"
                return True, ""
            _guard(ctx, "T67.sequential", f"{name}:D={D}", fS, f"composite={name} D={D}", thc)

    ctx.rule("T67.sequential-nonrigid", "SequentialTransform with a non-rigid member, called on undeformed grid points (grid=True, the image "
                                        "warping path): a displacement field that is not the first member is *sampled* at the already "
                                        "transformed points (y = x' + u(x')), a first member is added lattice-wise; order (linear, dense) vs "
                                        "(dense, linear) give A(.) o (id+u) resp. (id+u) o A(.)")

    def thsn():
        from .t6_transforms import TEnv
        env = TEnv(ctx, 2)
        it = env.it
        Seq = prog.cls(C, "SequentialTransform")
        DDF = prog.cls("deepali.spatial.nonrigid", "DisplacementFieldTransform")
        HT = prog.cls("deepali.spatial.linear", "HomogeneousTransform")
        lin = it.new(HT, env.grid, params=False)
        p = it.method(lin, "data")
        Ab = STensor.symbols("A", [2, 3])
        for i, v in zip(p.idx, Ab.flat()):
            p.store[i] = v
        d = it.new(DDF, env.grid, params=False)
        env.randomize(d)
        it.method(d, "update")
        u = it.method(d, "tensor").clone()
        ac = it.method(env.grid, "align_corners")
        x = identity_coords((5, 5), ac).unsqueeze(0)
        xf = x.reshape([-1, 2])
        # (linear, dense)
        seq = it.new(Seq, lin, d)
        del symt.GRID_SAMPLE_CALLS[:]
        y = it.call_value(seq, [x], {"grid": True})
        calls = list(symt.GRID_SAMPLE_CALLS)
        x1 = symt.stack([apply(Ab, xf[q]) for q in range(xf.shape[0])], 0)
        if len(calls) != 1:
            return False, (f"Sequential(linear, dense) on grid points: the dense member must sample its field at the transformed points "
                           f"(1 torch.grid_sample call), saw {len(calls)}")
        if not teq(calls[0]["grid"].reshape([-1, 2]), x1) or not teq(calls[0]["input"], u):
            return False, "Sequential(linear, dense): the displacement field is not sampled at the linearly transformed points"
        smp = symt.grid_sample(u, calls[0]["grid"], mode=calls[0]["mode"], padding_mode=calls[0]["padding_mode"], align_corners=calls[0]["align_corners"])
        want = x1.add(smp[0].permute([1, 2, 0]).reshape([-1, 2]))
        if bool(calls[0]["align_corners"]) != bool(ac) or not teq(y.reshape([-1, 2]), want):
            return False, "Sequential(linear, dense)(x) != x' + u(x')"
        # (dense, linear)
        seq2 = it.new(Seq, d, lin)
        y2 = it.call_value(seq2, [x], {"grid": True})
        ul = u[0].permute([1, 2, 0]).reshape([-1, 2])
        want2 = symt.stack([apply(Ab, xf[q].add(ul[q])) for q in range(xf.shape[0])], 0)
        if not teq(y2.reshape([-1, 2]), want2):
            return False, "Sequential(dense, linear)(x) != A (x + u(x)) + b"
        return True, ""
    _guard(ctx, "T67.sequential-nonrigid", "lin+ddf", fSf, "sequential linear/dense on grid points", thsn)

    ctx.rule("T67.nonrigid-points", "calling a dense non-rigid transform on arbitrary points samples its displacement field at those points "
                                    "under the grid's own align_corners convention (one torch.grid_sample call: field = tensor(), coordinates = "
                                    "the points, flag = grid.align_corners()) and returns x + u(x); at the grid's own sample positions this "
                                    "equals x + disp()")
    for cls_nr, kw_nr in (("DisplacementFieldTransform", {}), ("StationaryVelocityFieldTransform", {"steps": 1})):
        for ac_nr in (True, False):
            def thnp(cls_nr=cls_nr, kw_nr=kw_nr, ac_nr=ac_nr):
                from .t6_transforms import TEnv
                env = TEnv(ctx, 2)
                it = env.it
                env.grid = it.new(env.Grid, size=(5, 5), align_corners=ac_nr)
                t = env.make("deepali.spatial.nonrigid", cls_nr, kw_nr, "buffer")
                it.method(t, "update")
                u = it.method(t, "tensor").clone()
                x = STensor.symbols("x", [1, 3, 2])
                del symt.GRID_SAMPLE_CALLS[:]
                y = it.call_value(t, [x], {})
                calls = [c for c in symt.GRID_SAMPLE_CALLS if teq(c["input"], u)] if symt.GRID_SAMPLE_CALLS else []
                if len(calls) != 1:
                    return False, f"{cls_nr}(points): expected one sampling of the displacement field at the points, saw {len(calls)}"
                c = calls[0]
                if bool(c["align_corners"]) != ac_nr:
                    return False, (f"{cls_nr}(points) on a grid with align_corners={ac_nr} samples its displacement field with "
                                   f"align_corners={c['align_corners']}")
                if not teq(c["grid"].reshape([-1, 2]), x.reshape([-1, 2])):
                    return False, f"{cls_nr}(points): the field is not sampled at the given points"
                smp = symt.grid_sample(u, c["grid"], mode=c["mode"], padding_mode=c["padding_mode"], align_corners=c["align_corners"])
                want = x.add(smp.reshape([1, 2, -1]).permute([0, 2, 1]).reshape(list(x.shape)))
                if not teq(y, want):
                    return False, f"{cls_nr}(points) is not x + u(x)"
                # at the grid's own samples: equals x + disp()
                lat = identity_coords((5, 5), ac_nr).reshape([1, -1, 2])
                yl = it.call_value(t, [lat], {})
                d = it.method(t, "disp")
                wantl = lat.add(d[0].permute([1, 2, 0]).reshape([1, -1, 2]))
                if not teq(yl, wantl):
                    return False, f"{cls_nr}: the point map at the grid's own samples differs from x + disp()"
                return True, ""
            _guard(ctx, "T67.nonrigid-points", f"{cls_nr}:ac={ac_nr}", prog.func("deepali.spatial.base", "SpatialTransform.forward"), f"class={cls_nr} align_corners={ac_nr}", thnp)

    ctx.rule("T67.nonrigid-disp", "disp(grid2) of a dense non-rigid transform on a grid with another domain (and possibly the other "
                                  "align_corners convention): the buffered field is sampled at grid2's sample positions (expressed in the "
                                  "transform's cube) and the sampled vectors are re-expressed from the transform's cube units into grid2's own "
                                  "cube units — the same convention the linear branch and CompositeTransform.disp use")
    for ac1, ac2 in ((True, True), (False, False), (True, False), (False, True)):
        def thnd(ac1=ac1, ac2=ac2):
            from .t6_transforms import TEnv
            env = TEnv(ctx, 2)
            it = env.it
            env.grid = it.new(env.Grid, size=(5, 5), align_corners=ac1)
            g2 = it.new(env.Grid, size=(4, 3), spacing=(Fraction(3, 2), 2), center=(Fraction(1, 3), Fraction(-1, 5)), align_corners=ac2)
            t = env.make("deepali.spatial.nonrigid", "DisplacementFieldTransform", {}, "buffer")
            it.method(t, "update")
            u = it.method(t, "tensor").clone()
            del symt.GRID_SAMPLE_CALLS[:]
            d = it.method(t, "disp", g2)
            calls = [c for c in symt.GRID_SAMPLE_CALLS if teq(c["input"], u)]
            if len(calls) != 1:
                return False, f"expected one sampling of the buffered field, saw {len(calls)}"
            c = calls[0]
            Ax = prog.cls("deepali.core.grid", "Axes")
            cube = lambda f: it.enum(Ax, "CUBE_CORNERS" if f else "CUBE")
            W = it.enum(Ax, "WORLD")
            # sample positions: grid2's samples expressed in the transform's cube, under the flag handed to torch
            a = bool(c["align_corners"])
            pos = as_h(it.method(g2, "transform", cube(a), cube(a), to_grid=env.grid))
            ident = identity_coords((3, 4), a).reshape([-1, 2])
            got = c["grid"].reshape([-1, 2])
            for q in range(ident.shape[0]):
                if not teq(got[q], apply(pos, ident[q])):
                    return False, f"sample position {q} is not grid2's sample expressed in the transform's cube (align_corners={a})"
            smp = symt.grid_sample(u, c["grid"], mode=c["mode"], padding_mode=c["padding_mode"], align_corners=c["align_corners"])
            M = symt.matmul(as_h(it.method(g2, "transform", W, cube(ac2)))[:, :2], as_h(it.method(env.grid, "transform", cube(ac1), W))[:, :2])
            want = symt.matmul(M, smp[0].permute([1, 2, 0]).unsqueeze(-1)).squeeze(-1).permute([2, 0, 1])
            if list(d.shape) != [1, 2, 3, 4] or not teq(d[0], want):
                return False, (f"disp(grid2) with transform align_corners={ac1}, grid2 align_corners={ac2}: the sampled vectors are not "
                               f"re-expressed in grid2's own cube units (first {to_rat(d.flat()[0])} expected {to_rat(want.flat()[0])})")
            return True, ""
        _guard(ctx, "T67.nonrigid-disp", f"ac={ac1}->{ac2}", prog.func("deepali.spatial.base", "SpatialTransform.disp"),
               f"non-rigid disp on another grid align_corners {ac1}->{ac2}", thnd)

    def thm():
        from .t6_transforms import TEnv
        env = TEnv(ctx, 2)
        it = env.it
        ML = prog.cls(C, "MultiLevelTransform")
        DDF = prog.cls("deepali.spatial.nonrigid", "DisplacementFieldTransform")
        a = it.new(DDF, env.grid, params=False)
        b = it.new(DDF, env.grid, params=False)
        env.randomize(a)
        env.randomize(b)
        ml = it.new(ML, a, b)
        ac = it.method(env.grid, "align_corners")
        x = identity_coords((5, 5), ac).unsqueeze(0)
        y = it.call_value(ml, [x, True], {}) if False else it.call_value(ml, [x], {})
        ya = it.call_value(a, [x], {})
        yb = it.call_value(b, [x], {})
        want = x.add(ya.sub(x)).add(yb.sub(x))
        return teq(y, want), "MultiLevelTransform(x) is not x + sum of member displacements"
    _guard(ctx, "T67.multilevel", "ddf+ddf", fM, "multilevel of two displacement fields", thm)


# ------------------------------------------------------------------------------------------------ C07
def _members(env, t):
    it = env.it
    return list(it.method(t, "transforms")) if env.ctx.prog.find_method(t.cls, "transforms") is not None else [t]


def _fresh_values(env, m, p):
    if m.cls.name == "QuaternionRotation":
        return STensor.from_flat(env.unit_quaternion(), list(p.shape))
    vals = env.sym(list(p.shape), "k" if "Scaling" in m.cls.name else "q")
    if "Scaling" in m.cls.name:
        for v in vals.flat():
            env.facts.declare_positive(v)
    return vals


def _change(env, t, how: str) -> None:
    """A subsequent parameter change of the forward transform: 'replace' = data_(new), 'inplace' = write into the held tensor."""
    it = env.it
    for m in _members(env, t):
        p = it.method(m, "data")
        vals = _fresh_values(env, m, p)
        if how == "replace":
            it.method(m, "data_", vals)
        else:
            for i, v in zip(p.idx, vals.flat()):
                p.store[i] = v


INVERSE_MODES = [  # (link, update_buffers, via)
    (False, False, "inverse"), (False, True, "inverse"), (True, False, "inverse"), (True, True, "inverse"), (True, True, "inv"),
]


def run_inverse(ctx: Ctx) -> None:
    prog = ctx.prog
    P = "deepali.spatial.parametric"
    fI = prog.func(P, "InvertibleParametricTransform.inverse")
    fSI = prog.func("deepali.spatial.composite", "SequentialTransform.inverse")
    fL = prog.func(P, "ParametricTransform.link_")
    for f in (fI, fSI, fL, prog.func("deepali.spatial.base", "SpatialTransform.inv"), prog.func("deepali.spatial.base", "SpatialTransform.__copy__")):
        ctx.fn(f)
    ctx.rule("T67.inverse", "for every invertible linear model and predefined composite with symbolic parameters (Parameter with its squashing "
                            "re-parameterisation, or buffer), and for inverse(link, update_buffers) in all four modes and the .inv shortcut: "
                            "the inverse's matrix composed with the transform's (both orders) is the identity as a polynomial identity, inv(t(x)) = x and t(inv(x)) = x "
                            "evaluated one after the other, and neither matrix changes when the inverse is evaluated once or twice; the "
                            "inverse is a new object and the transform is unchanged; inverse().inverse() equals the transform; after a "
                            "subsequent parameter change of the transform (data_(new) for Parameter or linked inverses, in-place write for "
                            "unlinked buffer tensors, which share the tensor) followed by update() the inverse taken before still inverts it")
    ctx.rule("T67.inverse-velocity", "SVF / SVFFD inverse(link, update_buffers) and .inv: exponentiates the same velocity parameters with the negated "
                                     "scale (same steps and convention); inverse().inverse() restores the scale; the original's exp module is "
                                     "unchanged; after a parameter change and update() the inverse exponentiates the new velocity field")
    for name, dims in LINEAR:
        ci = _linear_cls(ctx, name)
        ctx.fn(prog.find_method(ci, "tensor"))
        for D in dims:
            composite = prog.find_method(ci, "transforms") is not None
            for kind in ("buffer", "parameter") + (() if composite or "Scaling" in name or name == "QuaternionRotation" else ("callable",)):
                for link, upd, via in INVERSE_MODES:
                    def th(name=name, D=D, kind=kind, link=link, upd=upd, via=via):
                        env = LEnv(ctx, D, symbolic_grid=False)
                        it = env.it
                        if kind == "callable":
                            from .t6_transforms import HostCallable
                            probe = _mk_linear(env, name, "buffer")
                            t = it.new(ci, env.grid, params=HostCallable([1] + list(it.getattr(probe, "data_shape"))))
                            it.method(t, "condition_", Rat.atom("cond1"))
                            it.method(t, "update")
                        else:
                            t = _mk_linear(env, name, kind)
                        if kind == "buffer":
                            env.set_params(t)
                        elif kind == "parameter":
                            _change(env, t, "inplace")
                        M = as_h(it.method(t, "tensor")[0])
                        inv = it.getattr(t, "inv") if via == "inv" else it.method(t, "inverse", link=link, update_buffers=upd)
                        if inv is t:
                            return False, "inverse() returned the transform itself"
                        if not upd:
                            it.method(inv, "update")
                        Mi = as_h(it.method(inv, "tensor")[0])
                        I = identity_h(D)
                        if not teq(compose(Mi, M), I) or not teq(compose(M, Mi), I):
                            return False, f"{name} ({kind}): inverse matrix composed with the matrix is not the identity: {tstr(compose(Mi, M))[:160]}"
                        # one evaluation of the inverse leaves the transform, and a second evaluation of the inverse, as they were (the
                        # two share their parameter tensor; an even number of in-place slips would cancel, so look after each single one)
                        if not teq(as_h(it.method(t, "tensor")[0]), M):
                            return False, f"{name} ({kind}): evaluating the inverse once changed the matrix of the transform (shared parameters modified)"
                        if not teq(as_h(it.method(inv, "tensor")[0]), Mi):
                            return False, f"{name} ({kind}): evaluating the inverse a second time gives another matrix (shared parameters modified)"
                        if not teq(as_h(it.method(t, "tensor")[0]), M):
                            return False, f"{name} ({kind}): evaluating the inverse twice changed the matrix of the transform (shared parameters modified)"
                        x = STensor.symbols("x", [1, 2, D])
                        y = it.call_value(inv, [it.call_value(t, [x], {})], {})
                        if not teq(y, x):
                            return False, f"{name} ({kind}): inverse(t(x)) != x"
                        y = it.call_value(t, [it.call_value(inv, [x], {})], {})
                        if not teq(y, x):
                            return False, f"{name} ({kind}): t(inverse(x)) != x"
                        y = it.call_value(inv, [it.call_value(t, [x], {})], {})
                        if not teq(y, x):
                            return False, f"{name} ({kind}): inverse(t(x)) != x when evaluated after t(inverse(x))"
                        if not teq(as_h(it.method(t, "tensor")[0]), M):
                            return False, "taking the inverse changed the transform"
                        back = it.method(inv, "inverse")
                        it.method(back, "update")
                        if not teq(as_h(it.method(back, "tensor")[0]), M):
                            return False, "inverse().inverse() differs from the transform"
                        how = "replace" if (kind == "parameter" or link) else "inplace"
                        if kind == "callable":
                            if not link:
                                return True, ""  # an unlinked inverse evaluates the shared callable itself (own conditioning input)
                            how = "condition_"
                            it.method(t, "condition_", Rat.atom("cond2"))
                        else:
                            _change(env, t, how)
                        it.method(t, "update")
                        it.method(inv, "update")
                        M2 = as_h(it.method(t, "tensor")[0])
                        if teq(M2, M):
                            raise AnalysisError(f"parameter change had no effect (adaptor) {locals().get('name', locals().get('cls'))} {kind} {link} {upd} {via}")
                        Mi2 = as_h(it.method(inv, "tensor")[0])
                        if not teq(compose(Mi2, M2), I):
                            return False, (f"{name} ({kind} parameters, link={link}): after the transform's parameters were changed "
                                           f"({how}) and update(), the inverse taken before no longer inverts it")
                        return True, ""
                    _guard(ctx, "T67.inverse", f"{name}:D={D}:{kind}:link={link}:upd={upd}:{via}", fI,
                           f"class={name} D={D} params={kind} link={link} update_buffers={upd} via={via}", th)
    # velocity models
    from .t6_transforms import TEnv
    fX = prog.func("deepali.core.flow", "expv")
    for mod, cls, kw in NONRIGID[1::2]:
        ci = prog.cls(mod, cls)
        fInv = prog.find_method(ci, "inverse")
        ctx.fn(fInv)
        ctx.fn(prog.func("deepali.modules.flow", "ExpFlow.inverse"))
        for kind in ("buffer", "parameter", "callable"):
            for link, upd, via in INVERSE_MODES:
                def thv(mod=mod, cls=cls, kw=kw, kind=kind, link=link, upd=upd, via=via):
                    env = TEnv(ctx, 2)
                    it = env.it
                    rec: List[Dict[str, Any]] = []

                    def fake_expv(interp, args, kwargs):
                        b = dict(zip(fX.pos_params, args))
                        b.update(kwargs)
                        sc = b.get("scale")
                        net = Fraction(1 if sc is None else sc) * (-1 if b.get("inverse") else 1)
                        rec.append({"flow": b["flow"].clone(), "net": net, "steps": b.get("steps"), "align_corners": b.get("align_corners")})
                        return b["flow"].mul(net)
                    it.overrides[fX.key] = fake_expv
                    t = env.make(mod, cls, dict(kw, scale=Fraction(1, 2)), kind)
                    if kind == "callable":
                        it.method(t, "condition_", Rat.atom("cond1"))
                    it.method(t, "update")
                    u_before = it.method(t, "tensor").clone()
                    inv = it.getattr(t, "inv") if via == "inv" else it.method(t, "inverse", link=link, update_buffers=upd)
                    if inv is t:
                        return False, "inverse() returned the transform itself"
                    if not teq(it.method(t, "tensor"), u_before):
                        return False, f"{cls}: taking the inverse changed the buffered displacement of the transform itself"
                    if upd:
                        # the buffered displacement must already be the inverse one
                        u_i = it.method(inv, "tensor")
                        if not teq(u_i, u_before.mul(-1)):
                            return False, f"{cls}: inverse(update_buffers=True) did not update the buffered displacement"
                    del rec[:]
                    it.method(t, "update")
                    fwd = list(rec)
                    del rec[:]
                    it.method(inv, "update")
                    bwd = list(rec)
                    if len(fwd) != 1 or len(bwd) != 1:
                        return False, f"expv reached {len(fwd)} / {len(bwd)} times"
                    if fwd[0]["net"] != Fraction(1, 2) or bwd[0]["net"] != Fraction(-1, 2):
                        return False, f"{cls}: forward scale {fwd[0]['net']}, inverse scale {bwd[0]['net']} (expected 1/2, -1/2)"
                    if not teq(fwd[0]["flow"], bwd[0]["flow"]):
                        return False, "inverse does not exponentiate the same velocity field"
                    if fwd[0]["steps"] != bwd[0]["steps"] or fwd[0]["align_corners"] != bwd[0]["align_corners"]:
                        return False, "inverse uses different steps / convention"
                    back = it.method(inv, "inverse")
                    del rec[:]
                    it.method(back, "update")
                    if rec[0]["net"] != Fraction(1, 2):
                        return False, "inverse().inverse() does not restore the scale"
                    # parameter change
                    p = it.method(t, "data")
                    how = "replace" if (kind == "parameter" or link) else "inplace"
                    if kind == "callable":
                        if not link:
                            return True, ""
                        how = "condition_"
                        it.method(t, "condition_", Rat.atom("cond2"))
                    elif how == "replace":
                        it.method(t, "data_", env.sym(list(p.shape)))
                    else:
                        for i, v in zip(p.idx, env.sym(list(p.shape)).flat()):
                            p.store[i] = v
                    del rec[:]
                    it.method(t, "update")
                    it.method(inv, "update")
                    if teq(rec[0]["flow"], fwd[0]["flow"]):
                        raise AnalysisError(f"parameter change had no effect (adaptor) {locals().get('name', locals().get('cls'))} {kind} {link} {upd} {via}")
                    if not teq(rec[0]["flow"], rec[1]["flow"]) or rec[1]["net"] != Fraction(-1, 2) or rec[0]["net"] != Fraction(1, 2):
                        return False, (f"{cls} ({kind} parameters, link={link}): after the parameters were changed ({how}) and update(), "
                                       f"the inverse taken before does not exponentiate the new velocity field with the negated scale")
                    if kind != "callable":
                        # the inverse stays the inverse when it is put on another grid (functional grid(g) and in-place grid_(g))
                        for how in ("grid", "grid_"):
                            inv_r = it.method(inv, "grid", env.grid2) if how == "grid" else it.method(it.method(inv, "grid", env.grid), "grid_", env.grid2)
                            del rec[:]
                            it.method(inv_r, "update")
                            if len(rec) != 1 or rec[0]["net"] != Fraction(-1, 2) or rec[0]["steps"] != fwd[0]["steps"]:
                                return False, (f"{cls}: after {how}(other grid) the inverse exponentiates with scale "
                                               f"{rec[0]['net'] if rec else '?'} and steps {rec[0]['steps'] if rec else '?'} "
                                               f"(expected -1/2 and {fwd[0]['steps']})")
                    return True, ""
                _guard(ctx, "T67.inverse-velocity", f"{cls}:{kind}:link={link}:upd={upd}:{via}", fInv,
                       f"class={cls} params={kind} link={link} update_buffers={upd} via={via}", thv)


# ------------------------------------------------------------------------------------------------ GenericSpatialTransform (C06, C07)
def _generic(env, transform: str, affine_model: str = "TRS", rotation_model: str = "ZXZ", params=False, spacing: int = 1):
    prog = env.ctx.prog
    G = "deepali.spatial.generic"
    cfg = Obj(prog.cls(G, "TransformConfig"))
    cfg.attrs.update({"transform": transform, "affine_model": affine_model, "rotation_model": rotation_model,
                      "control_point_spacing": spacing, "scaling_and_squaring_steps": 1, "flip_grid_coords": False})
    return env.it.new(prog.cls(G, "GenericSpatialTransform"), env.grid, params=params, config=cfg)


def run_generic(ctx: Ctx, inverse: bool = False) -> None:
    prog = ctx.prog
    G = "deepali.spatial.generic"
    fI = prog.func(G, "GenericSpatialTransform.__init__")
    ctx.fn(fI)
    letters = {"T": "Translation", "R": "EulerRotation", "S": "AnisotropicScaling", "K": "Shearing", "Q": "QuaternionRotation",
               "A": "HomogeneousTransform"}
    if not inverse:
        ctx.rule("T67.generic", "GenericSpatialTransform(config): the affine model string in matrix notation ('TRS' = T R S, rightmost "
                                "factor applied first) or composition notation ('T o R o S') lists the elementary transforms so that "
                                "tensor() is exactly that matrix product of the members' matrices; 'Affine o X' applies the non-rigid "
                                "component X first and 'X o Affine' applies it last; freshly constructed it is the identity; the rotation "
                                "order of the config reaches the EulerRotation")
    else:
        ctx.rule("T67.generic-inverse", "GenericSpatialTransform.inverse() of an affine configuration composes with the transform to the identity "
                                        "(both orders) and reverses the member order")
    models = [("TRS", 3), ("T o R o S", 3), ("TRS", 2), ("SRT", 3), ("TRKS", 2), ("TQ", 3), ("A", 2), ("RT", 3)]
    for am, D in models:
        def th(am=am, D=D):
            env = LEnv(ctx, D, symbolic_grid=False)
            it = env.it
            t = _generic(env, "Affine", am, "XZX" if D == 3 else "ZXZ")
            keys = [k for k in am.replace(" o ", "")]
            members = list(it.method(t, "named_transforms"))
            got_cls = [m.cls.name for _, m in members]
            want_cls = [letters[k] for k in reversed(keys)]
            if got_cls != want_cls:
                return False, f"affine_model={am!r}: members are applied in the order {got_cls}, the model string says {want_cls}"
            if not inverse:
                M0 = as_h(it.method(t, "tensor")[0])
                if not teq(M0, identity_h(D)):
                    return False, f"GenericSpatialTransform(affine_model={am!r}) is not the identity after construction"
            env.set_params(t)
            mats = {}
            for _, m in members:
                mats[m.cls.name] = as_h(it.method(m, "tensor")[0])
                if m.cls.name == "EulerRotation" and D == 3:
                    order = it.getattr(m, "order")
                    if str(order).upper().replace("R", "").replace(" O ", "").replace(" ", "") != "XZX":
                        return False, f"config.rotation_model='XZX' did not reach the EulerRotation (order={order!r})"
            want = identity_h(D)
            for k in reversed(keys):  # rightmost factor first
                want = compose(mats[letters[k]], want)
            M = as_h(it.method(t, "tensor")[0])
            if not teq(M, want):
                return False, f"affine_model={am!r}: tensor() is not the matrix product {' '.join(keys)} of the members"
            if inverse:
                inv = it.method(t, "inverse")
                it.method(inv, "update")
                Mi = as_h(it.method(inv, "tensor")[0])
                if not teq(compose(Mi, M), identity_h(D)) or not teq(compose(M, Mi), identity_h(D)):
                    return False, f"affine_model={am!r}: inverse().tensor() composed with tensor() is not the identity"
                if [m.cls.name for _, m in it.method(inv, "named_transforms")] != list(reversed(got_cls)):
                    return False, "inverse() does not reverse the member order"
            return True, ""
        _guard(ctx, "T67.generic-inverse" if inverse else "T67.generic", f"{am}:D={D}", fI, f"affine_model={am!r} D={D}", th)
    if inverse:
        return
    from .t6_transforms import TEnv
    for model, first in (("Affine o SVF", "nonrigid"), ("SVF o Affine", "affine"), ("Affine o DDF", "nonrigid"), ("FFD o Affine", "affine"),
                         ("DDF", "nonrigid"), ("Affine o SVFFD", "nonrigid")):
        def thn(model=model, first=first):
            env = TEnv(ctx, 2)
            it = env.it
            t = _generic(env, model, "TRS", "ZXZ", spacing=2 if "FFD" in model else 1)
            names = [k for k, _ in it.method(t, "named_transforms")]
            if "nonrigid" not in names:
                return False, f"transform={model!r}: no non-rigid component was created ({names})"
            pos = names.index("nonrigid")
            if "Affine" in model:
                if (first == "nonrigid") != (pos == 0) or (first == "affine") != (pos == len(names) - 1):
                    return False, f"transform={model!r}: members are applied in the order {names}"
            want_cls = {"SVF": "StationaryVelocityFieldTransform", "DDF": "DisplacementFieldTransform", "FFD": "FreeFormDeformation",
                        "SVFFD": "StationaryVelocityFreeFormDeformation"}[[c for c in model.split(" o ") if c != "Affine"][0]]
            nr = dict(it.method(t, "named_transforms"))["nonrigid"]
            if nr.cls.name != want_cls:
                return False, f"transform={model!r}: non-rigid component is a {nr.cls.name}"
            x = STensor.symbols("x", [1, 2, 2])
            y = it.call_value(t, [x], {})
            if not teq(y, x):
                return False, f"GenericSpatialTransform(transform={model!r}) is not the identity after construction"
            return True, ""
        _guard(ctx, "T67.generic", f"{model}", fI, f"transform={model!r}", thn)


def run_linked_linear(ctx: Ctx) -> None:
    """A transform linked to another one (link_) evaluates exactly the parameters of its counterpart, with the counterpart's meaning."""
    prog = ctx.prog
    P = "deepali.spatial.parametric"
    fL = prog.func(P, "ParametricTransform.link_")
    fH = prog.func(P, "ParametricTransform.has_parameters")
    ctx.fn(fL)
    ctx.fn(fH)
    ctx.rule("T6x.linked-linear", "for every elementary linear model: a second instance linked to the first (t2.link_(t1)) — t1 with optimisable "
                                  "(Parameter, squashed) or fixed parameters — has the same matrix and point map as t1, right after linking, after "
                                  "an in-place (optimiser-style) change of t1's parameters followed by a call, and after data_(new) on t1; "
                                  "unlink_() + data_ of t1's values gives the same map again")
    for name, dims in LINEAR[:7]:
        ci = _linear_cls(ctx, name)
        for D in dims[-1:]:
            for kind in ("parameter", "buffer"):
                def th(name=name, D=D, kind=kind):
                    env = LEnv(ctx, D, symbolic_grid=False)
                    it = env.it
                    t1 = _mk_linear(env, name, kind)
                    if kind == "buffer":
                        env.set_params(t1)
                    else:
                        _change(env, t1, "inplace")
                    t2 = _mk_linear(env, name, "buffer")
                    it.method(t2, "link_", t1)
                    x = STensor.symbols("x", [1, 2, D])

                    def agree(when):
                        it.method(t1, "update")
                        it.method(t2, "update")
                        if not teq(it.method(t2, "tensor"), it.method(t1, "tensor")):
                            return f"{name} ({kind} parameters): {when} the linked transform's matrix differs from its counterpart's"
                        if not teq(it.call_value(t2, [x], {}), it.call_value(t1, [x], {})):
                            return f"{name} ({kind} parameters): {when} the linked transform maps points differently from its counterpart"
                        return ""
                    why = agree("right after link_()")
                    if why:
                        return False, why
                    _change(env, t1, "inplace")
                    why = agree("after an in-place change of the counterpart's parameters")
                    if why:
                        return False, why
                    _change(env, t1, "replace")
                    why = agree("after data_(new) on the counterpart")
                    return (not why), why
                _guard(ctx, "T6x.linked-linear", f"{name}:D={D}:{kind}", fL, f"class={name} D={D} params={kind} link_(other)", th)


def run_point_vs_grid_route(ctx: Ctx) -> None:
    """Non-rigid models: the point route (field sampled at the points) and the grid route (field resized to the lattice) are one mapping."""
    from .t6_transforms import TEnv
    prog = ctx.prog
    fS = prog.func("deepali.core.flow", "sample_flow")
    ctx.fn(fS)
    ctx.fn(prog.func("deepali.core.flow", "warp_points"))
    ctx.fn(prog.func("deepali.core.flow", "warp_grid"))
    ctx.rule("T67.point-vs-grid", "for a dense displacement model with symbolic vectors and either align_corners: at the transform's own lattice "
                                  "t(x) (field sampled at the points) and t(x, grid=True) (field resized to the lattice) both add exactly the "
                                  "stored vectors; a constant field c maps every point of a twice as fine lattice of the same domain — which "
                                  "includes points beyond the outermost samples of the field, where only the padding rule decides — to x + c "
                                  "(the resized-field route on another lattice is torch's interpolate and stays uninterpreted)")
    mod, cls, kw = NONRIGID[0]
    for ac in (False, True):
        def th(ac=ac):
            env = TEnv(ctx, 2)
            it = env.it
            size = (3, 4)
            g = it.new(env.Grid, size=size, align_corners=ac)
            env.grid = g
            t = env.make(mod, cls, kw, "buffer")
            it.method(t, "update")
            u = it.method(t, "tensor")
            own = it.method(g, "coords").unsqueeze(0)
            want_own = own.add(u.permute([0, 2, 3, 1]))
            for route in (False, True):
                if not teq(it.call_value(t, [own], {"grid": route}), want_own):
                    return False, f"at its own lattice t(x, grid={route}) is not x + u"
            fine = it.method(g, "resize", tuple(2 * n - 1 for n in size) if ac else tuple(2 * n for n in size))
            x = it.method(fine, "coords").unsqueeze(0)
            c = [Rat.atom("k0"), Rat.atom("k1")]
            const = STensor.from_flat([c[ch] for ch in range(2) for _ in range(size[0] * size[1])], [1, 2, size[1], size[0]])
            it.method(t, "data_", const)
            y = it.call_value(t, [x], {})
            want = x.add(STensor.from_flat(c, [2]))
            if not teq(y, want):
                return False, f"align_corners={ac}: a constant field c does not map every point of the domain to x + c"
            return True, ""
        _guard(ctx, "T67.point-vs-grid", f"align_corners={ac}", fS, f"class={cls} align_corners={ac} point route vs grid route", th)
