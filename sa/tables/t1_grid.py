"""T1: Grid / Cube coordinate-map tables evaluated over the ring domain (C01, C02).

Every obligation is an identity between rational functions in the atoms n_i (size), s_i (spacing), c_i (center) and
the direction cosines parametrised as a product of elementary rotations (cos/sin atoms with s^2 = 1 - c^2).
"""
from __future__ import annotations

import itertools
from fractions import Fraction
from typing import Any, Dict, List, Optional, Tuple

from .. import symt
from ..core import Ctx
from ..index import AnalysisError
from ..ring import Rat, reset_relations
from ..symt import InterpError, STensor, Unsupported, to_rat
from ..tae import Interp, Obj
from .gridsym import fresh_facts, rotation, sym_grid

AXES = ["GRID", "CUBE", "CUBE_CORNERS", "WORLD"]


def teq(a: STensor, b: STensor) -> bool:
    if tuple(a.shape) != tuple(b.shape):
        return False
    return all(to_rat(x).equals(to_rat(y)) for x, y in zip(a.flat(), b.flat()))


def tstr(a: STensor) -> str:
    return str(a.tolist())[:300]


def identity_h(D: int) -> STensor:
    return symt.cat([symt.eye(D), symt.zeros(D, 1)], dim=1)


def as_h(m: STensor) -> STensor:
    """Normalise the three accepted forms (D,), (D, D), (D, D+1) to a (D, D+1) matrix (own code, not linalg's)."""
    if m.ndim == 1:
        D = m.shape[0]
        return symt.cat([symt.eye(D), m.unsqueeze(1)], dim=1)
    D = m.shape[0]
    if m.shape[1] == D:
        return symt.cat([m, symt.zeros(D, 1)], dim=1)
    if m.shape[1] == 1:
        return symt.cat([symt.eye(D), m], dim=1)
    return m.clone()


def compose(b: STensor, a: STensor) -> STensor:
    """Reference composition of (D, D+1) maps: b after a (own arithmetic, independent of linalg.hmm)."""
    D = a.shape[0]
    A = symt.matmul(b[:, :D], a[:, :D])
    t = symt.matmul(b[:, :D], a[:, D:]).add(b[:, D:])
    return symt.cat([A, t], dim=1)


def apply(m: STensor, p: STensor) -> STensor:
    D = m.shape[0]
    return symt.matmul(m[:, :D], p).add(m[:, D])


def make_interp(ctx: Ctx) -> Interp:
    it = Interp(ctx.prog)
    rd = ctx.prog.try_func("deepali.core.math", "round_decimals")
    if rd is not None:
        # exact arithmetic: the *values* of rounding to 6/12 decimals are not modelled (stated assumption) — the body of round_decimals is
        # still interpreted (torch.round = identity on values, torch's result object), so that what it does to its argument is seen, and
        # every application is logged with its number of decimals (symt.ROUND_EVENTS): which results get rounded is a structural fact
        def _round_decimals(interp, args, kwargs, rd=rd):
            b = dict(zip(rd.pos_params, args))
            b.update(kwargs)
            dec = b.get("decimals", 0)
            if dec:
                symt.ROUND_EVENTS.append(int(dec))
            ov = interp.overrides.pop(rd.key)
            symt.ROUND_EXACT[0] += 1
            try:
                return interp.call(rd, *args, **kwargs)
            finally:
                symt.ROUND_EXACT[0] -= 1
                interp.overrides[rd.key] = ov
        it.overrides[rd.key] = _round_decimals
    return it


class GridTables:
    def __init__(self, ctx: Ctx, D: int, align_corners: bool, fractional: bool = False):
        reset_relations()
        self.ctx = ctx
        self.D = D
        self.ac = align_corners
        self.facts = fresh_facts()
        self.it = make_interp(ctx)
        if fractional:
            # a grid whose internal float size is not integral: downsample() of odd sizes (7, 5, 9) -> _size (3.5, 2.5, 4.5),
            # reported size() (4, 3, 5). All coordinate maps must be those of the *reported* size, spacing and center.
            it = self.it
            s0 = [Rat.atom(f"s{i}") for i in range(D)]
            c0 = [Rat.atom(f"c{i}") for i in range(D)]
            for x in s0:
                self.facts.declare_positive(x)
            Rm = rotation(D, "")
            Grid = ctx.prog.cls("deepali.core.grid", "Grid")
            g0 = it.new(Grid, size=(7, 5, 9)[:D], spacing=STensor.from_flat(s0, [D]), center=STensor.from_flat(c0, [D]),
                        direction=Rm, align_corners=align_corners)
            g = it.method(g0, "downsample")
            n = [int(x) for x in it.method(g, "size")]
            if any(to_rat(x).equals(to_rat(y)) for x, y in zip(g.attrs["_size"].flat(), n)):
                raise ScenarioUnavailable("downsample() of an odd-sized grid does not keep a non-integral internal size: no fractional-size grid can be built")
            self.grid = g
            self.atoms = {"n": [Rat.of(k) for k in n], "s": [to_rat(x) for x in it.method(g, "spacing").flat()],
                          "c": [to_rat(x) for x in it.method(g, "center").flat()], "R": Rm}
        else:
            self.grid, self.atoms = sym_grid(self.it, D, "", align_corners, self.facts)
        self.Axes = ctx.prog.cls("deepali.core.grid", "Axes")
        self.ax = {a: self.it.enum(self.Axes, a) for a in AXES}
        self._T: Dict[Tuple[str, str, bool], STensor] = {}
        self._raw: Dict[Tuple[str, str, bool], STensor] = {}
        self.tagD = f"D={D},align_corners={align_corners}" + (",fractional-size" if fractional else "")

    def T(self, a: str, b: str, vectors: bool = False) -> STensor:
        k = (a, b, vectors)
        if k not in self._T:
            m = self.it.method(self.grid, "transform", self.ax[a], self.ax[b], vectors=vectors)
            self._raw[k] = m
            self._T[k] = m if vectors else as_h(m)
        return self._T[k]


def run_grid_tables(ctx: Ctx, for_c02: bool = False) -> None:
    prog = ctx.prog
    fT = prog.func("deepali.core.grid", "Grid.transform")
    fV = prog.func("deepali.core.grid", "Grid.transform_vectors")
    fA = prog.func("deepali.core.grid", "Grid.apply_transform")
    for f in (fT, fV, fA, prog.func("deepali.core.grid", "Grid.affine"), prog.func("deepali.core.grid", "Grid.inverse_affine"),
              prog.func("deepali.core.grid", "Grid.origin"), prog.func("deepali.core.linalg", "hmm"),
              prog.func("deepali.core.linalg", "homogeneous_matmul"), prog.func("deepali.core.linalg", "homogeneous_transform"),
              prog.func("deepali.core.linalg", "homogeneous_matrix")):
        ctx.fn(f)
    R = {
        "T1.exhaustive": "every ordered pair of coordinate systems yields a matrix (no NotImplementedError / exception arm reachable)",
        "T1.inverse": "T[B->A] o T[A->B] = identity as rational-function identity in n, s, c, R",
        "T1.triangle": "T[A->C] = T[B->C] o T[A->B] for all ordered triples of distinct systems",
        "T1.anchor": "documented anchors: index 0 -> origin, (n-1)/2 -> center and cube 0, 0/n-1 -> cube-corners -1/+1, -1/2 / n-1/2 -> cube -1/+1",
        "T1.vectors": "transform(vectors=True) equals the linear part of the point map",
        "T1.transform_vectors": "transform_vectors(v, A, B) = linear part of T[A->B] applied to v (closed-form scale/affine path)",
        "T1.apply": "apply_transform / transform_points / *_to_* helpers apply exactly T[A->B] (rounding not modelled) and leave the points they were given unchanged (default rounding, explicit decimals, none; identity arms included); default rounding is 12 decimals towards the cubes, 6 towards GRID and none towards WORLD",
        "T1.two-grids": "transform(A, B, to_grid=g2) = g2.T[WORLD->B] o g1.T[A->WORLD]",
        "T1.itk": "GRID->WORLD is p = o + R diag(s) i with o = c - R diag(s) (n-1)/2 (ITK index-to-physical convention); WORLD->GRID its inverse",
    }
    for k, v in R.items():
        ctx.rule(k, v)
    ctx.assumptions += ["exact rational arithmetic (IEEE rounding and the default 6/12-decimals rounding are not modelled)",
                        "sizes n_i are integers > 1 (n = 1 divides by zero in the corner convention: side condition)",
                        "direction cosines range over products of elementary rotations Rz Ry Rx (all of SO(3)) / SO(2)"]
    for D in (2, 3):
        for ac in (True, False):
            try:
                _grid_obligations(ctx, D, ac, for_c02)
                if not for_c02 or D == 2:
                    _grid_obligations(ctx, D, ac, for_c02, fractional=True)
            except Unsupported as e:
                raise AnalysisError(f"T1 D={D} align_corners={ac}: {e}")


class ScenarioUnavailable(Exception):
    """A scenario's receiver cannot be built on this tree (e.g. no operation yields a grid with a non-integral internal size any more).
    For properties that only *use* such receivers the scenario is then vacuous: it is skipped with a note (no alarm, no error)."""


def _freeze_closure(fn):
    """Copy of ``fn`` whose free variables are bound to their *current* values (loop variables of the enclosing table function are
    rebound before a deferred thunk runs)."""
    import types
    if not isinstance(fn, types.FunctionType) or not fn.__closure__:
        return fn
    cells = []
    for c in fn.__closure__:
        try:
            cells.append(types.CellType(c.cell_contents))
        except ValueError:  # not yet assigned
            cells.append(c)
    g = types.FunctionType(fn.__code__, fn.__globals__, fn.__name__, fn.__defaults__, tuple(cells))
    g.__kwdefaults__ = fn.__kwdefaults__
    return g


def _guard(ctx: Ctx, rule: str, inst: str, fi, construct: str, thunk, expect=None, msg: str = ""):
    """Evaluate thunk() -> (ok, detail). InterpError counts as failed obligation."""
    focus = getattr(ctx, "focus", None)
    if focus and not rule.startswith(focus):
        return True
    par = getattr(ctx, "_par", None)
    if par is not None:
        # inside ``with ctx.parallel():`` — queue; evaluated by a worker process when the section closes
        frozen = _freeze_closure(thunk)

        def job():
            ctx._par = None
            _guard(ctx, rule, inst, fi, construct, frozen, expect, msg)
        par.defer(job)
        return True
    try:
        ok, detail = thunk()
    except ScenarioUnavailable as e:
        note = f"scenario skipped: {e}"
        if note not in ctx.notes:
            ctx.notes.append(note)
        return True
    except InterpError as e:
        ok, detail = False, f"raises {e}"
    except ZeroDivisionError as e:
        ok, detail = False, f"division by zero: {e}"
    ctx.ob(rule, inst, ok, {"detail": str(detail)[:200]} if detail is not None else None)
    if not ok:
        ctx.report(rule, fi, construct, f"{msg + ': ' if msg else ''}{str(detail)[:260]}")
    return ok


def _grid_obligations(ctx: Ctx, D: int, ac: bool, for_c02: bool, fractional: bool = False) -> None:
    # the obligations of one grid share its symbolic environment (read-only): evaluated by forked workers when the section closes
    with ctx.parallel():
        _grid_obligations_(ctx, D, ac, for_c02, fractional)


def _grid_obligations_(ctx: Ctx, D: int, ac: bool, for_c02: bool, fractional: bool = False) -> None:
    prog = ctx.prog
    try:
        gt = GridTables(ctx, D, ac, fractional)
    except ScenarioUnavailable as e:
        note = f"T1 fractional-size scenario skipped: {e}"
        if note not in ctx.notes:
            ctx.notes.append(note)
        return
    it, g = gt.it, gt.grid
    fT = prog.func("deepali.core.grid", "Grid.transform")
    fV = prog.func("deepali.core.grid", "Grid.transform_vectors")
    fA = prog.func("deepali.core.grid", "Grid.apply_transform")
    n, s, c, Rm = gt.atoms["n"], gt.atoms["s"], gt.atoms["c"], gt.atoms["R"]
    tag = gt.tagD
    I = identity_h(D)
    nT = STensor.from_flat(n, [D])
    # reference GRID->WORLD: own arithmetic from the documented convention
    RS = symt.matmul(Rm, symt.diag(STensor.from_flat(s, [D])))
    half = STensor.from_flat([(x - 1) / 2 for x in n], [D])
    o_ref = STensor.from_flat(c, [D]).sub(symt.matmul(RS, half))
    GW_ref = symt.cat([RS, o_ref.unsqueeze(1)], dim=1)

    # ---- ITK convention (C02 core; also anchors C01)
    def itk():
        m = gt.T("GRID", "WORLD")
        return teq(m, GW_ref), f"got {tstr(m)}"
    _guard(ctx, "T1.itk", f"{tag}:GRID->WORLD", fT, f"axes=GRID to_axes=WORLD {tag}", itk)

    def itk_inv():
        m = gt.T("WORLD", "GRID")
        return teq(compose(m, GW_ref), I) and teq(compose(GW_ref, m), I), f"got {tstr(m)}"
    _guard(ctx, "T1.itk", f"{tag}:WORLD->GRID", fT, f"axes=WORLD to_axes=GRID {tag}", itk_inv)

    def origin_ok():
        o = it.method(g, "origin")
        return teq(o, o_ref), f"origin() = {tstr(o)}"
    _guard(ctx, "T1.itk", f"{tag}:origin", prog.func("deepali.core.grid", "Grid.origin"), f"origin {tag}", origin_ok)

    def origin_setter():
        # origin_(o_ref + d) must move the center by d: center' = c + d
        d = STensor.from_flat([Rat.atom(f"d{i}") for i in range(D)], [D])
        g2 = it.method(g, "origin", o_ref.add(d))
        c2 = it.method(g2, "center")
        o2 = it.method(g2, "origin")
        same = it.method(g, "center")
        return (teq(c2, STensor.from_flat(c, [D]).add(d)) and teq(o2, o_ref.add(d)) and teq(same, STensor.from_flat(c, [D]))), \
            f"center after origin(o+d) = {tstr(c2)}"
    _guard(ctx, "T1.itk", f"{tag}:origin_", prog.func("deepali.core.grid", "Grid.origin_"), f"origin_ {tag}", origin_setter)

    if for_c02:
        # both construction routes agree (origin= vs center=)
        def ctor_routes():
            Grid = prog.cls("deepali.core.grid", "Grid")
            g3 = it.new(Grid, size=nT, spacing=STensor.from_flat(s, [D]), origin=o_ref, direction=Rm, align_corners=ac)
            return teq(it.method(g3, "center"), STensor.from_flat(c, [D])), f"center from origin= route {tstr(it.method(g3, 'center'))}"
        _guard(ctx, "T1.itk", f"{tag}:ctor-origin-route", prog.func("deepali.core.grid", "Grid.__init__"),
               f"ctor origin route {tag}", ctor_routes)
        return

    # ---- exhaustive + vectors
    for a, b in itertools.product(AXES, AXES):
        for vec in (False, True):
            def ex(a=a, b=b, vec=vec):
                gt.T(a, b, vec)
                m = gt._raw[(a, b, vec)]
                want = [(D, D)] if vec else [(D, D + 1), (D, D)]
                return tuple(m.shape) in want, f"shape {tuple(m.shape)}"
            _guard(ctx, "T1.exhaustive", f"{tag}:{a}->{b}:vectors={vec}", fT, f"axes={a} to_axes={b} vectors={vec} {tag}", ex)
        def vecs(a=a, b=b):
            m, v = gt.T(a, b, False), gt.T(a, b, True)
            return teq(m[:, :D], v), f"linear part {tstr(m[:, :D])} vs vectors matrix {tstr(v)}"
        _guard(ctx, "T1.vectors", f"{tag}:{a}->{b}", fT, f"axes={a} to_axes={b} vectors-vs-points {tag}", vecs)
    # ---- inverse
    for a, b in itertools.permutations(AXES, 2):
        def inv(a=a, b=b):
            m = compose(gt.T(b, a), gt.T(a, b))
            return teq(m, I), f"T[{b}->{a}] o T[{a}->{b}] = {tstr(m)}"
        _guard(ctx, "T1.inverse", f"{tag}:{a}<->{b}", fT, f"axes={a} to_axes={b} inverse-pair {tag}", inv)
    # ---- triangle
    for a, b, cc in itertools.permutations(AXES, 3):
        def tri(a=a, b=b, cc=cc):
            lhs = gt.T(a, cc)
            rhs = compose(gt.T(b, cc), gt.T(a, b))
            return teq(lhs, rhs), f"T[{a}->{cc}] = {tstr(lhs)} but via {b}: {tstr(rhs)}"
        _guard(ctx, "T1.triangle", f"{tag}:{a}->{b}->{cc}", fT, f"axes={a} via={b} to_axes={cc} {tag}", tri)
    # ---- anchors
    zero = symt.zeros(D)
    mid = half
    last = STensor.from_flat([x - 1 for x in n], [D])
    ones = symt.ones(D)
    anchors = [
        ("GRID", "WORLD", zero, o_ref, "index 0 -> origin"),
        ("GRID", "WORLD", mid, STensor.from_flat(c, [D]), "index (n-1)/2 -> center"),
        ("GRID", "CUBE", mid, zero, "index (n-1)/2 -> cube 0"),
        ("GRID", "CUBE_CORNERS", mid, zero, "index (n-1)/2 -> cube-corners 0"),
        ("GRID", "CUBE_CORNERS", zero, ones.neg(), "index 0 -> cube-corners -1"),
        ("GRID", "CUBE_CORNERS", last, ones, "index n-1 -> cube-corners +1"),
        ("GRID", "CUBE", zero.sub(Fraction(1, 2)), ones.neg(), "index -1/2 -> cube -1"),
        ("GRID", "CUBE", last.add(Fraction(1, 2)), ones, "index n-1/2 -> cube +1"),
        ("CUBE", "WORLD", zero, STensor.from_flat(c, [D]), "cube 0 -> center"),
        ("CUBE_CORNERS", "WORLD", ones.neg(), o_ref, "cube-corners -1 -> origin"),
    ]
    for a, b, p, q, what in anchors:
        def anc(a=a, b=b, p=p, q=q):
            r = apply(gt.T(a, b), p)
            return teq(r, q), f"{what}: got {tstr(r)} expected {tstr(q)}"
        _guard(ctx, "T1.anchor", f"{tag}:{what}", fT, f"anchor {what} axes={a} to_axes={b} {tag}", anc)
    # ---- transform_vectors closed forms and apply_transform
    v = STensor.from_flat([Rat.atom(f"v{i}") for i in range(D)], [1, D])
    pt = STensor.from_flat([Rat.atom(f"p{i}") for i in range(D)], [1, D])
    for a, b in itertools.product(AXES, AXES):
        def tv(a=a, b=b):
            r = it.method(g, "transform_vectors", v, gt.ax[a], gt.ax[b])
            want = symt.matmul(gt.T(a, b)[:, :D], v[0]).unsqueeze(0)
            return teq(r, want), f"transform_vectors = {tstr(r)} expected {tstr(want)}"
        _guard(ctx, "T1.transform_vectors", f"{tag}:{a}->{b}", fV, f"axes={a} to_axes={b} {tag}", tv)

        def ap(a=a, b=b):
            r = it.method(g, "apply_transform", pt, gt.ax[a], gt.ax[b], decimals=None)
            want = apply(gt.T(a, b), pt[0]).unsqueeze(0)
            r2 = it.method(g, "transform_points", pt, gt.ax[a], gt.ax[b])
            if not (teq(r, want) and teq(r2, want)):
                return False, f"apply_transform = {tstr(r)} expected {tstr(want)}"
            # the points handed in are still the caller's: with the default rounding of the result, and for the identity arms (which
            # return the input itself), the input tensor holds the same values after the call
            for kw in ({}, {"decimals": 3}, {"decimals": None}):
                p0 = pt.clone()
                del symt.ROUND_EVENTS[:]
                it.method(g, "apply_transform", p0, gt.ax[a], gt.ax[b], **kw)
                if not teq(p0, pt):
                    return False, f"apply_transform({kw if kw else 'default rounding'}) changed the points it was given: {tstr(p0)[:80]}"
                # documented rounding policy: by default cube coordinates are rounded to 12 and grid indices to 6 decimals, world
                # coordinates (whose unit is the user's) are not rounded; an explicit number of decimals is honoured, None suppresses
                want_ev = ([] if b == "WORLD" else [6] if b == "GRID" else [12]) if not kw else ([] if kw["decimals"] is None else [kw["decimals"]])
                if list(symt.ROUND_EVENTS) != want_ev:
                    return False, (f"apply_transform({kw if kw else 'default rounding'}) towards {b}: result rounded to {list(symt.ROUND_EVENTS)} decimals, "
                                   f"documented: {want_ev}")
            p0 = pt.clone()
            it.method(g, "transform_points", p0, gt.ax[a], gt.ax[b])
            if not teq(p0, pt):
                return False, f"transform_points changed the points it was given: {tstr(p0)[:80]}"
            return True, ""
        _guard(ctx, "T1.apply", f"{tag}:{a}->{b}", fA, f"axes={a} to_axes={b} {tag}", ap)
    # *_to_* helpers
    cube = "CUBE_CORNERS" if ac else "CUBE"
    helpers = [
        ("index_to_cube", "GRID", None), ("cube_to_index", None, "GRID"), ("index_to_world", "GRID", "WORLD"),
        ("world_to_index", "WORLD", "GRID"), ("cube_to_world", None, "WORLD"), ("world_to_cube", "WORLD", None),
    ]
    for name, a, b in helpers:
        fh = prog.func("deepali.core.grid", f"Grid.{name}")
        ctx.fn(fh)
        for flag in (None, True, False):
            if flag is not None and "cube" not in name:
                continue
            cu = cube if flag is None else ("CUBE_CORNERS" if flag else "CUBE")
            A, B = a or cu, b or cu
            def hp(name=name, A=A, B=B, flag=flag):
                kw = {} if flag is None else {"align_corners": flag}
                p0 = pt.clone()
                r = it.method(g, name, p0, **kw)
                want = apply(gt.T(A, B), pt[0]).unsqueeze(0)
                if not teq(p0, pt):
                    return False, f"{name}(align_corners={flag}) changed the points it was given: {tstr(p0)[:80]}"
                return teq(r, want), f"{name}(align_corners={flag}) = {tstr(r)} expected T[{A}->{B}] = {tstr(want)}"
            _guard(ctx, "T1.apply", f"{tag}:{name}:align_corners={flag}", fh, f"helper={name} align_corners={flag} {tag}", hp)
    # ---- two grids
    g2, at2 = sym_grid(it, D, "b", not ac if D == 2 else ac, gt.facts)
    for a, b in itertools.product(AXES, AXES):
        def two(a=a, b=b):
            m = as_h(it.method(g, "transform", gt.ax[a], gt.ax[b], to_grid=g2))
            t1 = gt.T(a, "WORLD")
            t2 = as_h(it.method(g2, "transform", gt.ax["WORLD"], gt.ax[b]))
            want = compose(t2, t1)
            mv = it.method(g, "transform", gt.ax[a], gt.ax[b], to_grid=g2, vectors=True)
            rv = it.method(g, "transform_vectors", v, gt.ax[a], gt.ax[b], to_grid=g2)
            ok = teq(m, want) and teq(mv, want[:, :D]) and teq(rv, symt.matmul(want[:, :D], v[0]).unsqueeze(0))
            return ok, f"two-grid map {tstr(m)[:120]} expected {tstr(want)[:120]}"
        _guard(ctx, "T1.two-grids", f"{tag}:{a}->{b}", fT, f"axes={a} to_axes={b} to_grid {tag}", two)
    # apply_transform / transform_vectors towards a second grid: an unrelated one, and one that covers the same cube (Grid.cube())
    # with another size and the other align_corners flag (where only the cube coordinates of the respective flags coincide)
    Grid = prog.cls("deepali.core.grid", "Grid")
    n3 = [x + 1 for x in n]
    s3 = [s[i] * (n[i] - int(ac)) / (n3[i] - int(not ac)) for i in range(D)]
    for x in s3 + n3:
        gt.facts.declare_positive(to_rat(x))
    g3 = it.new(Grid, size=STensor.from_flat(n3, [D]), spacing=STensor.from_flat(s3, [D]), center=STensor.from_flat(c, [D]),
                direction=Rm, align_corners=not ac)
    same_dom = bool(it.method(g, "same_domain_as", g3))
    _guard(ctx, "T1.two-grids", f"{tag}:same_domain_as", prog.func("deepali.core.grid", "Grid.same_domain_as"), f"same_domain_as {tag}",
           lambda: (same_dom, "two grids with equal center, orientation and cube extent (n - [align_corners]) * spacing under their own "
                              "flags are not reported as covering the same domain"))
    for gname, gx in (("other grid", g2), ("same-domain grid", g3)):
        for a, b in itertools.product(AXES, AXES):
            def two_apply(a=a, b=b, gx=gx):
                want_m = compose(as_h(it.method(gx, "transform", gt.ax["WORLD"], gt.ax[b])), gt.T(a, "WORLD"))
                r = it.method(g, "apply_transform", pt, gt.ax[a], gt.ax[b], to_grid=gx, decimals=None)
                want = apply(want_m, pt[0]).unsqueeze(0)
                if not teq(r, want):
                    return False, f"apply_transform(to_grid) = {tstr(r)[:100]} expected {tstr(want)[:100]}"
                rv = it.method(g, "apply_transform", v, gt.ax[a], gt.ax[b], to_grid=gx, vectors=True, decimals=None)
                wv = symt.matmul(want_m[:, :D], v[0]).unsqueeze(0)
                if not teq(rv, wv):
                    return False, f"apply_transform(to_grid, vectors=True) = {tstr(rv)[:100]} expected {tstr(wv)[:100]}"
                return True, ""
            _guard(ctx, "T1.two-grids", f"{tag}:apply:{gname}:{a}->{b}", fA, f"apply_transform axes={a} to_axes={b} to_grid={gname} {tag}", two_apply)
    # module-level wrappers
    for fname, vec in (("grid_transform_points", False), ("grid_transform_vectors", True)):
        fw = prog.func("deepali.core.grid", fname)
        ctx.fn(fw)
        def wr(fname=fname, vec=vec, fw=fw):
            a, b = "CUBE", "CUBE_CORNERS"
            if vec:
                r = it.call(fw, v, g, gt.ax[a], g2, gt.ax[b])
                want = symt.matmul(compose(as_h(it.method(g2, "transform", gt.ax["WORLD"], gt.ax[b])), gt.T(a, "WORLD"))[:, :D], v[0]).unsqueeze(0)
            else:
                r = it.call(fw, pt, g, gt.ax[a], g2, gt.ax[b], decimals=None)
                want = apply(compose(as_h(it.method(g2, "transform", gt.ax["WORLD"], gt.ax[b])), gt.T(a, "WORLD")), pt[0]).unsqueeze(0)
            return teq(r, want), f"{fname} = {tstr(r)[:100]} expected {tstr(want)[:100]}"
        _guard(ctx, "T1.two-grids", f"{tag}:{fname}", fw, f"wrapper={fname} {tag}", wr)


# --------------------------------------------------------------------------- sample lattice (coords / points)
def run_lattice(ctx: Ctx) -> None:
    prog = ctx.prog
    fC = prog.func("deepali.core.grid", "Grid.coords")
    fP = prog.func("deepali.core.grid", "Grid.points")
    ctx.fn(fC)
    ctx.fn(fP)
    ctx.rule("T1.lattice", "coords(): for concrete n in 1..6 per axis the reported normalised coordinates equal T[GRID->cube] applied to "
                           "the integer indices, there are exactly n of them, all inside [-1, 1]; points(axes) equals T[GRID->axes] "
                           "of the indices (exact arithmetic; the float32 arange count for n up to 4096 is not decided)")
    ctx.rule("T1.lattice-symbolic", "coords(): for symbolic n > 1 the arange(start, stop, step) arguments satisfy step = scale and "
                                    "start = offset of T[GRID->cube] and (stop - start)/step - (n - 1) is a constant in [1/100, 99/100] (n samples for every n, robust to rounding)")
    sizes2 = [(1, 1), (2, 3), (4, 1), (5, 6), (3, 2)]
    sizes3 = [(2, 3, 4), (1, 5, 2), (3, 1, 1)]
    for D, sizes in ((2, sizes2), (3, sizes3)):
        for size in sizes:
            for ac in (True, False):
                reset_relations()
                facts = fresh_facts()
                it = make_interp(ctx)
                Grid = prog.cls("deepali.core.grid", "Grid")
                Axes = prog.cls("deepali.core.grid", "Axes")
                s = [Rat.atom(f"s{i}") for i in range(D)]
                c = [Rat.atom(f"c{i}") for i in range(D)]
                for x in s:
                    facts.declare_positive(x)
                Rm = rotation(D)
                g = it.new(Grid, size=size, spacing=STensor.from_flat(s, [D]), center=STensor.from_flat(c, [D]), direction=Rm,
                           align_corners=ac)
                tag = f"size={size},align_corners={ac}"
                for flag in (None, True, False):
                    cu = ("CUBE_CORNERS" if ac else "CUBE") if flag is None else ("CUBE_CORNERS" if flag else "CUBE")
                    def lat(flag=flag, cu=cu):
                        kw = {} if flag is None else {"align_corners": flag}
                        co = it.method(g, "coords", **kw)
                        shape = tuple(reversed(size)) + (D,)
                        if tuple(co.shape) != shape:
                            return False, f"coords shape {tuple(co.shape)} expected {shape}"
                        if any(1 == n for n in size):
                            # a single sample sits at cube coordinate 0 in either convention
                            pass
                        use_map = all(n > 1 for n in size) or cu == "CUBE"
                        m = as_h(it.method(g, "transform", it.enum(Axes, "GRID"), it.enum(Axes, cu))) if use_map else None
                        for ix in itertools.product(*[range(k) for k in reversed(size)]):
                            idx = list(reversed(ix))  # (x, y, z)
                            got = co[tuple(ix)]
                            want = apply(m, STensor.from_flat(idx, [D])) if use_map else None
                            if want is None:
                                # corner convention undefined for n == 1 along that axis: expect 0 there
                                vals = []
                                for d in range(D):
                                    if size[d] == 1:
                                        vals.append(Rat.of(0))
                                    else:
                                        vals.append(Rat.of(Fraction(2 * idx[d], size[d] - 1) - 1))
                                want = STensor.from_flat(vals, [D])
                            if not teq(got, want):
                                return False, f"coords{ix} = {tstr(got)} expected {tstr(want)}"
                            for x in got.flat():
                                v = to_rat(x).const_value()
                                if not -1 <= v <= 1:
                                    return False, f"coordinate {v} outside [-1, 1]"
                        return True, None
                    _guard(ctx, "T1.lattice", f"{tag}:flag={flag}", fC, f"coords {tag} align_corners_arg={flag}", lat)
                for axn in ("GRID", "CUBE", "CUBE_CORNERS", "WORLD"):
                    if any(n == 1 for n in size) and axn == "CUBE_CORNERS":
                        continue
                    def pts(axn=axn):
                        pts_ = it.method(g, "points", it.enum(Axes, axn))
                        m = as_h(it.method(g, "transform", it.enum(Axes, "GRID"), it.enum(Axes, axn)))
                        for ix in itertools.product(*[range(k) for k in reversed(size)]):
                            idx = list(reversed(ix))
                            want = apply(m, STensor.from_flat(idx, [D]))
                            if not teq(pts_[tuple(ix)], want):
                                return False, f"points({axn}){ix} = {tstr(pts_[tuple(ix)])} expected {tstr(want)}"
                        return True, None
                    _guard(ctx, "T1.lattice", f"{tag}:points:{axn}", fP, f"points axes={axn} {tag}", pts)
    # symbolic n: capture arange arguments
    from .. import tae
    for ac in (True, False):
        reset_relations()
        facts = fresh_facts()
        it = make_interp(ctx)
        g, at = sym_grid(it, 2, "", ac, facts)
        captured: List[Tuple[Any, ...]] = []

        class _Stop(Exception):
            pass
        orig = tae._TORCH["arange"]

        def hook(*a, **k):
            captured.append(a)
            if len(captured) >= 2:
                raise _Stop()
            return symt.zeros(1)
        tae._TORCH["arange"] = hook
        try:
            try:
                it.method(g, "coords")
            except _Stop:
                pass
        finally:
            tae._TORCH["arange"] = orig
        Axes = prog.cls("deepali.core.grid", "Axes")
        cu = "CUBE_CORNERS" if ac else "CUBE"
        m = as_h(it.method(g, "transform", it.enum(Axes, "GRID"), it.enum(Axes, cu)))
        # coords iterates over shape (..., X): first captured call is the last grid axis
        for k, args in enumerate(captured):
            axis = 2 - 1 - k
            def sym(args=args, axis=axis):
                if len(args) != 3:
                    return False, f"arange called with {len(args)} positional arguments"
                start, stop, step = [to_rat(x) for x in args]
                a_ = to_rat(m[axis, axis].flat()[0])
                b_ = to_rat(m[axis, 2].flat()[0])
                nn = at["n"][axis]
                cnt = (stop - start) / step - (nn - 1)
                # the end point must lie strictly between two lattice points, with a margin: an end point that coincides with a
                # lattice point in exact arithmetic gives n or n +- 1 samples depending on floating-point rounding
                ok = step.equals(a_) and start.equals(b_) and cnt.is_const() and Fraction(1, 100) <= cnt.const_value() <= Fraction(99, 100)
                return ok, (f"arange(start={start}, stop={stop}, step={step}); map scale {a_} offset {b_}; (stop-start)/step-(n-1) = {cnt} "
                            f"(must be a constant in [1/100, 99/100] so that the number of samples is n for every n regardless of rounding)")
            _guard(ctx, "T1.lattice-symbolic", f"align_corners={ac}:axis={axis}", fC, f"arange axis={axis} align_corners={ac}", sym)
        ctx.require(len(captured) == 2, "coords() no longer builds its lattice with torch.arange (anchor vanished)")


# --------------------------------------------------------------------------- Cube
def run_cube(ctx: Ctx) -> None:
    prog = ctx.prog
    fT = prog.func("deepali.core.cube", "Cube.transform")
    ctx.fn(fT)
    ctx.rule("T1.cube", "Cube.transform: CUBE->WORLD = (R diag(e/2), c), WORLD->CUBE its inverse, identity arms, vectors = linear part; "
                        "origin()/origin_ use the same offset with opposite sign; two-cube composition through WORLD; "
                        "Cube agrees with the Grid it was made from")
    for D in (2, 3):
        reset_relations()
        facts = fresh_facts()
        it = make_interp(ctx)
        Cube = prog.cls("deepali.core.cube", "Cube")
        Axes = prog.cls("deepali.core.grid", "Axes")
        e = [Rat.atom(f"e{i}") for i in range(D)]
        c = [Rat.atom(f"c{i}") for i in range(D)]
        for x in e:
            facts.declare_positive(x)
        Rm = rotation(D)
        cube = it.new(Cube, extent=STensor.from_flat(e, [D]), center=STensor.from_flat(c, [D]), direction=Rm)
        CU, W = it.enum(Axes, "CUBE"), it.enum(Axes, "WORLD")
        I = identity_h(D)
        ref = symt.cat([symt.matmul(Rm, symt.diag(STensor.from_flat([x / 2 for x in e], [D]))), STensor.from_flat(c, [D]).unsqueeze(1)], dim=1)
        tag = f"D={D}"

        def cw():
            m = as_h(it.method(cube, "transform", CU, W))
            return teq(m, ref), f"CUBE->WORLD {tstr(m)} expected {tstr(ref)}"
        _guard(ctx, "T1.cube", f"{tag}:CUBE->WORLD", fT, f"cube axes=CUBE to_axes=WORLD {tag}", cw)

        def wc():
            m = as_h(it.method(cube, "transform", W, CU))
            return teq(compose(m, ref), I), f"WORLD->CUBE {tstr(m)}"
        _guard(ctx, "T1.cube", f"{tag}:WORLD->CUBE", fT, f"cube axes=WORLD to_axes=CUBE {tag}", wc)

        def default():
            m = as_h(it.method(cube, "transform"))
            mi = as_h(it.method(cube, "inverse_transform"))
            return teq(m, ref) and teq(compose(mi, ref), I), "default transform()/inverse_transform()"
        _guard(ctx, "T1.cube", f"{tag}:default", fT, f"cube default {tag}", default)

        def vec():
            ok = True
            for a, b in ((CU, W), (W, CU), (CU, CU), (W, W)):
                m = as_h(it.method(cube, "transform", a, b))
                v = it.method(cube, "transform", a, b, vectors=True)
                ok = ok and teq(m[:, :D], v)
            return ok, "vectors=True vs linear part"
        _guard(ctx, "T1.cube", f"{tag}:vectors", fT, f"cube vectors {tag}", vec)

        def ident():
            return teq(as_h(it.method(cube, "transform", CU, CU)), I) and teq(as_h(it.method(cube, "transform", W, W)), I), "identity arms"
        _guard(ctx, "T1.cube", f"{tag}:identity", fT, f"cube identity arms {tag}", ident)

        def orig():
            o = it.method(cube, "origin")
            want = apply(ref, symt.ones(D).neg())
            d = STensor.from_flat([Rat.atom(f"d{i}") for i in range(D)], [D])
            c2 = it.method(it.method(cube, "origin", want.add(d)), "center")
            return teq(o, want) and teq(c2, STensor.from_flat(c, [D]).add(d)), f"origin {tstr(o)} expected {tstr(want)}; center after origin(o+d) {tstr(c2)}"
        _guard(ctx, "T1.cube", f"{tag}:origin", prog.func("deepali.core.cube", "Cube.origin"), f"cube origin {tag}", orig)

        def pts():
            p = STensor.from_flat([Rat.atom(f"p{i}") for i in range(D)], [1, D])
            r = it.method(cube, "cube_to_world", p)
            r2 = it.method(cube, "world_to_cube", r)
            v = it.method(cube, "transform_vectors", p, CU, W)
            return (teq(r, apply(ref, p[0]).unsqueeze(0)) and teq(r2, p) and teq(v, symt.matmul(ref[:, :D], p[0]).unsqueeze(0))), \
                f"cube_to_world {tstr(r)}"
        _guard(ctx, "T1.cube", f"{tag}:points", prog.func("deepali.core.cube", "Cube.apply_transform"), f"cube apply {tag}", pts)
        # Cube of a Grid agrees with the Grid's cube map
        for ac in (True, False):
            def gc(ac=ac):
                g, at = sym_grid(it, D, "g", ac, facts)
                cu = it.method(g, "cube")
                m = as_h(it.method(cu, "transform", CU, W))
                gax = it.enum(Axes, "CUBE_CORNERS" if ac else "CUBE")
                mg = as_h(it.method(g, "transform", gax, W))
                return teq(m, mg), f"Grid.cube() map {tstr(m)[:100]} vs grid cube map {tstr(mg)[:100]}"
            _guard(ctx, "T1.cube", f"{tag}:grid-cube:align_corners={ac}", prog.func("deepali.core.grid", "Grid.cube"),
                   f"grid.cube align_corners={ac} {tag}", gc)

        # ... also for grids produced by other operations (non-integral internal size; cube()/domain()/Cube.from_grid)
        for ac in (True, False):
            def gcf(ac=ac):
                gt = GridTables(ctx, D, ac, fractional=True)
                it2, g = gt.it, gt.grid
                n, s_, c_ = gt.atoms["n"], gt.atoms["s"], gt.atoms["c"]
                gax = gt.ax["CUBE_CORNERS" if ac else "CUBE"]
                mg = as_h(it2.method(g, "transform", gax, gt.ax["WORLD"]))
                ext = [(n[i] - (1 if ac else 0)) * s_[i] for i in range(D)]
                for how in ("cube", "domain", "from_grid"):
                    if how == "from_grid":
                        from ..tae import ClassVal
                        cu = it2.method(ClassVal(prog.cls("deepali.core.cube", "Cube")), "from_grid", g)
                    else:
                        cu = it2.method(g, how)
                    e_got = it2.method(cu, "extent")
                    if not teq(e_got, STensor.from_flat(ext, [D])):
                        return False, (f"{how}: cube extent {tstr(e_got)[:80]} of a grid with size() = {[int(to_rat(x).const_value()) for x in n]} "
                                       f"is not (n{' - 1' if ac else ''}) * spacing = {tstr(STensor.from_flat(ext, [D]))[:80]}")
                    m = as_h(it2.method(cu, "transform", gt.ax["CUBE"], gt.ax["WORLD"]))
                    if not teq(m, mg):
                        return False, f"{how}: the cube's CUBE->WORLD map differs from the grid's own cube map"
                if not teq(it2.method(g, "cube_extent"), STensor.from_flat(ext, [D])):
                    return False, "cube_extent() differs from (n - [align_corners]) * spacing"
                return True, ""
            _guard(ctx, "T1.cube", f"{tag}:grid-cube:fractional-size:align_corners={ac}", prog.func("deepali.core.grid", "Grid.cube"),
                   f"grid.cube of a fractional-size grid align_corners={ac} {tag}", gcf)


def run_cube_api(ctx: Ctx) -> None:
    """Two-cube maps, the CUBE_CORNERS spellings, the module-level wrappers of cube.py / grid.py and the sequence forms of a Cube."""
    prog = ctx.prog
    CM, GM = "deepali.core.cube", "deepali.core.grid"
    fT = prog.func(CM, "Cube.transform")
    W_ = {n: prog.func(CM, n) for n in ("cube_points_transform", "cube_vectors_transform", "cube_transform_points", "cube_transform_vectors")}
    G_ = {n: prog.func(GM, n) for n in ("grid_points_transform", "grid_vectors_transform")}
    for f in list(W_.values()) + list(G_.values()) + [prog.func(GM, "Grid.inverse_transform"), prog.func(CM, "Cube.from_seq")]:
        ctx.fn(f)
    ctx.rule("T1.cube-api", "Cube.transform(axes, to_axes, to_cube): CUBE->CUBE of another cube is WORLD->CUBE of the other after CUBE->WORLD of "
                            "this one (points and vectors); CUBE_CORNERS is accepted wherever it means the same as CUBE and refused (ValueError) "
                            "where a sampling convention would be needed; GRID is refused; Cube.transform_points / transform_vectors and the "
                            "module-level cube_* / grid_* wrappers return what the corresponding method returns with vectors fixed by their "
                            "name; Grid.inverse_transform is WORLD -> the grid's own cube axes; Cube.numpy / from_numpy / from_seq round-trip "
                            "(centre and origin forms); extent_ rescales about the centre")
    for D in (2, 3):
        def th(D=D):
            reset_relations()
            facts = fresh_facts()
            it = make_interp(ctx)
            Cube = prog.cls(CM, "Cube")
            Axes = prog.cls(GM, "Axes")
            CU, CC, W, GR = (it.enum(Axes, n) for n in ("CUBE", "CUBE_CORNERS", "WORLD", "GRID"))

            def mk(tag):
                e = [Rat.atom(f"{tag}e{i}") for i in range(D)]
                c = [Rat.atom(f"{tag}c{i}") for i in range(D)]
                for x in e:
                    facts.declare_positive(x)
                Rm = rotation(D, tag)
                cube = it.new(Cube, extent=STensor.from_flat(e, [D]), center=STensor.from_flat(c, [D]), direction=Rm)
                ref = symt.cat([symt.matmul(Rm, symt.diag(STensor.from_flat([x / 2 for x in e], [D]))), STensor.from_flat(c, [D]).unsqueeze(1)], dim=1)
                return cube, ref
            c1, r1 = mk("a")
            c2, r2 = mk("b")
            I = identity_h(D)
            m12 = as_h(it.method(c1, "transform", CU, CU, c2))
            # r2 o m12 = r1  (mapping a cube-1 coordinate to world either way)
            if not teq(compose(r2, m12), r1):
                return False, "CUBE->CUBE of another cube is not WORLD->CUBE(other) o CUBE->WORLD(this)"
            v12 = it.method(c1, "transform", CU, CU, c2, vectors=True)
            if not teq(v12, m12[:, :D]):
                return False, "two-cube vectors map is not the linear part of the two-cube point map"
            if not teq(as_h(it.method(c1, "transform", CU, W, c2)), r1):
                return False, "CUBE->WORLD with to_cube given depends on the other cube"
            if not teq(compose(r2, as_h(it.method(c1, "transform", W, CU, c2))), I):
                return False, "WORLD->CUBE with to_cube given is not the inverse of the other cube's CUBE->WORLD"
            # CUBE_CORNERS spellings
            if not teq(as_h(it.method(c1, "transform", CC, W)), r1) or not teq(compose(as_h(it.method(c1, "transform", W, CC)), r1), I):
                return False, "CUBE_CORNERS <-> WORLD differs from CUBE <-> WORLD on a Cube"
            if not teq(as_h(it.method(c1, "transform", CC, CC, c2)), m12):
                return False, "CUBE_CORNERS -> CUBE_CORNERS of another cube differs from CUBE -> CUBE"
            for a, b in ((CU, CC), (CC, CU), (GR, W), (W, GR), (GR, GR)):
                try:
                    it.method(c1, "transform", a, b)
                except InterpError as e:
                    if e.exc_type == "ValueError":
                        continue
                    raise
                return False, f"Cube.transform({a.name}, {b.name}) is accepted although a Cube has no sampling convention / grid"
            # methods and wrappers
            p = STensor.symbols("p", [2, D])
            want_p = symt.stack([apply(m12, p[i]) for i in range(2)], 0)
            want_v = symt.matmul(p, m12[:, :D].t())
            if not teq(it.method(c1, "transform_points", p, CU, CU, c2), want_p) or not teq(it.call(W_["cube_transform_points"], p, c1, CU, c2, CU), want_p):
                return False, "Cube.transform_points / cube_transform_points towards another cube"
            if not teq(it.method(c1, "transform_vectors", p, CU, CU, c2), want_v) or not teq(it.call(W_["cube_transform_vectors"], p, c1, CU, c2, CU), want_v):
                return False, "Cube.transform_vectors / cube_transform_vectors towards another cube"
            if not teq(as_h(it.call(W_["cube_points_transform"], c1, CU, c2, CU)), m12) or not teq(it.call(W_["cube_vectors_transform"], c1, CU, c2, CU), m12[:, :D]):
                return False, "cube_points_transform / cube_vectors_transform"
            if not teq(as_h(it.call(W_["cube_points_transform"], c1, CU, c2, W)), r1):
                return False, "cube_points_transform(to_axes=WORLD)"
            # sequence forms
            seq = [to_rat(x) for x in it.method(c1, "extent").flat()] + [to_rat(x) for x in it.method(c1, "center").flat()] + \
                  [to_rat(x) for x in it.method(c1, "direction").flat()]
            from ..tae import ClassVal
            c3 = it.method(ClassVal(Cube), "from_seq", seq)
            if not teq(as_h(it.method(c3, "transform", CU, W)), r1):
                return False, "Cube.from_seq(extent, center, direction) does not reproduce the cube"
            oseq = [to_rat(x) for x in it.method(c1, "extent").flat()] + [to_rat(x) for x in it.method(c1, "origin").flat()] + \
                   [to_rat(x) for x in it.method(c1, "direction").flat()]
            c4 = it.method(ClassVal(Cube), "from_seq", oseq, origin=True)
            if not teq(as_h(it.method(c4, "transform", CU, W)), r1):
                return False, "Cube.from_seq(extent, origin, direction, origin=True) does not reproduce the cube"
            # extent_ keeps the centre
            c5 = it.method(c1, "clone")
            e2 = STensor.from_flat([Rat.atom(f"f{i}") for i in range(D)], [D])
            it.method(c5, "extent_", e2)
            if not teq(it.method(c5, "center"), it.method(c1, "center")) or not teq(it.method(c5, "extent"), e2):
                return False, "extent_(e) does not keep the centre / set the extent"
            if not teq(it.method(c1, "extent"), STensor.from_flat([Rat.atom(f"ae{i}") for i in range(D)], [D])):
                return False, "extent_ on a clone changed the original"
            return True, ""
        _guard(ctx, "T1.cube-api", f"D={D}", fT, f"two cubes D={D}", th)

        for ac in (True, False):
            def thg(D=D, ac=ac):
                gt = GridTables(ctx, D, ac)
                it, g = gt.it, gt.grid
                g2, _ = sym_grid(it, D, "h", not ac, gt.facts)
                own = gt.ax["CUBE_CORNERS" if ac else "CUBE"]
                inv = as_h(it.method(g, "inverse_transform"))
                if not teq(inv, as_h(it.method(g, "transform", gt.ax["WORLD"], own))):
                    return False, "Grid.inverse_transform() is not WORLD -> the grid's own cube axes"
                if not teq(it.method(g, "inverse_transform", vectors=True), inv[:, :D]):
                    return False, "Grid.inverse_transform(vectors=True) is not the linear part"
                for a, b in (("GRID", "CUBE"), ("CUBE_CORNERS", "WORLD"), ("WORLD", "GRID")):
                    mp = as_h(it.call(G_["grid_points_transform"], g, gt.ax[a], g2, gt.ax[b]))
                    mv = it.call(G_["grid_vectors_transform"], g, gt.ax[a], g2, gt.ax[b])
                    ref = as_h(it.method(g, "transform", gt.ax[a], gt.ax[b], g2))
                    if not teq(mp, ref) or not teq(mv, ref[:, :D]):
                        return False, f"grid_points_transform / grid_vectors_transform {a}->{b} towards another grid"
                return True, ""
            _guard(ctx, "T1.cube-api", f"D={D}:grid-wrappers:{ac}", G_["grid_points_transform"], f"grid wrappers D={D} align_corners={ac}", thg)


# --------------------------------------------------------------------------- grids with singleton axes (single slice / single row)
def run_singleton(ctx: Ctx) -> None:
    """The ITK convention on grids that have an axis with exactly one sample (size 1): (n - 1)/2 = 0 on that axis."""
    prog = ctx.prog
    Grid = prog.cls("deepali.core.grid", "Grid")
    fO = prog.func("deepali.core.grid", "Grid.origin")
    ctx.rule("T1.itk-singleton", "on grids with singleton axes (sizes (7,5,1), (1,5,4), (9,1), (1,1)) with symbolic spacing, center and rotation: "
                                 "origin() = c - R diag(s) (n-1)/2, GRID->WORLD = o + R diag(s) i, origin_(o) is the inverse re-parameterisation "
                                 "and both construction routes (origin=, center=) agree")
    for size in ((7, 5, 1), (1, 5, 4), (9, 1), (1, 1), (1, 6)):
        def th(size=size):
            reset_relations()
            facts = fresh_facts()
            it = make_interp(ctx)
            D = len(size)
            s = [Rat.atom(f"s{i}") for i in range(D)]
            c = [Rat.atom(f"c{i}") for i in range(D)]
            for x in s:
                facts.declare_positive(x)
            R = rotation(D, "")
            g = it.new(Grid, size=size, spacing=STensor.from_flat(s, [D]), center=STensor.from_flat(c, [D]), direction=R)
            RS = symt.matmul(R, symt.diag(STensor.from_flat(s, [D])))
            half = STensor.from_flat([Fraction(n - 1, 2) for n in size], [D])
            o_ref = STensor.from_flat(c, [D]).sub(symt.matmul(RS, half.unsqueeze(1)).squeeze(1))
            o = it.method(g, "origin")
            if not teq(o, o_ref):
                return False, f"size={size}: origin() = {tstr(o)[:120]} is not c - R diag(s) (n-1)/2 = {tstr(o_ref)[:120]}"
            Axes = prog.cls("deepali.core.grid", "Axes")
            m = as_h(it.method(g, "transform", it.enum(Axes, "GRID"), it.enum(Axes, "WORLD")))
            if not teq(m, symt.cat([RS, o_ref.unsqueeze(1)], dim=1)):
                return False, f"size={size}: GRID->WORLD is not o + R diag(s) i"
            g3 = it.new(Grid, size=size, spacing=STensor.from_flat(s, [D]), origin=o_ref, direction=R)
            if not teq(it.method(g3, "center"), STensor.from_flat(c, [D])) or not teq(it.method(g3, "origin"), o_ref):
                return False, f"size={size}: Grid(origin=o) does not reproduce the center / origin"
            return True, ""
        _guard(ctx, "T1.itk-singleton", f"size={size}", fO, f"size={size}", th)
