"""T1.itk-attrs — the SimpleITK-side grid helper (deepali.utils.simpleitk.grid.GridAttrs) against ITK's index<->physical formula.

Evaluated with the abstract interpreter over the numpy specification model (sa/iomodel.py): symbolic origin, spacing, rotation.
"""
from fractions import Fraction

from ..core import Ctx
from ..ring import Rat, reset_relations
from ..symt import STensor, Unsupported
from .. import symt, iomodel
from ..index import AnalysisError
from .gridsym import fresh_facts, rotation
from .t1_grid import _guard, make_interp, teq, tstr

MOD = "deepali.utils.simpleitk.grid"
F64 = iomodel.dt("float64")
I64 = iomodel.dt("int64")


class _Hdr(iomodel.HostObject):
    def __init__(self, size, origin, spacing, direction_flat):
        self._d = {"GetSize": tuple(size), "GetOrigin": tuple(origin), "GetSpacing": tuple(spacing), "GetDirection": tuple(direction_flat)}

    def __getattr__(self, name):
        if name in self.__dict__.get("_d", {}):
            v = self._d[name]
            return lambda: v
        raise AttributeError(name)


def _setup(ctx, D):
    reset_relations()
    facts = fresh_facts()
    iomodel.install()
    it = make_interp(ctx)
    s = [Rat.atom(f"s{i}") for i in range(D)]
    o = [Rat.atom(f"o{i}") for i in range(D)]
    for x in s:
        facts.declare_positive(x)
    Rm = rotation(D)
    RS = symt.matmul(Rm, symt.diag(STensor.from_flat(s, [D])))
    return it, facts, s, o, Rm, RS


def _ref_points(RS, o, idx: STensor) -> STensor:
    """o + R diag(s) i for every row i of idx (..., D)."""
    D = idx.shape[-1]
    flat = idx.reshape([-1, D])
    rows = []
    for k in range(flat.shape[0]):
        i = flat[k].type(F64)
        rows.append(STensor.from_flat(o, [D]).add(symt.matmul(RS, i.unsqueeze(1)).squeeze(1)))
    return symt.stack(rows, 0).reshape(list(idx.shape))


def run_gridattrs(ctx: Ctx) -> None:
    prog = ctx.prog
    rule = "T1.itk-attrs"
    ctx.rule(rule, "GridAttrs(size, origin, spacing, direction) and image_grid_attributes(header): index_to_physical_space(i) = o + R diag(s) i "
                   "for float and for integer index arrays (any leading shape), physical_space_to_continuous_index is its inverse, "
                   ".transform / .inverse_transform are the homogeneous matrices of these maps, .points[k,j,i] is the position of sample "
                   "(i,j,k), .corners are the 2^D positions of indices {0,n}; GridAttrs(center=c).center = c and the center= route yields "
                   "the origin whose .center is c (np.round(., decimals>=9) is treated as value-preserving)")
    if MOD not in prog.modules:
        raise AnalysisError(f"anchor module vanished: {MOD}")
    GA = prog.cls(MOD, "GridAttrs")
    f_i2p = prog.func(MOD, "GridAttrs.index_to_physical_space")
    f_p2i = prog.func(MOD, "GridAttrs.physical_space_to_continuous_index")
    f_hdr = prog.func(MOD, "image_grid_attributes")
    f_init = prog.func(MOD, "GridAttrs.__init__")
    f_center = prog.func(MOD, "GridAttrs.center")
    sizes = {2: (5, 4), 3: (5, 4, 3)}
    for D in (2, 3):
        n = sizes[D]

        def build(it, s, o, Rm, route):
            if route == "ctor":
                return it.new(GA, n, origin=tuple(o), spacing=tuple(s), direction=tuple(Rm.flat()))
            if route == "ctor-matrix":
                return it.new(GA, n, origin=list(o), spacing=list(s), direction=[list(Rm[r].flat()) for r in range(D)])
            return it.call(f_hdr, _Hdr(n, o, s, Rm.flat()))

        for route in ("ctor", "ctor-matrix", "header"):
            def fwd_float(route=route, D=D):
                it, facts, s, o, Rm, RS = _setup(ctx, D)
                g = build(it, s, o, Rm, route)
                idx = STensor.from_flat([Rat.atom(f"i{k}") for k in range(2 * D)], [2, D], F64)
                got = it.method(g, "index_to_physical_space", idx)
                ref = _ref_points(RS, o, idx)
                if tuple(got.shape) != (2, D) or not teq(got, ref):
                    return False, f"index_to_physical_space(float i) = {tstr(got)[:140]} expected {tstr(ref)[:140]}"
                one = STensor.from_flat([Rat.atom(f"i{k}") for k in range(D)], [D], F64)
                got1 = it.method(g, "index_to_physical_space", one)
                if tuple(got1.shape) != (D,) or not teq(got1, _ref_points(RS, o, one)):
                    return False, "index_to_physical_space of a single (D,) index differs from o + R diag(s) i"
                return True, ""
            _guard(ctx, rule, f"D={D}:{route}:index->physical:float", f_i2p, f"float indices route={route} D={D}", fwd_float)

            def fwd_int(route=route, D=D):
                it, facts, s, o, Rm, RS = _setup(ctx, D)
                g = build(it, s, o, Rm, route)
                vals = [[1, 2, 3][:D], [0, -1, 4][:D], [0, 0, 0][:D]]
                for arg in (STensor.from_nested(vals).type(I64), tuple(tuple(v) for v in vals), [1, 0, 2][:D]):
                    got = it.method(g, "index_to_physical_space", arg)
                    idx = arg if isinstance(arg, STensor) else STensor.from_nested([list(v) for v in arg] if isinstance(arg, tuple) else list(arg)).type(I64)
                    ref = _ref_points(RS, o, idx)
                    if tuple(got.shape) != tuple(idx.shape) or not teq(got, ref):
                        return False, f"index_to_physical_space(integer indices {type(arg).__name__}) = {tstr(got)[:140]} expected {tstr(ref)[:140]}"
                return True, ""
            _guard(ctx, rule, f"D={D}:{route}:index->physical:int", f_i2p, f"integer indices route={route} D={D}", fwd_int)

            def back(route=route, D=D):
                it, facts, s, o, Rm, RS = _setup(ctx, D)
                g = build(it, s, o, Rm, route)
                idx = STensor.from_flat([Rat.atom(f"i{k}") for k in range(2 * D)], [2, D], F64)
                world = _ref_points(RS, o, idx)
                got = it.method(g, "physical_space_to_continuous_index", world)
                if tuple(got.shape) != (2, D) or not teq(got, idx):
                    return False, f"physical_space_to_continuous_index(o + R diag(s) i) = {tstr(got)[:140]} expected i"
                k = STensor.from_nested([[1, 2, 0][:D], [3, 0, 2][:D]]).type(I64)
                got = it.method(g, "physical_space_to_index", _ref_points(RS, o, k))
                if not teq(got.type(F64), k.type(F64)):
                    return False, "physical_space_to_index(position of sample k) is not k"
                # nearest sample of points between samples and outside the image on either side (ITK TransformPhysicalPointToIndex)
                frac = STensor.from_nested([[Fraction(-6, 5), Fraction(12, 5), Fraction(-37, 10)][:D], [Fraction(33, 10), Fraction(-1, 5), Fraction(7, 10)][:D]])
                near = STensor.from_nested([[-1, 2, -4][:D], [3, 0, 1][:D]]).type(I64)
                got = it.method(g, "physical_space_to_index", _ref_points(RS, o, frac))
                if not teq(got.type(F64), near.type(F64)):
                    return False, (f"physical_space_to_index of the positions of continuous indices {frac.tolist()} is {got.tolist()}, "
                                   f"expected the nearest samples {near.tolist()}")
                return True, ""
            _guard(ctx, rule, f"D={D}:{route}:physical->index", f_p2i, f"route={route} D={D}", back)

        def mats(D=D):
            it, facts, s, o, Rm, RS = _setup(ctx, D)
            g = build(it, s, o, Rm, "ctor")
            T = it.getattr(g, "transform")
            ref = symt.cat([symt.cat([RS, STensor.from_flat(o, [D]).unsqueeze(1)], dim=1),
                            STensor.from_flat([0] * D + [1], [1, D + 1], F64)], dim=0)
            if not teq(T, ref):
                return False, f".transform = {tstr(T)[:160]} expected [R diag(s) | o; 0 1]"
            Ti = it.getattr(g, "inverse_transform")
            if not teq(symt.matmul(Ti, ref), symt.eye(D + 1)):
                return False, ".inverse_transform @ [R diag(s) | o] is not the identity"
            if not teq(it.getattr(g, "dcm"), Rm):
                return False, ".dcm differs from the direction matrix"
            return True, ""
        _guard(ctx, rule, f"D={D}:matrices", prog.func(MOD, "GridAttrs.transform"), f"transform/inverse_transform D={D}", mats)

        def lattice(D=D):
            it, facts, s, o, Rm, RS = _setup(ctx, D)
            g = build(it, s, o, Rm, "ctor")
            P = it.getattr(g, "points")
            shape = tuple(reversed(n)) + (D,)
            if tuple(P.shape) != shape:
                return False, f".points has shape {tuple(P.shape)} expected {shape}"
            import itertools
            for rev in itertools.product(*[range(m) for m in reversed(n)]):
                i = list(reversed(rev))
                ref = _ref_points(RS, o, STensor.from_flat(i, [D], I64))
                if not teq(P[rev], ref):
                    return False, f".points{list(rev)} = {tstr(P[rev])[:100]} is not the position of sample {i}"
            C = it.getattr(g, "corners")
            want = []
            for rev in itertools.product(*[(0, m) for m in reversed(n)]):
                want.append(list(reversed(rev)))
            refc = _ref_points(RS, o, STensor.from_nested(want).type(I64))
            if tuple(C.shape) != (2 ** D, D) or not teq(C, refc):
                return False, ".corners are not the positions of indices {0, n} per axis"
            return True, ""
        _guard(ctx, rule, f"D={D}:lattice", prog.func(MOD, "GridAttrs.points"), f"points/corners D={D}", lattice)

        def center_routes(D=D):
            it, facts, s, o, Rm, RS = _setup(ctx, D)
            g = build(it, s, o, Rm, "ctor")
            c = it.getattr(g, "center")
            c = STensor.from_flat(list(c), [D], F64) if isinstance(c, (tuple, list)) else c
            g2 = it.new(GA, n, center=tuple(c.flat()), spacing=tuple(s), direction=tuple(Rm.flat()))
            o2 = STensor.from_flat(list(g2.attrs["origin"]), [D], F64)
            if not teq(o2, STensor.from_flat(o, [D], F64)):
                return False, f"GridAttrs(center=GridAttrs(origin=o).center).origin = {tstr(o2)[:140]} is not o"
            cc = [Rat.atom(f"c{k}") for k in range(D)]
            g3 = it.new(GA, n, center=tuple(cc), spacing=tuple(s), direction=tuple(Rm.flat()))
            c3 = it.getattr(g3, "center")
            if not teq(STensor.from_flat(list(c3), [D], F64), STensor.from_flat(cc, [D], F64)):
                return False, "GridAttrs(center=c).center is not c"
            return True, ""
        _guard(ctx, rule, f"D={D}:center-route", f_init, f"center= route D={D}", center_routes)
